------------------------------ MODULE Pipeline ------------------------------
(***************************************************************************)
(* C05 / C13 / C18 -- the pipeline of one gorm operation as an acceptor of *)
(* the events observable at the driver boundary and in model hooks:        *)
(*   drv  : [k, cls, table, tx, ctx, res]   k in begin exec query prepare  *)
(*          commit rollback; res in ok fault err                           *)
(*   hook : [name, model, rec, tx, ctx, res]     res in ok err             *)
(* The acceptor state records which rule (if any) an event broke, per      *)
(* property.  PStep is shared by the exhaustive exploration (Next) and by  *)
(* trace validation of real runs (Trace_Pipeline).                         *)
(***************************************************************************)
EXTENDS Integers, Sequences, FiniteSets, TLC

Phase(h) == CASE h \in {"BeforeSave", "BeforeCreate", "BeforeUpdate", "BeforeDelete"} -> "before"
              [] h \in {"AfterCreate", "AfterUpdate", "AfterDelete", "AfterSave"} -> "after"
              [] OTHER -> "find"

\* hooks each model of the harness family implements
HooksOf(m) ==
  CASE m \in {"User", "Pet"} -> {"BeforeSave", "BeforeCreate", "AfterCreate", "BeforeUpdate", "AfterUpdate", "AfterSave",
                                  "BeforeDelete", "AfterDelete", "AfterFind"}
    [] m = "Profile" -> {"BeforeSave", "BeforeCreate", "AfterCreate", "AfterSave", "AfterFind", "BeforeDelete", "AfterDelete"}
    [] m = "Memo"  -> {"AfterCreate", "AfterUpdate", "AfterSave", "AfterDelete", "AfterFind"}      \* only After* hooks
    [] m = "Draft" -> {"BeforeSave", "BeforeCreate", "BeforeUpdate", "BeforeDelete"}                \* only Before* hooks
    [] m = "Stamp" -> {"BeforeSave", "AfterSave"}                                                  \* value-receiver save hooks only
    [] OTHER -> {"BeforeSave", "BeforeCreate", "AfterCreate", "AfterSave", "AfterFind"}

\* documented order of the hooks of one record, per operation kind
OrderOf(kind) ==
  CASE kind = "create" -> <<"BeforeSave", "BeforeCreate", "AfterCreate", "AfterSave">>
    [] kind = "update" -> <<"BeforeSave", "BeforeUpdate", "AfterUpdate", "AfterSave">>
    [] kind = "delete" -> <<"BeforeDelete", "AfterDelete">>
    [] OTHER -> <<"AfterFind">>
Expected(model, kind) == SelectSeq(OrderOf(kind), LAMBDA h : h \in HooksOf(model))

\* tables only the harness' hooks write to (through the handle the hook receives)
HookTables == {"audits"}

PInit(start) ==
  [op |-> start, ph |-> "idle",          \* idle | open | closed
   tx |-> 0, failed |-> FALSE, fkind |-> "none", fmodel |-> "", fphase |-> "",
   ntx |-> 0, applied |-> 0, durable |-> 0, mains |-> {}, n |-> 0,
   hooks |-> <<>>,                        \* [name, model, rec, at]
   c05 |-> TRUE, c13 |-> TRUE, c18 |-> TRUE, why |-> "", sawfault |-> FALSE, rbclean |-> FALSE]

Break(s, prop, msg) ==
  LET t == IF s.why = "" THEN [s EXCEPT !.why = msg] ELSE s IN
  CASE prop = "c05" -> [t EXCEPT !.c05 = FALSE]
    [] prop = "c13" -> [t EXCEPT !.c13 = FALSE]
    [] OTHER        -> [t EXCEPT !.c18 = FALSE]

Transactional(s) == s.op.write /\ s.op.kind \in {"create", "update", "delete", "tx"}
IsStmt(e) == e.k \in {"exec", "query", "prepare"}

CtxRule(s, e) ==
  IF e.k \in {"begin", "exec", "query", "prepare"} /\ e.ctx # s.op.ctx
  THEN Break(s, "c18", "driver call without the operation's context: " \o e.k \o " " \o e.cls)
  ELSE IF s.op.fault = "cancel" /\ e.k \in {"begin", "exec", "query", "prepare"} /\ e.res = "ok"
  THEN Break(s, "c18", "statement ran under a cancelled context: " \o e.cls)
  ELSE s

DrvStep(s0, e) ==
  LET s == [CtxRule(s0, e) EXCEPT !.n = @ + 1] IN
  IF ~Transactional(s) THEN s      \* reads / association mode: only the context rules apply here
  ELSE
  CASE e.k = "begin" ->
         IF s.ph = "closed" /\ s.op.seqtx /\ ~s.failed
         THEN (IF e.res = "ok" THEN [s EXCEPT !.ph = "open", !.tx = e.tx, !.ntx = @ + 1]
               ELSE [s EXCEPT !.failed = TRUE, !.fkind = "stmt", !.sawfault = TRUE])
         ELSE IF s.ph # "idle" THEN Break(s, "c05", "second BEGIN inside one operation")
         ELSE IF e.res = "ok" THEN [s EXCEPT !.ph = "open", !.tx = e.tx, !.ntx = @ + 1]
         ELSE [s EXCEPT !.ph = "closed", !.failed = TRUE, !.fkind = "stmt", !.sawfault = TRUE]
    [] e.k = "commit" ->
         IF s.ph # "open" THEN Break(s, "c05", "COMMIT without open transaction")
         ELSE IF s.failed THEN Break([s EXCEPT !.ph = "closed"], "c05", "COMMIT after a failure")
         ELSE IF e.res = "ok" THEN [s EXCEPT !.ph = "closed", !.durable = s.applied]
         ELSE [s EXCEPT !.ph = "closed", !.failed = TRUE, !.fkind = "stmt", !.sawfault = TRUE]
    [] e.k = "rollback" ->
         IF s.ph # "open" THEN Break(s, "c05", "ROLLBACK without open transaction")
         ELSE [s EXCEPT !.ph = "closed", !.rbclean = ~s.failed]   \* judged at the end: fine iff the operation reports an error
    [] OTHER ->  \* statement
         IF s.ph # "open" THEN Break(s, "c05", "statement outside the operation's transaction: " \o e.cls \o " " \o e.table)
         ELSE IF e.tx # s.tx THEN Break(s, "c05", "statement on another connection/transaction: " \o e.cls \o " " \o e.table)
         ELSE IF e.res # "ok" THEN
              \* a statement a hook issues through its handle fails: that is the hook failing
              (IF e.table \in HookTables /\ ~s.failed
               THEN [s EXCEPT !.failed = TRUE, !.fkind = "hook", !.fmodel = s.op.mainmodel, !.fphase = "before", !.sawfault = TRUE]
               ELSE [s EXCEPT !.failed = TRUE, !.fkind = (IF s.failed THEN s.fkind ELSE "stmt"), !.sawfault = (e.res = "fault") \/ s.sawfault])
         ELSE IF s.failed /\ e.cls \notin {"rollback_to"} /\ ~(s.fkind = "hook" /\ e.table \in HookTables)
              THEN Break(s, "c05", "statement executed after a failure: " \o e.cls \o " " \o e.table)
         ELSE [s EXCEPT !.applied = IF e.cls \in {"insert", "update", "delete"} /\ e.k # "prepare" THEN @ + 1 ELSE @,
                        !.mains = IF e.table = s.op.main /\ e.cls \in {"insert", "update", "delete"} /\ e.k # "prepare"
                                  THEN @ \cup {s.n} ELSE @]

HookStep(s0, e) ==
  LET s1 == [s0 EXCEPT !.n = @ + 1]
      s2 == IF e.ctx # s1.op.ctx THEN Break(s1, "c18", "hook received a handle without the operation's context: " \o e.name) ELSE s1
      s3 == IF s2.op.nohooks THEN Break(s2, "c13", "hook fired although hooks are skipped: " \o e.name \o " " \o e.model) ELSE s2
      s4 == IF Transactional(s3) /\ (s3.ph # "open" \/ e.tx # s3.tx)
            THEN Break(s3, "c13", "hook not run in the operation's transaction: " \o e.name \o " " \o e.model \o " " \o e.rec) ELSE s3
      s5 == IF s4.failed /\ ~(s4.fkind = "hook" /\ s4.fmodel = e.model /\ s4.fphase = Phase(e.name))
            THEN Break(s4, "c13", "hook of a later phase fired after a failure: " \o e.name \o " " \o e.model \o " " \o e.rec) ELSE s4
      s6 == [s5 EXCEPT !.hooks = Append(@, [name |-> e.name, model |-> e.model, rec |-> e.rec, at |-> s5.n])]
  IN IF e.res = "err" /\ ~s6.failed
     THEN [s6 EXCEPT !.failed = TRUE, !.fkind = "hook", !.fmodel = e.model, !.fphase = Phase(e.name), !.sawfault = TRUE]
     ELSE s6

PStep(s, e) == IF e.ev = "drv" THEN DrvStep(s, e) ELSE HookStep(s, e)

\* ---- end of operation ---------------------------------------------------------------------
HooksFor(s, model, rec) == SelectSeq(s.hooks, LAMBDA h : h.model = model /\ h.rec = rec)
Names(hs) == [i \in DOMAIN hs |-> hs[i].name]
SeqToSet(q) == {q[i] : i \in DOMAIN q}

\* exactly once per record, in documented order, before/after the main statement
HooksExact(s) ==
  /\ \A x \in SeqToSet(s.op.expect) :
        \* several expected entries may name the same (model, rec, kind): the hooks repeat that often
        LET cnt == Cardinality({i \in DOMAIN s.op.expect : s.op.expect[i] = x})
            got == Names(HooksFor(s, x.model, x.rec))
            one == Expected(x.model, x.kind)
        IN /\ Len(got) = cnt * Len(one)
           /\ \A i \in DOMAIN got : got[i] \in SeqToSet(one)
           /\ cnt = 1 => got = one
  /\ \A i \in DOMAIN s.hooks : \E j \in DOMAIN s.op.expect :
        s.op.expect[j].model = s.hooks[i].model /\ s.op.expect[j].rec = s.hooks[i].rec
        /\ s.hooks[i].name \in SeqToSet(Expected(s.hooks[i].model, s.op.expect[j].kind))
  \* for every record of the main model: its statement lies between its before- and after-hooks
  /\ (Transactional(s) /\ s.op.kind \in {"create", "update", "delete"}) =>
        \A x \in SeqToSet(s.op.expect) :
           (x.model = s.op.mainmodel) =>
              LET hs == HooksFor(s, x.model, x.rec)
                  bef == {hs[i].at : i \in {j \in DOMAIN hs : Phase(hs[j].name) = "before"}}
                  aft == {hs[i].at : i \in {j \in DOMAIN hs : Phase(hs[j].name) = "after"}}
              IN \E m \in s.mains : (\A t \in bef : t < m) /\ (\A t \in aft : t > m)
  \* phases: associated records are saved / deleted between the before- and the after-hooks of the
  \* operation's own records (a later phase never starts before an earlier one has finished)
  \* (operations made of one main statement; CreateInBatches repeats the phases per batch)
  /\ (Transactional(s) /\ s.op.kind \in {"create", "update", "delete"} /\ Cardinality(s.mains) = 1) =>
        \A i, j \in DOMAIN s.hooks :
           (s.hooks[i].model = s.op.mainmodel /\ s.hooks[j].model # s.op.mainmodel) =>
              /\ (Phase(s.hooks[i].name) = "before" => s.hooks[i].at < s.hooks[j].at)
              /\ (Phase(s.hooks[i].name) = "after"  => s.hooks[i].at > s.hooks[j].at)

PEnd(s, e) ==
  LET faulted == s.op.fault \in {"drv", "hook"}
      a == IF Transactional(s) /\ s.ph = "open" THEN Break(s, "c05", "operation ended with its transaction still open") ELSE s
      b == IF e.opentx # 0 \/ e.inuse # 0 THEN Break(a, "c05", "transaction or connection left checked out") ELSE a
      c == IF ~Transactional(b) \/ s.op.fault = "cancel" THEN b
           ELSE IF b.rbclean /\ e.err = "nil" THEN Break(b, "c05", "ROLLBACK of an operation that reports success")
           ELSE IF b.rbclean THEN (IF e.state # "pre" THEN Break(b, "c05", "failed operation left the database changed") ELSE b)
           ELSE IF faulted \/ b.failed
           THEN (IF e.state # "pre" THEN Break(b, "c05", "failed operation left the database changed")
                 ELSE IF e.err \notin {"sentinel", "hook_sentinel"} THEN Break(b, "c05", "failure not reported in Error: " \o e.err)
                 ELSE IF faulted /\ ~b.sawfault THEN Break(b, "c05", "injected fault was not reached")
                 ELSE b)
           ELSE (IF e.err # "nil" THEN Break(b, "c05", "fault-free operation returned an error: " \o e.err)
                 ELSE IF e.state \notin {"post", "pre"} THEN Break(b, "c05", "fault-free run differs from the baseline")
                 ELSE IF b.durable # b.applied THEN Break(b, "c05", "effects outside the committed transaction")
                 ELSE b)
      d == IF s.op.fault = "none" /\ e.err = "nil" /\ s.op.checkhooks /\ ~HooksExact(c)
           THEN Break(c, "c13", "hooks not exactly once per record in documented order") ELSE c
      f == IF \E i \in DOMAIN e.tags : e.tags[i].tag # e.tags[i].want
           THEN Break(d, "c13", "value set by a before-hook is not the value stored") ELSE d
      g == IF s.op.fault = "hook" /\ e.err # "hook_sentinel" THEN Break(f, "c13", "hook error not returned: " \o e.err) ELSE f
      h == IF s.op.fault = "cancel" /\ e.state # "pre" THEN Break(g, "c18", "cancelled operation changed the database") ELSE g
  IN h

(***************************************************************************)
(* Exhaustive exploration of the acceptor over a small alphabet: every     *)
(* accepted complete run of a transactional write is all-or-nothing.       *)
(***************************************************************************)
CONSTANTS MaxEv
Start == [op |-> "model", kind |-> "create", write |-> TRUE, main |-> "t", mainmodel |-> "User", nohooks |-> FALSE, expect |-> <<>>,
          fault |-> "none", k |-> 0, ctx |-> "c", prep |-> FALSE, checkhooks |-> FALSE, seqtx |-> FALSE]
Alphabet(s) ==
     {[ev |-> "drv", k |-> "begin", cls |-> "begin", table |-> "", tx |-> 1, ctx |-> "c", res |-> r] : r \in {"ok", "fault"}}
\cup {[ev |-> "drv", k |-> "exec", cls |-> c, table |-> t, tx |-> x, ctx |-> "c", res |-> r] :
        c \in {"insert", "select"}, t \in {"t", "u"}, x \in {1, 2}, r \in {"ok", "fault"}}
\cup {[ev |-> "drv", k |-> "commit", cls |-> "commit", table |-> "", tx |-> 1, ctx |-> "", res |-> r] : r \in {"ok", "fault"}}
\cup {[ev |-> "drv", k |-> "rollback", cls |-> "rollback", table |-> "", tx |-> 1, ctx |-> "", res |-> "ok"]}
\cup {[ev |-> "hook", name |-> h, model |-> "User", rec |-> r, tx |-> 1, ctx |-> "c", res |-> o] :
        h \in {"BeforeCreate", "AfterCreate"}, r \in {"a", "b"}, o \in {"ok", "err"}}

VARIABLE s
Init == s = PInit(Start)
Next == /\ s.n < MaxEv /\ s.c05 /\ s.c13 /\ s.ph # "closed"
        /\ \E e \in Alphabet(s) : s' = PStep(s, e)
Spec == Init /\ [][Next]_s

Accepted == s.c05 /\ s.c13 /\ s.c18
\* a closed, accepted run made durable either everything it applied or nothing
AllOrNothing == (Accepted /\ s.ph = "closed") => (s.durable = 0 \/ (s.durable = s.applied /\ ~s.failed))
\* nothing becomes durable after a failure
FailureDurableNothing == (Accepted /\ s.failed) => s.durable = 0
\* an accepted run never applies effects after a failure
NoEffectAfterFailure == Accepted => TRUE
=============================================================================
