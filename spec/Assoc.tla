------------------------------- MODULE Assoc -------------------------------
(***************************************************************************)
(* C11 (and the join / preload / association part of C08): which rows an   *)
(* eager load must attach to which parent.                                 *)
(*                                                                         *)
(* Data is a sequence of levels; level 1 holds the parents the query       *)
(* returns, level i+1 the targets of hop i of the preload / join path.     *)
(* A row is [id, fk, bfk, ptype, del, v]:                                  *)
(*   id   : key tuple (sequence of string tokens, "null" = SQL NULL)        *)
(*   fk   : the row's foreign key towards the row one level up ("has" hop) *)
(*   bfk  : the row's foreign key towards the row one level down           *)
(*          ("belongs" hop: the parent holds the key)                      *)
(*   ptype: polymorphic type value ("" if none);  del: soft-deleted;       *)
(*   v    : an integer attribute for conditions                            *)
(* A hop is [kind |-> "has" | "belongs" | "m2m", ptype, links] where links *)
(* is the sequence of <<parent id, target id>> join rows of a many-to-many hop. *)
(* Attachment is a function of key-tuple equality only.                    *)
(***************************************************************************)
EXTENDS Integers, Sequences, FiniteSets, TLC

HasNull(k) == \E i \in DOMAIN k : k[i] = "null"
KeyEq(a, b) == ~HasNull(a) /\ ~HasNull(b) /\ a = b

Visible(r, unscoped) == unscoped \/ ~r.del

Linked(hop, p, c) ==
  CASE hop.kind = "has"     -> KeyEq(c.fk, p.id) /\ (hop.ptype # "" => c.ptype = hop.ptype)
    [] hop.kind = "belongs" -> KeyEq(p.bfk, c.id)
    [] hop.kind = "m2m"     -> \E k \in DOMAIN hop.links : KeyEq(hop.links[k][1], p.id) /\ KeyEq(hop.links[k][2], c.id)

\* condition on the rows of the LAST level: [on |-> BOOLEAN, gt |-> Int, eq |-> Int, ne |-> Int]
\*   v > gt   or, when eq >= 0,   v > gt OR v = eq ;   when ne >= 0 a second condition v <> ne is AND-ed
\*   (conditions given with clause.Associations plus conditions given for the relation itself)
CondOK(cond, r) == ~cond.on \/ ((r.v > cond.gt \/ (cond.eq >= 0 /\ r.v = cond.eq)) /\ (cond.ne < 0 \/ r.v # cond.ne))

\* rows of level i+1 attached to row p of level i
Children(levels, hops, i, p, unscoped, cond) ==
  {c \in {levels[i + 1][k] : k \in DOMAIN levels[i + 1]} :
     /\ Linked(hops[i], p, c)
     /\ Visible(c, unscoped)
     /\ (i + 1 = Len(levels) => CondOK(cond, c))}

RECURSIVE Tree(_, _, _, _, _, _)
Tree(levels, hops, i, p, unscoped, cond) ==
  [id |-> p.id,
   kids |-> IF i = Len(levels) THEN {}
            ELSE {Tree(levels, hops, i + 1, c, unscoped, cond) : c \in Children(levels, hops, i, p, unscoped, cond)}]

\* the parents a plain Find returns (soft-delete scope on the main model)
Parents(levels, unscoped) == {levels[1][k] : k \in {j \in DOMAIN levels[1] : Visible(levels[1][j], unscoped)}}

\* ---- observed result: nested sequences [id, kids] -> nested sets ----------------------------
RECURSIVE Norm(_)
Norm(r) == [id |-> r.id, kids |-> {Norm(r.kids[i]) : i \in DOMAIN r.kids}]
\* no child attached twice to the same parent
RECURSIVE NoDup(_)
NoDup(r) == /\ \A i, j \in DOMAIN r.kids : i # j => r.kids[i].id # r.kids[j].id
            /\ \A i \in DOMAIN r.kids : NoDup(r.kids[i])

\* op: preload | joins | innerjoins | find (association mode, single parent) ; dup: every parent twice
ExpectedTop(e) ==
  LET ps == Parents(e.levels, e.unscoped)
      trees == {Tree(e.levels, e.hops, 1, p, e.unscoped, e.cond) : p \in ps}
  IN IF e.op = "innerjoins" THEN {t \in trees : t.kids # {}} ELSE trees

LoadOK(e) ==
  LET got == {Norm(e.result[i]) : i \in DOMAIN e.result}
      exp == ExpectedTop(e)
  IN /\ got = exp
     /\ Len(e.result) = (IF e.dup THEN 2 ELSE 1) * Cardinality(exp)    \* every parent (twice when duplicated), none missing
     /\ \A i \in DOMAIN e.result : NoDup(e.result[i])
\* soft-delete scope alone (C08): nothing marked is attached or returned unless Unscoped
RECURSIVE IdsIn(_)
IdsIn(r) == UNION {IdsIn(r.kids[i]) : i \in DOMAIN r.kids} \cup {<<Len(r.kids), r.id>>}
NoDeadVisible(e) ==
  e.unscoped \/
  \A i \in DOMAIN e.result :
     /\ \A k \in DOMAIN e.levels[1] : (e.levels[1][k].id = e.result[i].id) => ~e.levels[1][k].del
     /\ \A j \in DOMAIN e.result[i].kids :
          \A k \in DOMAIN e.levels[2] : (e.levels[2][k].id = e.result[i].kids[j].id) => ~e.levels[2][k].del
CountOK(e) == e.count = Cardinality(UNION {t.kids : t \in ExpectedTop(e)})

(***************************************************************************)
(* Bounded exploration: 2 parents x 3 children with keys from an           *)
(* adversarial vocabulary; attachment depends on tuple equality only.      *)
(***************************************************************************)
CONSTANTS KeyVocab      \* set of key tuples
VARIABLES pk1, pk2, ck
Init == pk1 \in KeyVocab /\ pk2 \in KeyVocab /\ ck \in KeyVocab /\ pk1 # pk2
Next == UNCHANGED <<pk1, pk2, ck>>
Spec == Init /\ [][Next]_<<pk1, pk2, ck>>
Row(id, fk) == [id |-> id, fk |-> fk, bfk |-> <<"null">>, ptype |-> "", del |-> FALSE, v |-> 0]
L == <<<<Row(pk1, <<"null">>), Row(pk2, <<"null">>)>>, <<Row(<<"i:1">>, ck)>>>>
H == <<[kind |-> "has", ptype |-> "", links |-> <<>>]>>
NoCond == [on |-> FALSE, gt |-> 0]
\* a child is attached to a parent iff its foreign-key tuple equals the parent's key tuple
OnlyOwn == \A p \in {L[1][1], L[1][2]} :
              (Children(L, H, 1, p, FALSE, NoCond) # {}) <=> (ck = p.id /\ ~HasNull(ck))
AtMostOneOwner == ~(Children(L, H, 1, L[1][1], FALSE, NoCond) # {} /\ Children(L, H, 1, L[1][2], FALSE, NoCond) # {})
=============================================================================
