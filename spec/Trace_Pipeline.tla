--------------------------- MODULE Trace_Pipeline ---------------------------
(* Trace validation for C05 / C13 / C18: every run of an operation (fault-free, *)
(* with a fault at the k-th driver call, with an error from the h-th hook        *)
(* invocation, or under a cancelled context) is fed event by event through the   *)
(* acceptor of Pipeline.tla.                                                     *)
EXTENDS Pipeline, Json

Trace == ndJsonDeserialize("obs.ndjson")
VARIABLES l, cur, bad
tvars == <<l, cur, bad, s>>

None == [none |-> TRUE]
TInit == l = 1 /\ cur = None /\ bad = <<>> /\ s = PInit(Start)

OpStartEv ==
  /\ l <= Len(Trace) /\ Trace[l].ev = "OpStart"
  /\ cur' = PInit(Trace[l])
  /\ l' = l + 1 /\ UNCHANGED <<bad, s>>

StepEv ==
  /\ l <= Len(Trace) /\ Trace[l].ev \in {"drv", "hook"}
  /\ cur' = PStep(cur, Trace[l])
  /\ l' = l + 1 /\ UNCHANGED <<bad, s>>

OpEndEv ==
  /\ l <= Len(Trace) /\ Trace[l].ev = "OpEnd"
  /\ LET f == PEnd(cur, Trace[l]) IN
       bad' = IF f.c05 /\ f.c13 /\ f.c18 THEN bad
              ELSE Append(bad, [i |-> l, case |-> Trace[l].case, op |-> f.op.op, fault |-> f.op.fault, k |-> f.op.k,
                                c05 |-> f.c05, c13 |-> f.c13, c18 |-> f.c18, why |-> f.why])
  /\ cur' = None
  /\ l' = l + 1 /\ UNCHANGED s

Finish ==
  /\ l = Len(Trace) + 1
  /\ ndJsonSerialize("verdict.ndjson", <<[n |-> Len(Trace), bad |-> bad]>>)
  /\ l' = l + 1 /\ UNCHANGED <<cur, bad, s>>

TraceSpec == TInit /\ [][OpStartEv \/ StepEv \/ OpEndEv \/ Finish]_tvars
=============================================================================
