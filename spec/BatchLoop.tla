----------------------------- MODULE BatchLoop -----------------------------
(***************************************************************************)
(* C15, unbounded part -- the FindInBatches loop as an integer state       *)
(* machine.  c = [n, b, l, o]: n matching rows in key order, batch size b, *)
(* limit l (0 = none), offset o.  Keys are delivered contiguously (the     *)
(* cursor), so the rows delivered so far are o+1 .. o+ra and the loop is   *)
(* right when it stops with ra = PageLen(c).                               *)
(* StepFn is one iteration as written in finisher_api.go (query with the   *)
(* current batch size, stop when the result is short or the limit is       *)
(* reached, shrink the last batch to the limit's remainder).               *)
(* IndInv is an inductive invariant: Apalache checks Init => IndInv        *)
(* (length 0) and IndInv /\ Next => IndInv' (length 1) for ALL naturals    *)
(* n, b >= 1, l, o -- no bound.  BatchLoopX.tla (TLC) checks that StepFn   *)
(* produces the batch sizes of the sequence-level transcription            *)
(* Reads!ImplBatches on the grid, which trace validation binds to the code.*)
(***************************************************************************)
EXTENDS Integers

CONSTANTS
  \* @type: Int;
  N,
  \* @type: Int;
  B,
  \* @type: Int;
  L,
  \* @type: Int;
  O

VARIABLES
  \* @type: {pc: Str, bs: Int, ra: Int, batch: Int, got: Int};
  st

CInit == N \in Nat /\ B \in Nat /\ B >= 1 /\ L \in Nat /\ O \in Nat

\* @type: (Int, Int) => Int;
Min(a, b) == IF a <= b THEN a ELSE b
\* @type: (Int, Int) => Int;
Max(a, b) == IF a >= b THEN a ELSE b
\* @type: ({n: Int, b: Int, l: Int, o: Int}) => Int;
Bs0(c) == IF c.l > 0 /\ c.b > c.l THEN c.l ELSE c.b
\* @type: ({n: Int, b: Int, l: Int, o: Int}) => Int;
PageLen(c) == LET avail == Max(0, c.n - c.o) IN IF c.l > 0 THEN Min(avail, c.l) ELSE avail

\* @type: ({n: Int, b: Int, l: Int, o: Int}) => {pc: Str, bs: Int, ra: Int, batch: Int, got: Int};
Start(c) == [pc |-> "run", bs |-> Bs0(c), ra |-> 0, batch |-> 0, got |-> 0]

\* @type: ({n: Int, b: Int, l: Int, o: Int}, {pc: Str, bs: Int, ra: Int, batch: Int, got: Int}) => {pc: Str, bs: Int, ra: Int, batch: Int, got: Int};
StepFn(c, s) ==
  LET start == c.o + s.ra                      \* rows passed by the cursor (the offset applies to the first query only)
      got == Min(Max(0, c.n - start), s.bs)
      ra2 == s.ra + got
      b2 == s.batch + 1
  IN IF got < s.bs \/ (c.l > 0 /\ c.l <= ra2)
     THEN [pc |-> "done", bs |-> s.bs, ra |-> ra2, batch |-> b2, got |-> got]
     ELSE [pc |-> "run", bs |-> (IF c.l > 0 /\ (c.l \div s.bs) = b2 THEN c.l % s.bs ELSE s.bs), ra |-> ra2, batch |-> b2, got |-> got]

Cfg == [n |-> N, b |-> B, l |-> L, o |-> O]
Init == st = Start(Cfg)
Next == IF st.pc = "run" THEN st' = StepFn(Cfg, st) ELSE UNCHANGED st

\* the property: the loop stops having delivered exactly the page; no batch is larger than requested
Correct == st.pc = "done" => st.ra = PageLen(Cfg)
BatchBound == st.got <= B

IndInv ==
  /\ st \in [pc: {"run", "done"}, bs: Nat, ra: Nat, batch: Nat, got: Nat]
  /\ st.bs <= B /\ st.got <= B /\ st.ra <= PageLen(Cfg)
  /\ (st.pc = "run" /\ st.batch = 0) => st = Start(Cfg)
  /\ (st.pc = "run" /\ st.batch > 0) =>
        /\ st.ra = st.batch * Bs0(Cfg)
        /\ (L > 0 => st.ra < L)
        /\ st.bs >= 1
        /\ \/ (st.bs = Bs0(Cfg) /\ ~(L > 0 /\ st.batch = L \div Bs0(Cfg)))
           \/ (L > 0 /\ st.batch = L \div Bs0(Cfg) /\ st.bs = L % Bs0(Cfg))
  /\ Correct
IndInit == IndInv
=============================================================================
