------------------------------ MODULE Callbacks ------------------------------
(***************************************************************************)
(* C17 -- callback registration honours Before/After and never disturbs   *)
(* the built-in order.                                                     *)
(*                                                                         *)
(* Two levels (DESIGN section 3):                                          *)
(*   property level : Live / Valid  -- what a registration history means   *)
(*                    and which firing orders it admits (observables only) *)
(*   implementation : Compile / Sort / SortCb -- a transcription of        *)
(*                    callbacks.go processor.compile + sortCallbacks,      *)
(*                    including the in-place mutation of the registered    *)
(*                    callback objects that persists between compiles.     *)
(* A registration is [op, name, before, after]; op in reg/rep/rem.         *)
(* Callback identity = index of the registration in the whole history      *)
(* (built-ins first), which is what the recording stubs of the harness log.*)
(***************************************************************************)
EXTENDS Integers, Sequences, FiniteSets, TLC

CONSTANTS NB,        \* number of built-in callbacks of the pipeline under test
          MaxLen,    \* maximal number of user registrations
          Both       \* TRUE: Before and After may both be set on one registration

BName(i) == "b" \o ToString(i)
Fresh    == <<"x", "y", "z", "w">>
BuiltinRegsN(nb) == [i \in 1..nb |-> [op |-> "reg", name |-> BName(i), before |-> "", after |-> ""]]
BuiltinRegs == BuiltinRegsN(NB)

Range(s) == {s[i] : i \in DOMAIN s}
Pos(s, v) == CHOOSE i \in DOMAIN s : s[i] = v
\* getRIndex: right-most index of v in s, 0 when absent
RIdx(s, v) == IF \E i \in DOMAIN s : s[i] = v
              THEN CHOOSE i \in DOMAIN s : s[i] = v /\ \A j \in DOMAIN s : s[j] = v => j <= i
              ELSE 0
InsAt(s, k, v) == SubSeq(s, 1, k - 1) \o <<v>> \o SubSeq(s, k, Len(s))

(***************************************************************************)
(* Property level                                                          *)
(***************************************************************************)
\* live entries after a history: sequence of [name, id, orig, before, after]
RECURSIVE LiveUpTo(_, _)
LiveUpTo(regs, n) ==
  IF n = 0 THEN <<>>
  ELSE LET prev == LiveUpTo(regs, n - 1)
           r    == regs[n]
           has  == \E i \in DOMAIN prev : prev[i].name = r.name
       IN CASE r.op = "rem" -> SelectSeq(prev, LAMBDA e : e.name # r.name)
            [] r.op = "rep" /\ has ->
                 [i \in DOMAIN prev |-> IF prev[i].name = r.name THEN [prev[i] EXCEPT !.id = n] ELSE prev[i]]
            [] OTHER -> Append(prev, [name |-> r.name, id |-> n, orig |-> n,
                                      before |-> r.before, after |-> r.after])
Live(regs) == LiveUpTo(regs, Len(regs))

\* res = [err |-> BOOLEAN, order |-> sequence of ids]
ValidNB(nb, regs, res) ==
  \/ res.err
  \/ LET live == Live(regs)
         ids  == {live[i].id : i \in DOMAIN live}
         ord  == res.order
         P(id) == Pos(ord, id)
         ByName(nm) == {live[i] : i \in {j \in DOMAIN live : live[j].name = nm}}
         E == Range(live)
     IN /\ Len(ord) = Cardinality(ids)                       \* exactly once
        /\ Range(ord) = ids                                  \* every live one, nothing else
        /\ \A e \in E :
             /\ \A f \in ByName(e.before) : f.id # e.id => P(e.id) < P(f.id)
             /\ \A f \in ByName(e.after)  : f.id # e.id => P(e.id) > P(f.id)
             \* "*" names every built-in of the pipeline
             /\ e.before = "*" => \A f \in E : (f.orig <= nb /\ f.before # "*") => P(e.id) < P(f.id)
             /\ e.after  = "*" => \A f \in E : (f.orig <= nb /\ f.after # "*")  => P(e.id) > P(f.id)
             \* ... and every callback registered without a constraint of its own, whenever it was registered
             \* (as long as no other callback asks to be placed relative to e itself)
             /\ (e.before = "*" /\ \A g \in E : g.before # e.name /\ g.after # e.name)
                   => \A f \in E : (f.before = "" /\ f.after = "") => P(e.id) < P(f.id)
             /\ (e.after = "*" /\ \A g \in E : g.before # e.name /\ g.after # e.name)
                   => \A f \in E : (f.before = "" /\ f.after = "") => P(e.id) > P(f.id)
        /\ \A e, f \in E : (e.orig <= nb /\ f.orig <= nb /\ e.orig < f.orig) => P(e.id) < P(f.id)
Valid(regs, res) == ValidNB(NB, regs, res)

(***************************************************************************)
(* Implementation shape: callbacks.go                                      *)
(***************************************************************************)
Cb(r, id) == [name |-> r.name, before |-> r.before, after |-> r.after,
              remove |-> (r.op = "rem"), replace |-> (r.op = "rep"), id |-> id]

\* sort.SliceStable for n <= 20 is a plain insertion sort with this `less`
Less(a, b) == \/ (b.before = "*" /\ a.before # "*")
              \/ (b.after = "*" /\ a.after # "*")
RECURSIVE Sink(_, _)
Sink(s, j) == IF j > 1 /\ Less(s[j], s[j-1])
              THEN Sink([s EXCEPT ![j] = s[j-1], ![j-1] = s[j]], j - 1)
              ELSE s
RECURSIVE InsSort(_, _)
InsSort(s, i) == IF i > Len(s) THEN s ELSE InsSort(Sink(s, i), i + 1)
StableSort(s) == InsSort(s, 2)

NamesOf(cs) == [i \in DOMAIN cs |-> cs[i].name]

Fuel == 60
\* st = [cs, sorted, err, div, fuel]
RECURSIVE SortCb(_, _)
BeforePart(i, st) ==
  LET c == st.cs[i]  names == NamesOf(st.cs)  so == st.sorted IN
  IF c.before = "" THEN st
  ELSE IF c.before = "*" /\ Len(so) > 0
       THEN IF RIdx(so, c.name) = 0 THEN [st EXCEPT !.sorted = <<c.name>> \o so] ELSE st
  ELSE IF RIdx(so, c.before) # 0
       THEN LET si == RIdx(so, c.before)  ci == RIdx(so, c.name) IN
            IF ci = 0 THEN [st EXCEPT !.sorted = InsAt(so, si, c.name)]
            ELSE IF ci > si THEN [st EXCEPT !.err = TRUE] ELSE st
  ELSE IF RIdx(names, c.before) # 0
       THEN [st EXCEPT !.cs[RIdx(names, c.before)].after = c.name]   \* overwrites whatever was there
  ELSE st

AfterPart(i, st) ==
  LET c == st.cs[i]  names == NamesOf(st.cs)  so == st.sorted IN
  IF c.after = "" THEN st
  ELSE IF c.after = "*" /\ Len(so) > 0
       THEN IF RIdx(so, c.name) = 0 THEN [st EXCEPT !.sorted = Append(so, c.name)] ELSE st
  ELSE IF RIdx(so, c.after) # 0
       THEN LET si == RIdx(so, c.after)  ci == RIdx(so, c.name) IN
            IF ci = 0 THEN [st EXCEPT !.sorted = Append(so, c.name)]
            ELSE IF ci < si THEN [st EXCEPT !.err = TRUE] ELSE st
  ELSE IF RIdx(names, c.after) # 0
       THEN LET idx == RIdx(names, c.after)
                st1 == IF st.cs[idx].before = "" THEN [st EXCEPT !.cs[idx].before = c.name] ELSE st
                st2 == SortCb(idx, st1)
            IN IF st2.err \/ st2.div THEN st2 ELSE SortCb(i, st2)
  ELSE st

SortCb(i, st) ==
  IF st.err \/ st.div THEN st
  ELSE IF st.fuel = 0 THEN [st EXCEPT !.div = TRUE]
  ELSE LET s0 == [st EXCEPT !.fuel = @ - 1]
           s1 == BeforePart(i, s0)
       IN IF s1.err \/ s1.div THEN s1
          ELSE LET s2 == AfterPart(i, s1) IN
               IF s2.err \/ s2.div THEN s2
               ELSE IF RIdx(s2.sorted, s2.cs[i].name) = 0
                    THEN [s2 EXCEPT !.sorted = Append(@, s2.cs[i].name)]
                    ELSE s2

RECURSIVE SortAll(_, _)
SortAll(i, st) == IF i > Len(st.cs) \/ st.err \/ st.div THEN st ELSE SortAll(i + 1, SortCb(i, st))

\* sortCallbacks: returns [cs (mutated, persists), err, div, order]
Sort(cs0) ==
  LET cs == StableSort(cs0)
      st == SortAll(1, [cs |-> cs, sorted |-> <<>>, err |-> FALSE, div |-> FALSE, fuel |-> Fuel])
      names == NamesOf(st.cs)
      fns == [k \in DOMAIN st.sorted |-> st.cs[RIdx(names, st.sorted[k])]]
  IN [cs |-> st.cs, err |-> st.err, div |-> st.div,
      order |-> IF st.err \/ st.div THEN <<>>
                ELSE [k \in DOMAIN SelectSeq(fns, LAMBDA c : ~c.remove) |->
                        SelectSeq(fns, LAMBDA c : ~c.remove)[k].id]]

\* processor.compile after appending the new callback object
Compile(cbs) ==
  LET removed == {cbs[i].name : i \in {j \in DOMAIN cbs : cbs[j].remove}}
      kept == IF removed = {} THEN cbs ELSE SelectSeq(cbs, LAMBDA c : c.name \notin removed)
  IN Sort(kept)

\* whole history: fold of Register/Replace/Remove calls; anyErr = some call returned an error
RECURSIVE ImplUpTo(_, _)
ImplUpTo(regs, n) ==
  IF n = 0 THEN [cs |-> <<>>, err |-> FALSE, div |-> FALSE, order |-> <<>>, anyErr |-> FALSE]
  ELSE LET p == ImplUpTo(regs, n - 1) IN
       IF p.div THEN p
       ELSE LET r == Compile(Append(p.cs, Cb(regs[n], n)))
            IN [cs |-> r.cs, err |-> r.err, div |-> r.div, order |-> r.order,
                anyErr |-> p.anyErr \/ r.err]
Impl(regs) == ImplUpTo(regs, Len(regs))
ImplRes(regs) == LET r == Impl(regs) IN [err |-> r.anyErr, order |-> r.order, div |-> r.div]

(***************************************************************************)
(* Bounded space of user histories                                         *)
(***************************************************************************)
BRefs == {BName(i) : i \in {1, (NB + 1) \div 2, NB}}
\* the k-th fresh registration is named Fresh[k] (canonical naming = symmetry reduction)
FreshCount(u) == Cardinality({i \in DOMAIN u : u[i].op = "reg"})
UserNames(u) == {u[i].name : i \in {j \in DOMAIN u : u[j].op = "reg"}}
Targets(u) == BRefs \cup {Fresh[k] : k \in 1..MaxLen} \cup {"unk", "*"}
NextOps(u) ==
  LET nm == Fresh[FreshCount(u) + 1]
      tg == Targets(u) \ {nm}
  IN    {[op |-> "reg", name |-> nm, before |-> "", after |-> ""]}
   \cup {[op |-> "reg", name |-> nm, before |-> b, after |-> ""] : b \in tg}
   \cup {[op |-> "reg", name |-> nm, before |-> "", after |-> a] : a \in tg}
   \cup (IF Both THEN {[op |-> "reg", name |-> nm, before |-> b, after |-> a] : b \in tg, a \in tg \ {"*"}} ELSE {})
   \cup {[op |-> o, name |-> t, before |-> "", after |-> ""] :
            o \in {"rep", "rem"}, t \in (BRefs \cup UserNames(u) \cup {"unk"})}

(***************************************************************************)
(* Named deviations of the implementation (known findings, DESIGN 7).      *)
(* Each is a trigger pattern over the history; the verdict accepts a       *)
(* deviation only if, in addition, the real code behaves exactly as the    *)
(* transcription Impl predicts for that history.                           *)
(***************************************************************************)
\* F6: callback c registered Before(x) while x is not yet sorted; x carries its own After(y):
\* sorting c overwrites x.after (cs[idx].after = c.name) and x may fire before y.
F6Shape(regs) ==
  \E i, j \in DOMAIN regs :
     /\ i # j /\ regs[i].op = "reg" /\ regs[j].op = "reg"
     /\ regs[i].before = regs[j].name
     /\ regs[j].after # "" /\ regs[j].after # regs[i].name

\* F10: the constraints of the live callbacks are unsatisfiable (the precedence relation has a
\* cycle: After("y").Register("x"); After("x").Register("y"), Before("y").After("y"), a callback
\* Before a built-in and After a later one ...). The statement demands an error; sortCallbacks
\* returns some order that breaks a constraint, or recurses without bound (fatal stack overflow).
Edges(nb, regs) ==
  LET live == Live(regs)  E == Range(live)
      ByName(nm) == {f \in E : f.name = nm}
  IN    {<<e.id, f.id>> : e \in E, f \in E} \cap
        {pr \in {<<e.id, f.id>> : e \in E, f \in E} :
           \E e \in E, f \in E : /\ pr = <<e.id, f.id>> /\ e.id # f.id
              /\ \/ f \in ByName(e.before)
                 \/ e \in ByName(f.after)
                 \/ (e.before = "*" /\ f.orig <= nb /\ f.before # "*")
                 \/ (f.after = "*" /\ e.orig <= nb /\ e.after # "*")
                 \/ (e.orig <= nb /\ f.orig <= nb /\ e.orig < f.orig)}
RECURSIVE TC(_)
TC(R) == LET R2 == R \cup {<<pq[1][1], pq[2][2]>> : pq \in {x \in R \X R : x[1][2] = x[2][1]}}
         IN IF R2 = R THEN R ELSE TC(R2)
Unsat(nb, regs) == \E pr \in TC(Edges(nb, regs)) : pr[1] = pr[2]
\* every call recompiles the pipeline, so the deviation is triggered by the first unsatisfiable prefix
UnsatPrefix(nb, regs) == \E n \in nb + 1 .. Len(regs) : Unsat(nb, SubSeq(regs, 1, n))

\* F11: Replace of a callback that was registered Before("*")/After("*"): the stable pre-sort moves
\* the replacement in front of the original, so the ORIGINAL handler keeps firing and the
\* "*" position is lost.
StarReplace(regs) ==
  \E i, j \in DOMAIN regs :
     /\ i < j /\ regs[i].op = "reg" /\ regs[j].op = "rep" /\ regs[j].name = regs[i].name
     /\ (regs[i].before = "*" \/ regs[i].after = "*")

DeviationTagNB(nb, regs) ==
  IF UnsatPrefix(nb, regs) THEN "unsatisfiable_constraints_not_rejected"
  ELSE IF StarReplace(regs) THEN "replace_of_star_callback"
  ELSE IF F6Shape(regs) THEN "before_overwrites_after"
  ELSE "none"
DeviationTag(regs) == DeviationTagNB(NB, regs)

VARIABLE user
AllRegs(u) == BuiltinRegs \o u
Init == user = <<>>
Next == /\ Len(user) < MaxLen
        /\ \E r \in NextOps(user) : user' = Append(user, r)
Spec == Init /\ [][Next]_user

\* design-level statement on the transcription: valid, or a named deviation
ImplValidOrKnown ==
  LET r == ImplRes(AllRegs(user)) IN
  (~r.div /\ Valid(AllRegs(user), r)) \/ DeviationTag(AllRegs(user)) # "none"
ImplTerminates == ~ImplRes(AllRegs(user)).div
=============================================================================
