------------------------------ MODULE CondGen ------------------------------
(* Bounded chain space for direction A of C02/C08/C09: every reachable state *)
(* is one chain of flat unit descriptions over the atoms A (a=1), B (b=1),    *)
(* C (s='ab'); the 27-row grid realises all T/F/U assignments to them.        *)
(* Design-level invariants are checked on the reference semantics itself.     *)
EXTENDS Cond

CONSTANTS MaxLen,      \* chain length bound
          Mode,        \* "c02" | "c08" | "c09"
          Rich         \* TRUE: all forms / separators; FALSE: reduced vocabulary

AtomNames == {"A", "B", "C"}
AtomAst(n) == CASE n = "A" -> [k |-> "atom", col |-> "a", op |-> "eq", v |-> I(1)]
                [] n = "B" -> [k |-> "atom", col |-> "b", op |-> "eq", v |-> I(1)]
                [] n = "C" -> [k |-> "atom", col |-> "s", op |-> "eq", v |-> S("ab")]
Pairs == {<<"A", "B">>, <<"B", "C">>, <<"A", "C">>}
Third(x, y) == CHOOSE n \in AtomNames : n \notin {x, y}

\* flat unit: [conn, form, shape, x, y, sep]
F(conn, form, shape, x, y, sep) == [conn |-> conn, form |-> form, shape |-> shape, x |-> x, y |-> y, sep |-> sep]
Seps == IF Rich THEN {"sp", "tab", "nl"} ELSE {"sp"}
Shapes(conn) ==
       {F(conn, f, "atom", x, "-", "sp") : f \in (IF Rich THEN {"raw", "named", "map", "struct", "expr", "group"} ELSE {"raw", "map"}), x \in AtomNames}
  \cup {F(conn, "raw", "and", p[1], p[2], sep) : p \in Pairs, sep \in Seps}
  \cup {F(conn, "raw", "or", p[1], p[2], sep) : p \in Pairs, sep \in Seps}
  \cup {F(conn, f, "and", p[1], p[2], "sp") : f \in (IF Rich THEN {"map", "struct", "expr", "group", "named"} ELSE {"map", "group"}), p \in Pairs}
  \cup {F(conn, f, "or", p[1], p[2], "sp") : f \in (IF Rich THEN {"expr", "group", "named"} ELSE {"expr", "group"}), p \in Pairs}
  \cup {F(conn, f, "not", x, "-", "sp") : f \in (IF Rich THEN {"raw", "expr", "group"} ELSE {"raw"}), x \in AtomNames}
  \* a sub-builder whose only condition is one clause expression (clause.Or(x, y) / clause.And(x, y))
  \cup {F(conn, "group", sh, p[1], p[2], "sp") : sh \in {"orx", "andx"}, p \in Pairs}
  \* one call with several condition arguments: Where(db.Where(x).Or(y), clause.Eq{z})  -- (x OR y) AND z
  \cup {F(conn, "group", "args", p[1], p[2], "sp") : p \in Pairs}
EmptyShapes(conn) == {F(conn, "empty", e, "-", "-", "sp") : e \in {"str", "map", "struct", "slice"}}

Units(first) ==
  LET conns == IF first /\ Mode = "c02" THEN {"W", "N"} ELSE {"W", "N", "O"} IN
  IF Mode = "c09"
  THEN UNION {EmptyShapes(c) : c \in conns} \cup {F(c, "raw", "atom", "A", "-", "sp") : c \in conns} \cup {F(c, "map", "and", "A", "B", "sp") : c \in conns}
       \cup {F("W", "empty", e, "-", "-", "inl") : e \in {"str", "map", "struct", "slice"}}     \* empty inline condition handed to Delete
  ELSE UNION {Shapes(c) : c \in conns}

\* flat -> unit of Cond
UnitOf(f) ==
  IF f.form = "empty" THEN [conn |-> f.conn, form |-> "empty", ast |-> [k |-> "none"], sub |-> <<>>]
  ELSE IF f.form = "group" THEN
    [conn |-> f.conn, form |-> "group", ast |-> [k |-> "none"],
     sub |-> CASE f.shape = "atom" -> <<[conn |-> "W", form |-> "raw", ast |-> AtomAst(f.x), sub |-> <<>>]>>
               [] f.shape = "and" -> <<[conn |-> "W", form |-> "raw", ast |-> AtomAst(f.x), sub |-> <<>>],
                                       [conn |-> "W", form |-> "map", ast |-> AtomAst(f.y), sub |-> <<>>]>>
               [] f.shape = "or"  -> <<[conn |-> "W", form |-> "raw", ast |-> AtomAst(f.x), sub |-> <<>>],
                                       [conn |-> "O", form |-> "raw", ast |-> AtomAst(f.y), sub |-> <<>>]>>
               [] f.shape = "orx" -> <<[conn |-> "W", form |-> "expr", ast |-> [k |-> "or", xs |-> <<AtomAst(f.x), AtomAst(f.y)>>], sub |-> <<>>]>>
               [] f.shape = "andx" -> <<[conn |-> "W", form |-> "expr", ast |-> [k |-> "and", xs |-> <<AtomAst(f.x), AtomAst(f.y)>>], sub |-> <<>>]>>
               [] f.shape = "args" -> <<[conn |-> "W", form |-> "group", ast |-> [k |-> "none"],
                                         sub |-> <<[conn |-> "W", form |-> "raw", ast |-> AtomAst(f.x), sub |-> <<>>],
                                                   [conn |-> "O", form |-> "raw", ast |-> AtomAst(f.y), sub |-> <<>>]>>],
                                        [conn |-> "W", form |-> "expr", ast |-> AtomAst(Third(f.x, f.y)), sub |-> <<>>]>>
               [] f.shape = "not" -> <<[conn |-> "N", form |-> "raw", ast |-> AtomAst(f.x), sub |-> <<>>]>>]
  ELSE [conn |-> f.conn, form |-> f.form, sub |-> <<>>,
        ast |-> CASE f.shape = "atom" -> AtomAst(f.x)
                  [] f.shape = "and" -> [k |-> "and", xs |-> <<AtomAst(f.x), AtomAst(f.y)>>]
                  [] f.shape = "or"  -> [k |-> "or", xs |-> <<AtomAst(f.x), AtomAst(f.y)>>]
                  [] f.shape = "not" -> [k |-> "not", x |-> AtomAst(f.x)]]
ChainOf(fs) == [i \in DOMAIN fs |-> UnitOf(fs[i])]

\* the 27-row grid (+ soft-deleted twins)
Vals(col) == IF col = "s" THEN <<S("ab"), S("b"), Null>> ELSE <<I(1), I(2), Null>>
Grid == [n \in 1..54 |->
          LET k == (n - 1) % 27 IN
          [id |-> I(n), a |-> Vals("a")[(k \div 9) + 1], b |-> Vals("b")[((k \div 3) % 3) + 1],
           s |-> Vals("s")[(k % 3) + 1], del |-> (n > 27)]]

VARIABLE chain
Init == chain = <<>>
Next == /\ Len(chain) < MaxLen
        /\ \E u \in Units(Len(chain) = 0) : chain' = Append(chain, u)
Spec == Init /\ [][Next]_chain

\* ---- design-level invariants of the reference semantics ------------------------------------
C == ChainOf(chain)
\* soft-delete scope: never a marked row; Unscoped sees at least what the scoped chain sees
NoLeak == Sel(C, Grid, TRUE, FALSE) \subseteq Live(Grid)
UnscopedSees == Sel(C, Grid, TRUE, FALSE) \subseteq Sel(C, Grid, TRUE, TRUE)
\* twins: a marked twin is selected by the unscoped chain iff its live original is
TwinsAgree == \A i \in 1..27 : (i \in SelAll(C, Grid)) = ((i + 27) \in SelAll(C, Grid))
\* a chain of only empty units selects everything (that is what the C09 guard protects)
EmptySelectsAll == NEffective(C) = 0 => SelAll(C, Grid) = DOMAIN Grid
\* appending a Where unit can only narrow the last AND-run
WhereNarrows == \A f \in {F("W", "raw", "atom", x, "-", "sp") : x \in AtomNames} :
                   SelAll(ChainOf(Append(chain, f)), Grid) \subseteq SelAll(C, Grid)
\* appending an Or unit can only widen
OrWidens == NEffective(C) > 0 =>
            \A f \in {F("O", "raw", "atom", x, "-", "sp") : x \in AtomNames} :
                   SelAll(C, Grid) \subseteq SelAll(ChainOf(Append(chain, f)), Grid)
=============================================================================
