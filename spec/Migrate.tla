------------------------------ MODULE Migrate ------------------------------
(***************************************************************************)
(* C20 -- AutoMigrate is idempotent and never loses data.                  *)
(* A database schema is a set of elements: <<"col", name>>, <<"idx", n>>,  *)
(* <<"chk", n>>.  AutoMigrate(model) issues one DDL event per element the  *)
(* model wants and the database lacks; nothing else, never a drop, alter   *)
(* or table rebuild.  Rows and cells are untouched by every such event.    *)
(***************************************************************************)
EXTENDS Integers, Sequences, FiniteSets, TLC

\* ---- reference reconciler -----------------------------------------------------------------
Missing(want, have) == want \ have
\* the DDL an AutoMigrate of `want` may issue on a database holding `have`
AllowedDDL(want, have) ==
  {[kind |-> (IF x[1] = "col" THEN "add_column" ELSE IF x[1] = "idx" THEN "create_index" ELSE "create_constraint"), object |-> x[2]]
      : x \in Missing(want, have)}

CONSTANTS Elems            \* finite universe of schema elements for the exploration
VARIABLES have, rows, hist
Init == have = {} /\ rows = {} /\ hist = <<>>
MigrateTo(want) ==
  /\ have' = have \cup want                      \* every missing element is added, nothing removed
  /\ rows' = rows                                \* data untouched
  /\ hist' = Append(hist, [want |-> want, ddl |-> AllowedDDL(want, have)])
Insert == /\ Cardinality(rows) < 2 /\ rows' = rows \cup {[id |-> Cardinality(rows) + 1, cols |-> {x \in have : x[1] = "col"}]}
          /\ UNCHANGED <<have, hist>>
Next == \/ (Len(hist) < 3 /\ \E want \in SUBSET Elems : MigrateTo(want))
        \/ Insert
Spec == Init /\ [][Next]_<<have, rows, hist>>

\* running AutoMigrate on a database that already matches issues nothing
Idempotent == \A i \in DOMAIN hist : (i > 1 /\ hist[i].want \subseteq hist[i - 1].want) => hist[i].ddl = {}
\* after additions only what is missing is added
Additive == \A i \in DOMAIN hist : \A d \in hist[i].ddl : d.kind \in {"add_column", "create_index", "create_constraint"}
\* nothing is ever lost
Monotone == \A i \in DOMAIN hist : hist[i].want \subseteq have
RowsKeepColumns == \A r \in rows : r.cols \subseteq have

\* ---- direction A: a history of the state graph run on a real table ---------------------------
\* steps[i] = [want, have, nddl, err, rows, rows_after]: what the i-th AutoMigrate wanted, the elements the
\* database really has afterwards, the number of DDL statements it issued, the rows stored then, and the
\* rows after the driver inserted one more
Pairs2(s) == {<<s[i][1], s[i][2]>> : i \in DOMAIN s}
WantOf(st) == Pairs2(st.want) \cup {<<"tbl", "t">>}                  \* every model wants its table
HistStepOK(prevHave, prevRows, st) ==
  /\ st.err = "nil"
  /\ LET have2 == Pairs2(st.have)
         \* the property speaks of models that only grow: when the model still declares every index / constraint
         \* the database has, exactly the missing elements are added and nothing is removed; a model that no
         \* longer declares one may lose it when the SQLite dialector rebuilds the table (observation O11) --
         \* then only: nothing wanted is missing, no column is lost, nothing undeclared appears
         grown == {x \in prevHave : x[1] # "col"} \subseteq WantOf(st)
     IN IF grown THEN have2 = prevHave \cup WantOf(st)
        ELSE /\ WantOf(st) \subseteq have2 /\ {x \in prevHave : x[1] = "col"} \subseteq have2
             /\ have2 \subseteq prevHave \cup WantOf(st)
  /\ (WantOf(st) \subseteq prevHave => st.nddl = 0)                  \* nothing to do: no DDL at all
  /\ Len(st.rows) = Len(prevRows)                                    \* no row lost or invented
  /\ \A i \in DOMAIN prevRows : \A c \in DOMAIN prevRows[i] : st.rows[i][c] = prevRows[i][c]   \* every cell a row had is kept
RECURSIVE HistFrom(_, _, _, _)
\* index of the first step the reference rejects (0 = none)
HistFrom(steps, i, prevHave, prevRows) ==
  IF i > Len(steps) THEN 0
  ELSE IF ~HistStepOK(prevHave, prevRows, steps[i]) THEN i
  ELSE HistFrom(steps, i + 1, Pairs2(steps[i].have), steps[i].rows_after)
HistOK(e) == HistFrom(e.steps, 1, {}, <<>>)

\* ---- judgement of a recorded history --------------------------------------------------------
SeqToSet(s) == {s[i] : i \in DOMAIN s}
StepOf(e, name) == e.steps[CHOOSE i \in DOMAIN e.steps : e.steps[i].step = name]
AddedCols(e) == {e.added[i].col : i \in DOMAIN e.added}
NoSchemaChange(st) == st.err = "nil" /\ st.ddl = <<>>
\* migrate(v2): add_column for added fields, create_index for added indexes; no table rebuild, drop, alter, DML
\* SQLite can add a CHECK constraint only by rebuilding the table (create temp, copy, drop, rename,
\* re-create indexes): that is the dialect's way of "adding what is missing" and is admitted for
\* added fields that carry a check constraint; the data rule below still applies.
HasCheck(f) == \E i \in DOMAIN f.tags : Len(f.tags[i]) >= 6 /\ SubSeq(f.tags[i], 1, 6) = "check:"
\* (the same holds for a foreign key constraint an added relation brings, unless constraints are disabled)
\* (... and for a unique constraint the second version adds to an existing column)
RebuildAllowed(e) == (\E i \in DOMAIN e.added : HasCheck(e.added[i])) \/ e.fk \/ e.added_unique_on # ""
RelTables(e) == {e.reltables[i] : i \in DOMAIN e.reltables}
OnlyAdditions(e, st) ==
  /\ st.err = "nil"
  /\ \A i \in DOMAIN st.ddl :
        \/ (st.ddl[i].kind = "add_column" /\ st.ddl[i].object \in AddedCols(e))
        \/ st.ddl[i].kind = "create_index"
        \/ (st.ddl[i].kind = "create_table" /\ st.ddl[i].object \in RelTables(e))     \* tables the added relations refer to
        \/ (RebuildAllowed(e) /\ st.ddl[i].kind \in {"create_table", "dml", "drop", "alter_table"})
  /\ \A c \in AddedCols(e) : \E i \in DOMAIN st.ddl : st.ddl[i].kind = "add_column" /\ st.ddl[i].object = c
DataKept(e) == /\ StepOf(e, "m1again").dump = StepOf(e, "insert").dump
               /\ StepOf(e, "m2").dump = StepOf(e, "insert").dump
               /\ StepOf(e, "m2again").dump = StepOf(e, "insert").dump
               /\ Len(StepOf(e, "insert").dump) = 3
\* the named (composite) indexes of the model exist with the uniqueness and the partial condition their
\* members declare, whichever member declares them
\* ... and every column the model declares unique is unique in the final schema
ShapeOK(e) == /\ \A i \in DOMAIN e.want_indexes : \E j \in DOMAIN e.final_indexes : e.final_indexes[j] = e.want_indexes[i]
              /\ Len(e.final_indexes) = Len(e.want_indexes)
              /\ \A i \in DOMAIN e.want_unique : \E j \in DOMAIN e.final_unique : e.final_unique[j] = e.want_unique[i]
HistoryOK(e) ==
  [shape  |-> ShapeOK(e),
   setup  |-> StepOf(e, "m1").err = "nil" /\ StepOf(e, "insert").err = "nil",
   idem   |-> NoSchemaChange(StepOf(e, "m1again")) /\ NoSchemaChange(StepOf(e, "m2again")),
   add    |-> OnlyAdditions(e, StepOf(e, "m2")),
   data   |-> DataKept(e),
   accept |-> e.accept = "nil"]
=============================================================================
