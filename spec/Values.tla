------------------------------- MODULE Values -------------------------------
(* Tagged cells, SQL NULL, three-valued logic -- shared by every data spec.   *)
(* A cell is [t |-> "n"] (NULL), [t |-> "i", v |-> Int], [t |-> "s", v |-> STRING],
   [t |-> "b", v |-> BOOLEAN] or an opaque token [t |-> "o", v |-> STRING].      *)
EXTENDS Integers, Sequences, FiniteSets

Null == [t |-> "n"]
IsNull(c) == c.t = "n"
I(n) == [t |-> "i", v |-> n]
S(x) == [t |-> "s", v |-> x]

And3(a, b) == IF a = "F" \/ b = "F" THEN "F" ELSE IF a = "T" /\ b = "T" THEN "T" ELSE "U"
Or3(a, b)  == IF a = "T" \/ b = "T" THEN "T" ELSE IF a = "F" /\ b = "F" THEN "F" ELSE "U"
Not3(a)    == CASE a = "T" -> "F" [] a = "F" -> "T" [] OTHER -> "U"
B3(b)      == IF b THEN "T" ELSE "F"

\* conjunction / disjunction of a set of truth values
AndSet(vs) == IF "F" \in vs THEN "F" ELSE IF "U" \in vs THEN "U" ELSE "T"
OrSet(vs)  == IF "T" \in vs THEN "T" ELSE IF "U" \in vs THEN "U" ELSE "F"

SeqRange(s) == {s[i] : i \in DOMAIN s}

\* LIKE on a fixed lower-case vocabulary (TLA+ has no substring operators); the harness
\* self-test cross-checks this table against SQLite.
LikeStrings  == {"ab", "abc", "b", "a_b", "ba"}
LikePatterns == {"a%", "%b", "a_b", "%"}
LikeTrue == {<<"ab", "a%">>, <<"abc", "a%">>, <<"a_b", "a%">>,
             <<"ab", "%b">>, <<"b", "%b">>, <<"a_b", "%b">>,
             <<"a_b", "a_b">>,
             <<"ab", "%">>, <<"abc", "%">>, <<"b", "%">>, <<"a_b", "%">>, <<"ba", "%">>}

\* comparison of a cell with a non-NULL literal cell of the same tag
Cmp(c, op, lit) ==
  IF IsNull(c) \/ IsNull(lit) THEN "U"
  ELSE IF c.t # lit.t THEN "F"
  ELSE CASE op = "eq" -> B3(c.v = lit.v)
         [] op = "ne" -> B3(c.v # lit.v)
         [] op = "lt" -> IF c.t = "i" THEN B3(c.v < lit.v) ELSE "F"
         [] op = "gt" -> IF c.t = "i" THEN B3(c.v > lit.v) ELSE "F"
         [] op = "like" -> B3(<<c.v, lit.v>> \in LikeTrue)
         [] OTHER -> "F"
=============================================================================
