------------------------------ MODULE Handles ------------------------------
(***************************************************************************)
(* C06 -- reusable handles are never changed by the chains and queries     *)
(* derived from them.                                                      *)
(* Reference: a handle IS its path -- the sequence of chain calls since    *)
(* Open.  Reusable handles (Open, Session, WithContext, Debug) may start   *)
(* any number of chains; a chain value is continued or finished once.      *)
(* History operations (flat records):                                      *)
(*   [op |-> "derive", from |-> h, to |-> c, m |-> method]   c := h.m(..)  *)
(*   [op |-> "extend", from |-> c, to |-> c2, m |-> method]  c2 := c.m(..) *)
(*   [op |-> "session", from |-> x, to |-> h2, m |-> how]    h2 := x.how() *)
(*        (x a chain value, used up, or a reusable handle, which stays)    *)
(*   [op |-> "finish", from |-> x, to |-> 0, m |-> finisher]               *)
(* What a finisher shows depends on its own path only.                     *)
(***************************************************************************)
EXTENDS Integers, Sequences, FiniteSets, TLC

CONSTANTS Methods, Hows, Finishers, MaxOps, MaxHandles

\* st: [path: id -> sequence of [m, n] (n = global call number, makes arguments unique), kind: id -> reusable|chain|dead, next id, ncalls]
InitSt == [path |-> (1 :> <<>>), kind |-> (1 :> "reusable"), next |-> 2, calls |-> 0]

Step(st, a) ==
  CASE a.op \in {"derive", "extend"} ->
         [path |-> (a.to :> Append(st.path[a.from], [m |-> a.m, n |-> st.calls + 1])) @@ st.path,
          kind |-> (a.to :> "chain") @@ (IF a.op = "extend" THEN [st.kind EXCEPT ![a.from] = "dead"] ELSE st.kind),
          next |-> st.next + 1, calls |-> st.calls + 1]
    [] a.op = "session" ->
         [path |-> (a.to :> Append(st.path[a.from], [m |-> a.m, n |-> a.to])) @@ st.path,   \* n: the session's own argument (context value)
          \* a chain value is used up; a reusable handle stays usable next to the handle derived from it
          kind |-> (a.to :> "reusable") @@ (IF st.kind[a.from] = "chain" THEN [st.kind EXCEPT ![a.from] = "dead"] ELSE st.kind),
          next |-> st.next + 1, calls |-> st.calls]
    [] OTHER -> \* finish
         [st EXCEPT !.kind = IF st.kind[a.from] = "chain" THEN [st.kind EXCEPT ![a.from] = "dead"] ELSE st.kind]

Ids(st) == DOMAIN st.kind
Reusable(st) == {i \in Ids(st) : st.kind[i] = "reusable"}
Chains(st) == {i \in Ids(st) : st.kind[i] = "chain"}
Enabled(st) ==
     {[op |-> "derive", from |-> h, to |-> st.next, m |-> m] : h \in Reusable(st), m \in Methods}
\cup {[op |-> "extend", from |-> c, to |-> st.next, m |-> m] : c \in Chains(st), m \in Methods}
\cup {[op |-> "session", from |-> c, to |-> st.next, m |-> w] : c \in {x \in Chains(st) \cup Reusable(st) : Cardinality(Reusable(st)) < MaxHandles}, w \in Hows}
\cup {[op |-> "finish", from |-> x, to |-> 0, m |-> f] : x \in Reusable(st) \cup Chains(st), f \in Finishers}

VARIABLES st, hist
Init == st = InitSt /\ hist = <<>>
Next == Len(hist) < MaxOps /\ \E a \in Enabled(st) : st' = Step(st, a) /\ hist' = Append(hist, a)
Spec == Init /\ [][Next]_<<st, hist>>

\* the path of a value never changes once it exists (copy-on-derive as a property of the reference)
PathsStable == \A i \in Ids(st) : i # 1 => Len(st.path[i]) >= 1
\* a derived value extends its source's path by exactly one call
PrefixClosed == \A i \in Ids(st) : i = 1 \/ \E j \in Ids(st) : j # i /\ st.path[i] = Append(st.path[j], st.path[i][Len(st.path[i])])
=============================================================================
