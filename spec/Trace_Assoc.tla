---------------------------- MODULE Trace_Assoc ----------------------------
(* Trace validation for eager loading: each Load event carries the raw tables  *)
(* (levels), the relation path (hops) and the tree gorm attached to the        *)
(* parents it returned; Assoc.tla recomputes the reference join.               *)
EXTENDS Assoc, Json

Trace == ndJsonDeserialize("obs.ndjson")
VARIABLES l, bad
tvars == <<l, bad, pk1, pk2, ck>>
TInit == l = 1 /\ bad = <<>> /\ pk1 = <<"a">> /\ pk2 = <<"b">> /\ ck = <<"a">>

LoadEv ==
  /\ l <= Len(Trace) /\ Trace[l].ev = "Load"
  /\ LET e == Trace[l]
         ok == e.err = "nil" /\ LoadOK(e)
         cnt == e.op # "find" \/ CountOK(e)
         scope == NoDeadVisible(e)
     IN bad' = IF ok /\ cnt /\ scope THEN bad
               ELSE Append(bad, [i |-> l, case |-> e.case, load |-> ok, count |-> cnt, scope |-> scope])
  /\ l' = l + 1 /\ UNCHANGED <<pk1, pk2, ck>>

Finish ==
  /\ l = Len(Trace) + 1
  /\ ndJsonSerialize("verdict.ndjson", <<[n |-> Len(Trace), bad |-> bad]>>)
  /\ l' = l + 1 /\ UNCHANGED <<bad, pk1, pk2, ck>>
TraceSpec == TInit /\ [][LoadEv \/ Finish]_tvars
=============================================================================
