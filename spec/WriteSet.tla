------------------------------ MODULE WriteSet ------------------------------
(***************************************************************************)
(* C10 -- a write touches only permitted, selected columns of exactly the  *)
(* targeted rows.                                                          *)
(* A model is a sequence of fields [name, perm, auto, key]:                *)
(*   perm : rw | create (<-:create) | update (<-:update) | none (<-:false) *)
(*          | ro (->) | ignore (-)                                         *)
(*   auto : tracked update-time field (autoUpdateTime)                     *)
(* A write is [op, pay, sel, star, omit]:                                  *)
(*   op   : updates_struct updates_map update ucols_struct ucols_map ucol  *)
(*          save create create_map upsert                                  *)
(*   pay  : sequence of [f, zero] -- the fields the payload carries        *)
(*          (a struct payload carries every field, zero or not)            *)
(*   sel / omit : sets of field names, star : Select("*")                  *)
(* Written(m, w) is the set of fields whose column the statement writes.   *)
(***************************************************************************)
EXTENDS Integers, Sequences, FiniteSets, TLC

ToSet(s) == {s[i] : i \in DOMAIN s}
Creatable(f) == f.perm \in {"rw", "create"}
Updatable(f) == f.perm \in {"rw", "update"}
HasCol(f) == f.perm # "ignore"
Hooks(w) == w.op \notin {"ucols_struct", "ucols_map", "ucol"}       \* the column-update methods run no hooks
StructPay(w) == w.op \in {"updates_struct", "ucols_struct", "save", "create", "create_slice", "upsert"}
InPay(w, f) == \E i \in DOMAIN w.pay : w.pay[i].f = f.name
ZeroIn(w, f) == \E i \in DOMAIN w.pay : w.pay[i].f = f.name /\ w.pay[i].zero
Restricted(w) == w.sel # {} /\ ~w.star
Sel(w, f) == f.name \in w.sel \/ w.star
Omit(w, f) == f.name \in w.omit

WrittenOnUpdate(w, f) ==
  /\ HasCol(f) /\ Updatable(f) /\ ~Omit(w, f)
  /\ CASE w.op = "save" ->
            \* Save writes all fields (Select("*") unless the caller selected), never the key
            ~f.key /\ (IF w.sel = {} THEN TRUE ELSE (Sel(w, f) \/ (f.auto /\ Hooks(w))))
       [] w.op \in {"updates_struct", "ucols_struct"} ->
            \/ (Sel(w, f) /\ (~f.key \/ w.star))                         \* selected: written zero or not
            \/ (~Restricted(w) /\ ~ZeroIn(w, f) /\ ~f.key)               \* otherwise the non-zero fields
            \/ (f.auto /\ Hooks(w))                                      \* tracked update time, unless omitted
       [] OTHER ->                                                       \* map payloads, Update, UpdateColumn(s) map
            \/ (InPay(w, f) /\ (Sel(w, f) \/ ~Restricted(w)))
            \/ (f.auto /\ Hooks(w) /\ ~InPay(w, f))
\* value written to a tracked update-time column: "now" whenever hooks run and the payload does not give it explicitly
AutoNow(w, f) == f.auto /\ Hooks(w) /\ (StructPay(w) \/ ~InPay(w, f))

InsertedCol(w, f) ==
  /\ HasCol(f) /\ Creatable(f) /\ ~Omit(w, f)
  /\ IF w.op \in {"create_map", "create_maps"} THEN InPay(w, f) /\ (Sel(w, f) \/ ~Restricted(w))
     ELSE /\ (Sel(w, f) \/ ~Restricted(w) \/ f.auto)
          /\ (~f.key \/ ~ZeroIn(w, f))          \* zero key = auto-increment
\* in a NEW row a zero value of a field with a literal default shows the default (written or not, the
\* cell holds the default): it counts as not written
WrittenOnCreate(w, f) == InsertedCol(w, f) /\ (w.op \in {"create_map", "create_maps"} \/ ~f.dflt \/ ~ZeroIn(w, f))

\* upsert (OnConflict UpdateAll) on an existing row: the inserted columns that may also be updated
\* (a zero value of a field with a literal default is inserted as that default and therefore also
\* overwrites the existing row's value)
\* a field whose default is a database expression is never part of UpdateAll
\* the update part honours the selection: a tracked time outside a restricting Select is inserted into a
\* new row but not refreshed on conflict (the property leaves that case open: UpsertOpen)
WrittenOnUpsert(w, f) == InsertedCol(w, f) /\ Updatable(f) /\ ~f.key /\ ~f.dbd /\ (Sel(w, f) \/ ~Restricted(w))
UpsertOpen(w, f) == f.auto /\ InsertedCol(w, f) /\ Updatable(f) /\ ~f.key /\ ~f.dbd /\ Restricted(w) /\ ~Sel(w, f)

Written(m, w) ==
  {m[i].name : i \in {j \in DOMAIN m :
      CASE w.op \in {"create", "create_map", "create_maps", "create_slice"} -> WrittenOnCreate(w, m[j])
        [] w.op = "upsert" -> WrittenOnUpsert(w, m[j])
        [] OTHER -> WrittenOnUpdate(w, m[j])}}

\* fields whose writing the property does not decide
Open(m, w) == {m[i].name : i \in {j \in DOMAIN m : w.op = "upsert" /\ UpsertOpen(w, m[j])}}

\* ---- design-level statements, checked by TLC over all 2-field models -----------------------
CONSTANTS Perms
Model2 == {<<[name |-> "ID", perm |-> "rw", auto |-> FALSE, key |-> TRUE, dflt |-> FALSE, dbd |-> FALSE],
             [name |-> "F1", perm |-> p1, auto |-> FALSE, key |-> FALSE, dflt |-> d1, dbd |-> FALSE],
             [name |-> "F2", perm |-> p2, auto |-> a2, key |-> FALSE, dflt |-> FALSE, dbd |-> FALSE]>> : p1 \in Perms, p2 \in Perms, a2 \in BOOLEAN, d1 \in BOOLEAN}
OpsAll == {"updates_struct", "updates_map", "update", "ucols_struct", "ucols_map", "ucol", "save", "create", "create_slice", "create_map", "create_maps", "upsert"}
Pays == {<<>>, <<[f |-> "F1", zero |-> FALSE]>>, <<[f |-> "F1", zero |-> TRUE]>>,
         <<[f |-> "F1", zero |-> FALSE], [f |-> "F2", zero |-> TRUE]>>, <<[f |-> "F1", zero |-> TRUE], [f |-> "F2", zero |-> FALSE]>>}
FullPay(p) == <<[f |-> "ID", zero |-> FALSE]>> \o p \o (IF \E i \in DOMAIN p : p[i].f = "F2" THEN <<>> ELSE <<[f |-> "F2", zero |-> TRUE]>>)
                 \o (IF \E i \in DOMAIN p : p[i].f = "F1" THEN <<>> ELSE <<[f |-> "F1", zero |-> TRUE]>>)
VARIABLES m, w
Init == /\ m \in Model2
        /\ w \in {[op |-> o, pay |-> (IF o \in {"updates_struct", "ucols_struct", "save", "create", "create_slice", "upsert"} THEN FullPay(p) ELSE p),
                   sel |-> s, star |-> st, omit |-> om] :
                     o \in OpsAll, p \in Pays, s \in SUBSET {"F1", "F2"}, st \in BOOLEAN, om \in SUBSET {"F1", "F2"}}
Next == UNCHANGED <<m, w>>
Spec == Init /\ [][Next]_<<m, w>>
FieldOf(n) == m[CHOOSE i \in DOMAIN m : m[i].name = n]
\* never a column whose tag denies the path, is read-only or ignored
OnlyPermitted == \A n \in Written(m, w) :
   LET f == FieldOf(n) IN
   /\ HasCol(f) /\ f.perm # "ro" /\ f.perm # "none"
   /\ (w.op \in {"create", "create_map", "create_maps", "create_slice"} => Creatable(f))
   /\ (w.op \notin {"create", "create_map", "create_maps", "create_slice"} => Updatable(f))
\* Omit always wins
OmitWins == \A n \in Written(m, w) : n \notin w.omit
\* the column-update methods never refresh a tracked update-time field by themselves
ColumnUpdatesNoAutoTime == (~Hooks(w)) => \A n \in Written(m, w) : FieldOf(n).auto => (InPay(w, FieldOf(n)) /\ ~AutoNow(w, FieldOf(n)))
=============================================================================
