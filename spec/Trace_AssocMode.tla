-------------------------- MODULE Trace_AssocMode --------------------------
(* Trace validation for C12: one event per history (initial links, the       *)
(* operations, and after each operation the links read raw, the surviving    *)
(* targets, Count(), Find() and the in-memory relation field).               *)
EXTENDS AssocMode, Json

Trace == ndJsonDeserialize("obs.ndjson")
VARIABLES l, bad
tvars == <<l, bad, st, hist>>
TInit == l = 1 /\ bad = <<>> /\ st = InitSt /\ hist = <<>>

Pairs(s) == {<<s[i][1], s[i][2]>> : i \in DOMAIN s}
HistEv ==
  /\ l <= Len(Trace)
  /\ LET e == Trace[l]
         s0 == [links |-> Pairs(e.init.links), alive |-> ToSet(e.init.alive), next |-> e.init.next, removed |-> {}]
         k == RunFrom(s0, e.ops, 1, e.kind, e.unscoped, e.mode = "single")
     IN bad' = IF k = 0 THEN bad ELSE Append(bad, [i |-> l, case |-> e.case, at |-> k, kind |-> e.kind, unscoped |-> e.unscoped, mode |-> e.mode])
  /\ l' = l + 1 /\ UNCHANGED <<st, hist>>
Finish ==
  /\ l = Len(Trace) + 1
  /\ ndJsonSerialize("verdict.ndjson", <<[n |-> Len(Trace), bad |-> bad]>>)
  /\ l' = l + 1 /\ UNCHANGED <<bad, st, hist>>
TraceSpec == TInit /\ [][HistEv \/ Finish]_tvars
=============================================================================
