-------------------------- MODULE Trace_Converge --------------------------
(* Trace validation for C16: one event per history; after every operation the  *)
(* raw table, the record left in the caller's value and the error are compared *)
(* with the reference machine.                                                 *)
EXTENDS Converge, Json

Trace == ndJsonDeserialize("obs.ndjson")
VARIABLES l, bad
tvars == <<l, bad, st, hist>>
TInit == l = 1 /\ bad = <<>> /\ st = InitSt /\ hist = <<>>

HistEv ==
  /\ l <= Len(Trace)
  /\ LET e == Trace[l]  k == RunFrom(InitSt, e.ops, 1) IN
       bad' = IF k = 0 THEN bad ELSE Append(bad, [i |-> l, case |-> e.case, at |-> k])
  /\ l' = l + 1 /\ UNCHANGED <<st, hist>>
Finish ==
  /\ l = Len(Trace) + 1
  /\ ndJsonSerialize("verdict.ndjson", <<[n |-> Len(Trace), bad |-> bad]>>)
  /\ l' = l + 1 /\ UNCHANGED <<bad, st, hist>>
TraceSpec == TInit /\ [][HistEv \/ Finish]_tvars
=============================================================================
