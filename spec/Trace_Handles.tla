--------------------------- MODULE Trace_Handles ---------------------------
(* Trace validation for C06: one event per history.  The history's operations *)
(* are re-run on the reference (paths); every finisher observation must equal  *)
(* the observation of the same path replayed alone on a fresh gorm.Open.       *)
EXTENDS Handles, Json

Trace == ndJsonDeserialize("obs.ndjson")
VARIABLES l, bad
tvars == <<l, bad, st, hist>>
TInit == l = 1 /\ bad = <<>> /\ st = InitSt /\ hist = <<>>

RECURSIVE Check(_, _, _)
\* returns the index of the first finisher whose observation differs from its isolated replay
\* (or whose reported path is not the reference path), 0 if none
Check(s, ops, i) ==
  IF i > Len(ops) THEN 0
  ELSE LET a == ops[i] IN
       IF a.op = "finish"
       THEN IF a.path # s.path[a.from] \/ a.obs # a.iso THEN i ELSE Check(Step(s, a), ops, i + 1)
       ELSE Check(Step(s, a), ops, i + 1)

HistEv ==
  /\ l <= Len(Trace)
  /\ LET e == Trace[l]  k == Check(InitSt, e.ops, 1) IN
       bad' = IF k = 0 THEN bad ELSE Append(bad, [i |-> l, case |-> e.case, at |-> k])
  /\ l' = l + 1 /\ UNCHANGED <<st, hist>>
Finish ==
  /\ l = Len(Trace) + 1
  /\ ndJsonSerialize("verdict.ndjson", <<[n |-> Len(Trace), bad |-> bad]>>)
  /\ l' = l + 1 /\ UNCHANGED <<bad, st, hist>>
TraceSpec == TInit /\ [][HistEv \/ Finish]_tvars
=============================================================================
