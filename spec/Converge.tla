------------------------------ MODULE Converge ------------------------------
(***************************************************************************)
(* C16 -- Save, upsert and FirstOrCreate/FirstOrInit converge to the       *)
(* documented state.                                                       *)
(* Table: id -> [a, b, del].  Operations (flat records):                   *)
(*   [op |-> "save",   id, a, b, omit]               id 0 = new record     *)
(*        omit: Omit("B") precedes Save -- b keeps its stored value (0 in  *)
(*        a new row), everything else as without it                        *)
(*   [op |-> "upsert", id, a, b, rule]   rule in nothing all ca cb cab     *)
(*   [op |-> "foi" | "foc", ca, attr, asg]                                 *)
(*        condition a = ca ; Attrs b = attr (0 = none); Assign b = asg     *)
(*        attra # 0: Attrs also names a -- on a miss the Attrs value, not  *)
(*        the condition's, initialises the record (both finishers)         *)
(*   [op |-> "savec", k1, k2, a, b]   Save on a second table with the      *)
(*        composite key (k1, k2); a zero part is an ordinary key value     *)
(*   [op |-> "upsertu", k1, k2, u, a, b]  Create with ON CONFLICT (u)      *)
(*        UpdateAll on that table (u: a unique column that is not the      *)
(*        key): a row with the same u takes the new a, b and KEEPS its key *)
(* The position of Session / WithContext calls in the chain (field sess)   *)
(* has no meaning in the reference: that is the property.                  *)
(***************************************************************************)
EXTENDS Integers, Sequences, FiniteSets, TLC

Live(t) == {i \in DOMAIN t : ~t[i].del}
MaxId(t) == IF DOMAIN t = {} THEN 0 ELSE CHOOSE i \in DOMAIN t : \A j \in DOMAIN t : j <= i
Min(S) == CHOOSE x \in S : \A y \in S : x <= y
Put(t, id, r) == [i \in DOMAIN t \cup {id} |-> IF i = id THEN r ELSE t[i]]

\* st = [t |-> table, next |-> key of the next generated row]
\* result: [ret |-> record returned / left in the caller's value, wrote |-> set of ids written]
Step0(st, o) ==
  CASE o.op = "save" ->
         LET id == IF o.id = 0 THEN st.next ELSE o.id
             b2 == IF ~o.omit THEN o.b ELSE IF id \in DOMAIN st.t THEN st.t[id].b ELSE 0 IN
         [t |-> Put(st.t, id, [a |-> o.a, b |-> b2, del |-> FALSE]),        \* the full value, whether or not the key existed
          next |-> IF id >= st.next THEN id + 1 ELSE st.next,
          ret |-> [id |-> id, a |-> o.a, b |-> o.b], wrote |-> {id}]
    [] o.op = "upsert" ->
         IF o.id \notin DOMAIN st.t
         THEN [t |-> Put(st.t, o.id, [a |-> o.a, b |-> o.b, del |-> FALSE]),
               next |-> IF o.id >= st.next THEN o.id + 1 ELSE st.next,
               ret |-> [id |-> o.id, a |-> o.a, b |-> o.b], wrote |-> {o.id}]
         ELSE LET old == st.t[o.id]
                  new == CASE o.rule = "nothing" -> old
                           [] o.rule = "all" -> [a |-> o.a, b |-> o.b, del |-> FALSE]
                           [] o.rule = "ca"  -> [old EXCEPT !.a = o.a]
                           [] o.rule = "cb"  -> [old EXCEPT !.b = o.b]
                           [] OTHER          -> [old EXCEPT !.a = o.a, !.b = o.b]
              IN [t |-> Put(st.t, o.id, new), next |-> st.next,
                  ret |-> [id |-> o.id, a |-> o.a, b |-> o.b], wrote |-> IF new = old THEN {} ELSE {o.id}]
    [] OTHER ->  \* foi / foc
         LET m == {i \in Live(st.t) : st.t[i].a = o.ca} IN
         IF m # {}
         THEN LET id == Min(m)  r == st.t[id]
                  b2 == IF o.asg # 0 THEN o.asg ELSE r.b
              IN [t |-> IF o.op = "foc" /\ o.asg # 0 THEN Put(st.t, id, [r EXCEPT !.b = o.asg]) ELSE st.t,
                  next |-> st.next,
                  ret |-> [id |-> id, a |-> r.a, b |-> b2],
                  wrote |-> IF o.op = "foc" /\ o.asg # 0 /\ o.asg # r.b THEN {id} ELSE {}]
         ELSE LET b2 == IF o.asg # 0 THEN o.asg ELSE o.attr
                  a2 == IF o.attra # 0 THEN o.attra ELSE o.ca IN
              IF o.op = "foi"
              THEN [t |-> st.t, next |-> st.next, ret |-> [id |-> 0, a |-> a2, b |-> b2], wrote |-> {}]
              ELSE [t |-> Put(st.t, st.next, [a |-> a2, b |-> b2, del |-> FALSE]), next |-> st.next + 1,
                    ret |-> [id |-> st.next, a |-> a2, b |-> b2], wrote |-> {st.next}]

\* st.c: the composite-key table, <<k1, k2>> -> [a, b, u]   (u unique; Save sets u = 10 * k1 + k2)
Step(st, o) ==
  IF o.op = "savec"
  THEN [t |-> st.t, next |-> st.next,
        c |-> [k \in DOMAIN st.c \cup {<<o.k1, o.k2>>} |-> IF k = <<o.k1, o.k2>> THEN [a |-> o.a, b |-> o.b, u |-> 10 * o.k1 + o.k2] ELSE st.c[k]],
        ret |-> [id |-> 0, a |-> o.a, b |-> o.b], wrote |-> {}]
  ELSE IF o.op = "upsertu"
  THEN LET hit == {k \in DOMAIN st.c : st.c[k].u = o.u} IN
       [t |-> st.t, next |-> st.next,
        c |-> IF hit # {}
              THEN [k \in DOMAIN st.c |-> IF k \in hit THEN [st.c[k] EXCEPT !.a = o.a, !.b = o.b] ELSE st.c[k]]
              ELSE [k \in DOMAIN st.c \cup {<<o.k1, o.k2>>} |-> IF k = <<o.k1, o.k2>> THEN [a |-> o.a, b |-> o.b, u |-> o.u] ELSE st.c[k]],
        ret |-> [id |-> 0, a |-> o.a, b |-> o.b], wrote |-> {}]
  ELSE Step0(st, o) @@ [c |-> st.c]
Strip(s2) == [t |-> s2.t, next |-> s2.next, c |-> s2.c]

ObsOK(s2, o, obs) ==
  /\ obs.err = "nil"
  /\ \A key \in DOMAIN s2.c : \E k \in DOMAIN obs.ctable :
        obs.ctable[k].k1 = key[1] /\ obs.ctable[k].k2 = key[2] /\ obs.ctable[k].a = s2.c[key].a /\ obs.ctable[k].b = s2.c[key].b /\ obs.ctable[k].u = s2.c[key].u
  /\ Len(obs.ctable) = Cardinality(DOMAIN s2.c)
  /\ \A i \in DOMAIN s2.t : \E k \in DOMAIN obs.table :
        obs.table[k].id = i /\ obs.table[k].a = s2.t[i].a /\ obs.table[k].b = s2.t[i].b /\ obs.table[k].del = s2.t[i].del
  /\ Len(obs.table) = Cardinality(DOMAIN s2.t)
  /\ obs.ret.id = s2.ret.id /\ obs.ret.a = s2.ret.a /\ obs.ret.b = s2.ret.b

RECURSIVE RunFrom(_, _, _)
RunFrom(st, ops, i) ==
  IF i > Len(ops) THEN 0
  ELSE LET s2 == Step(st, ops[i]) IN
       IF ~ObsOK(s2, ops[i], ops[i].obs) THEN i ELSE RunFrom(Strip(s2), ops, i + 1)

(***************************************************************************)
(* Bounded exploration with design-level statements.                       *)
(***************************************************************************)
CONSTANTS MaxOps, Vals
InitT == (1 :> [a |-> 1, b |-> 1, del |-> FALSE]) @@ (2 :> [a |-> 2, b |-> 2, del |-> TRUE])
InitC == (<<1, 1>> :> [a |-> 1, b |-> 1, u |-> 11]) @@ (<<2, 1>> :> [a |-> 2, b |-> 2, u |-> 21])
InitSt == [t |-> InitT, next |-> 3, c |-> InitC]
Ops ==   {[op |-> "save", id |-> i, a |-> a, b |-> b, omit |-> om] : i \in 0..3, a \in Vals, b \in {0} \cup Vals, om \in BOOLEAN}
    \cup {[op |-> "upsert", id |-> i, a |-> a, b |-> b, rule |-> r] : i \in 1..3, a \in Vals, b \in Vals, r \in {"nothing", "all", "ca", "cb", "cab"}}
    \cup {[op |-> f, ca |-> c, attr |-> at, attra |-> aa, asg |-> as] : f \in {"foi", "foc"}, c \in Vals \cup {3}, at \in {0, 5}, aa \in {0, 2}, as \in {0, 7}}
    \cup {[op |-> "savec", k1 |-> k1, k2 |-> k2, a |-> 9, b |-> b] : k1 \in {1, 3}, k2 \in {0, 1}, b \in {0, 8}}
    \cup {[op |-> "upsertu", k1 |-> 5, k2 |-> k2, u |-> u, a |-> 9, b |-> b] : k2 \in {1, 2}, u \in {11, 99}, b \in {0, 8}}
VARIABLES st, hist
Init == st = InitSt /\ hist = <<>>
\* a key with a zero part is "no full key": Save inserts, so such a key is saved only while it is free
Admissible(o) == /\ (o.op = "savec" /\ (o.k1 = 0 \/ o.k2 = 0) => <<o.k1, o.k2>> \notin DOMAIN st.c)
                 /\ (o.op = "upsertu" => <<o.k1, o.k2>> \notin DOMAIN st.c)       \* the incoming key itself is new
Next == /\ Len(hist) < MaxOps
        /\ \E o \in Ops : Admissible(o) /\ LET s2 == Step(st, o) IN st' = Strip(s2) /\ hist' = Append(hist, o)
Spec == Init /\ [][Next]_<<st, hist>>

\* saving twice equals saving once; FirstOrInit never writes; FirstOrCreate writes at most one row
SaveIdempotent == \A o \in {x \in Ops : x.op = "save" /\ x.id # 0} :
                     LET s1 == Step(st, o) IN Step(Strip(s1), o).t = s1.t
InitNeverWrites == \A o \in {x \in Ops : x.op = "foi"} : Step(st, o).t = st.t /\ Step(st, o).wrote = {}
CreateAtMostOne == \A o \in {x \in Ops : x.op = "foc"} : Cardinality(Step(st, o).wrote) <= 1
SaveCompositeIdempotent == \A o \in {x \in Ops : x.op = "savec" /\ x.k1 # 0 /\ x.k2 # 0} :
                     LET s1 == Step(st, o) IN Step(Strip(s1), o).c = s1.c /\ s1.t = st.t
\* an upsert on a unique non-key column never changes the key of the row it hits
UpsertKeepsKeys == \A o \in {x \in Ops : x.op = "upsertu" /\ <<x.k1, x.k2>> \notin DOMAIN st.c} :
                     DOMAIN st.c \subseteq DOMAIN Step(st, o).c
DoNothingKeeps == \A o \in {x \in Ops : x.op = "upsert" /\ x.rule = "nothing"} :
                     o.id \in DOMAIN st.t => Step(st, o).t = st.t
=============================================================================
