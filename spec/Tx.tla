--------------------------------- MODULE Tx ---------------------------------
(***************************************************************************)
(* C04 -- transaction blocks, nested blocks (save points), manual          *)
(* Begin/SavePoint/RollbackTo/Commit/Rollback, with driver faults.         *)
(*                                                                         *)
(* A program is a flat pre-order sequence of actions (records):            *)
(*   [op |-> "enter",  f |-> BOOLEAN]            open a Transaction block  *)
(*         (f: the BEGIN / SAVEPOINT the block issues is refused)          *)
(*   [op |-> "write",  id |-> n, f |-> BOOLEAN]  insert row n (f: refused) *)
(*   [op |-> "read"]                             count rows inside the tx  *)
(*   [op |-> "exit",   out |-> "nil"|"err"|"panic", sw |-> BOOLEAN,        *)
(*                     f |-> BOOLEAN]                                      *)
(*         the block's function ends; sw: the PARENT swallows the error    *)
(*         this block returns (for out = "panic": the parent recovers the  *)
(*         panic and carries on); f: the COMMIT of an outermost block fails*)
(*   write.via: how the handle the write goes through was derived from the *)
(*         block's handle ("" directly, "prep" Session{PrepareStmt},       *)
(*         "sess" Session{}, "ctx" WithContext) -- no effect on the model  *)
(*   manual programs: "mbegin" "msave" "mrollto"(k) "mcommit" "mrollback"  *)
(* The state machine below is the snapshot-stack reference model; Step is  *)
(* shared by the exhaustive exploration (Next) and by trace validation     *)
(* (Run), so there is one source of truth.                                 *)
(***************************************************************************)
EXTENDS Integers, Sequences, FiniteSets, TLC

CONSTANTS MaxActs, MaxWrites, MaxDepth, MaxBlocks, Vias,
          Nested,      \* FALSE: DisableNestedTransaction
          Faults       \* TRUE: one driver fault may be injected

\* frame: [kind |-> "tx" | "sp" | "flat", w |-> set of ids written since it was opened]
\* st: the abstract state
InitSt == [durable |-> {}, stack |-> <<>>, mode |-> "run",  \* run | fail (block must return err) | panic
           result |-> "none",   \* outcome of the last finished OUTERMOST block / manual tx
           ek |-> "err",        \* kind of the error being propagated while mode = "fail": err (a block's own) | fault (injected)
           reads |-> <<>>, nw |-> 0, nb |-> 0, faulted |-> FALSE, poison |-> FALSE, manual |-> FALSE]

Depth(st) == Len(st.stack)
Top(st) == st.stack[Len(st.stack)]
Visible(st) == st.durable \cup UNION {st.stack[i].w : i \in DOMAIN st.stack}
Push(st, fr) == [st EXCEPT !.stack = Append(@, fr)]
Pop(st) == [st EXCEPT !.stack = SubSeq(@, 1, Len(@) - 1)]
AddTop(st, S) == [st EXCEPT !.stack[Len(st.stack)].w = @ \cup S]

Step(st, a, nested) ==
  CASE a.op = "enter" ->
         IF Depth(st) = 0
         THEN IF a.f THEN [st EXCEPT !.result = "fault", !.faulted = TRUE, !.nb = @ + 1]     \* BEGIN refused: fc never runs
              ELSE [Push(st, [kind |-> "tx", w |-> {}]) EXCEPT !.result = "none", !.nb = @ + 1]
         ELSE IF ~nested THEN [Push(st, [kind |-> "flat", w |-> {}]) EXCEPT !.nb = @ + 1]
         ELSE IF a.f THEN [st EXCEPT !.mode = "fail", !.ek = "fault", !.faulted = TRUE, !.poison = TRUE, !.nb = @ + 1]  \* SAVEPOINT refused: parent gets the error
              ELSE [Push(st, [kind |-> "sp", w |-> {}]) EXCEPT !.nb = @ + 1]
    [] a.op = "write" ->
         IF a.f THEN [st EXCEPT !.mode = "fail", !.ek = "fault", !.faulted = TRUE, !.nw = @ + 1]
         ELSE [AddTop(st, {a.id}) EXCEPT !.nw = @ + 1]
    [] a.op = "read" -> [st EXCEPT !.reads = Append(@, Cardinality(Visible(st)))]
    [] a.op = "exit" ->
         LET fr == Top(st)  p == Pop(st)
             ek == IF st.mode = "fail" THEN st.ek ELSE "err"    \* what an erroring block returns
         IN
         IF fr.kind = "tx"
         THEN IF a.out = "nil" /\ ~a.f
              THEN [p EXCEPT !.durable = @ \cup fr.w, !.result = "nil", !.mode = "run"]
              ELSE [p EXCEPT !.result = (IF a.out = "nil" THEN "fault" ELSE IF a.out = "panic" THEN "panic" ELSE ek),
                             !.mode = "run", !.faulted = (st.faulted \/ a.f)]
         ELSE LET kept == IF fr.kind = "flat" \/ a.out = "nil" THEN fr.w ELSE {}   \* sp: failure undoes exactly its own writes
                  q == AddTop(p, kept)
              IN [q EXCEPT !.mode = CASE a.out = "panic" /\ ~a.sw -> "panic"
                                      [] a.out = "err" /\ ~a.sw -> "fail"
                                      [] OTHER -> "run",
                           !.ek = ek]
    \* ---- manual sequences --------------------------------------------------------------------
    [] a.op = "mbegin"    -> [Push(st, [kind |-> "tx", w |-> {}]) EXCEPT !.manual = TRUE, !.result = "none", !.nb = @ + 1]
    [] a.op = "msave"     -> Push(st, [kind |-> "sp", w |-> {}])
    [] a.op = "mrollto"   -> \* ROLLBACK TO the k-th save point: undo everything after it, keep it
         [st EXCEPT !.stack = Append(SubSeq(@, 1, a.k - 1), [kind |-> "sp", w |-> {}])]
    [] a.op = "mcommit"   -> [st EXCEPT !.durable = @ \cup Visible(st), !.stack = <<>>, !.result = "nil", !.manual = FALSE]
    [] a.op = "mrollback" -> [st EXCEPT !.stack = <<>>, !.result = "rolledback", !.manual = FALSE]

\* which actions may come next (program well-formedness + error propagation discipline)
IfSet(c, S) == IF c THEN S ELSE {}
FB(c) == IF c THEN BOOLEAN ELSE {FALSE}
Enabled(st, nested) ==
  IF st.manual THEN
          IfSet(st.nw < MaxWrites, {[op |-> "write", id |-> st.nw + 1, f |-> FALSE, via |-> ""]})
     \cup IfSet(Len(st.reads) < 1, {[op |-> "read"]})
     \cup IfSet(Depth(st) < MaxDepth + 1, {[op |-> "msave"]})
     \cup {[op |-> "mrollto", k |-> k] : k \in 2..Depth(st)}
     \cup {[op |-> "mcommit"], [op |-> "mrollback"]}
  ELSE IF Depth(st) = 0 THEN
     IfSet(st.nb = 0, {[op |-> "enter", f |-> f] : f \in FB(Faults)} \cup {[op |-> "mbegin"]})
  ELSE IF st.mode = "panic" THEN {[op |-> "exit", out |-> "panic", sw |-> FALSE, f |-> FALSE]}
  ELSE IF st.mode = "fail"  THEN
     \* the error of a refused SAVEPOINT / statement is propagated by every enclosing block
     {[op |-> "exit", out |-> "err", sw |-> sw, f |-> FALSE] : sw \in FB(Depth(st) > 1 /\ ~st.poison)}
  ELSE LET canF == Faults /\ ~st.faulted IN
          IfSet(st.nw < MaxWrites, {[op |-> "write", id |-> st.nw + 1, f |-> f, via |-> v] : f \in FB(canF), v \in Vias})
     \cup IfSet(Len(st.reads) < 1, {[op |-> "read"]})
     \cup IfSet(Depth(st) < MaxDepth /\ st.nb < MaxBlocks, {[op |-> "enter", f |-> f] : f \in FB(canF /\ nested)})
     \cup {[op |-> "exit", out |-> "nil", sw |-> FALSE, f |-> f] : f \in FB(canF /\ Depth(st) = 1)}
     \cup {[op |-> "exit", out |-> "err", sw |-> sw, f |-> FALSE] : sw \in FB(Depth(st) > 1)}
     \cup {[op |-> "exit", out |-> "panic", sw |-> sw, f |-> FALSE] : sw \in FB(Depth(st) > 1)}

RECURSIVE RunFrom(_, _, _, _)
RunFrom(st, prog, i, nested) == IF i > Len(prog) THEN st ELSE RunFrom(Step(st, prog[i], nested), prog, i + 1, nested)
Run(prog, nested) == RunFrom(InitSt, prog, 1, nested)

(***************************************************************************)
(* Declarative reading of the property over the program text, independent  *)
(* of the snapshot stack: a write survives iff the outermost block         *)
(* returned nil and its commit succeeded and every enclosing nested block  *)
(* (when nesting is enabled) returned nil.                                 *)
(***************************************************************************)
\* an enter is refused when it carries a fault (BEGIN / SAVEPOINT failed): its function never runs
EnterRefused(prog, j) == prog[j].f
\* index of the exit matching the enter at position i (0 if unmatched)
RECURSIVE MatchFrom(_, _, _)
MatchFrom(prog, j, depth) ==
  IF j > Len(prog) THEN 0
  ELSE IF prog[j].op = "enter" /\ ~EnterRefused(prog, j) THEN MatchFrom(prog, j + 1, depth + 1)
  ELSE IF prog[j].op = "exit" THEN (IF depth = 0 THEN j ELSE MatchFrom(prog, j + 1, depth - 1))
  ELSE MatchFrom(prog, j + 1, depth)
Blocks(prog) == {<<i, MatchFrom(prog, i + 1, 0)>> : i \in {k \in DOMAIN prog : prog[k].op = "enter" /\ ~prog[k].f}}
Survives(prog, wi, nested) ==
  LET enc == {b \in Blocks(prog) : b[1] < wi /\ b[2] # 0 /\ wi < b[2]}
      outer == CHOOSE b \in enc : \A c \in enc : b[1] <= c[1]
  IN /\ enc # {}
     /\ ~prog[wi].f
     /\ prog[outer[2]].out = "nil" /\ ~prog[outer[2]].f
     /\ (nested => \A b \in enc : prog[b[2]].out = "nil")
Expected(prog, nested) == {prog[i].id : i \in {k \in DOMAIN prog : prog[k].op = "write" /\ Survives(prog, k, nested)}}

VARIABLES st, hist
vars == <<st, hist>>
Init == st = InitSt /\ hist = <<>>
Next == /\ Len(hist) < MaxActs
        /\ \E a \in Enabled(st, Nested) : st' = Step(st, a, Nested) /\ hist' = Append(hist, a)
Spec == Init /\ [][Next]_vars

IsBlockProg == \A i \in DOMAIN hist : hist[i].op \in {"enter", "write", "read", "exit"}
Done == Depth(st) = 0 /\ Len(hist) > 0
\* the snapshot-stack machine agrees with the declarative statement on every finished block program
StackMatchesStatement == (Done /\ IsBlockProg) => st.durable = Expected(hist, Nested)
\* all-or-nothing at the outermost level
OuterAtomic == (Done /\ IsBlockProg) =>
                  IF st.result = "nil" THEN st.durable \subseteq {hist[i].id : i \in {k \in DOMAIN hist : hist[k].op = "write"}}
                  ELSE st.durable = {}
\* a result other than nil leaves nothing durable; nil leaves exactly what was visible at commit
TypeOK == st.mode \in {"run", "fail", "panic"} /\ Depth(st) <= MaxDepth + 1
=============================================================================
