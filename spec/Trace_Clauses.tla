--------------------------- MODULE Trace_Clauses ---------------------------
(* Trace validation for X01: one event per executed chain (the calls, the    *)
(* finisher, the SQL text and the bound values the real statement carried).  *)
EXTENDS Clauses, Json

Trace == ndJsonDeserialize("obs.ndjson")
VARIABLES l, bad
tvars == <<l, bad, hist, st>>
TInit == l = 1 /\ bad = <<>> /\ hist = <<>> /\ st = Empty

Ev ==
  /\ l <= Len(Trace)
  /\ LET e == Trace[l]
         x == Expected(e.calls, e.fin)
         ok == /\ e.err = x.err
               /\ e.sql = x.sql
               /\ Len(e.vars) = Len(x.vars) /\ \A i \in DOMAIN x.vars : e.vars[i] = x.vars[i]
     IN bad' = IF ok THEN bad ELSE Append(bad, [i |-> l, want |-> x.sql, wantvars |-> x.vars])
  /\ l' = l + 1 /\ UNCHANGED <<hist, st>>
Finish_ ==
  /\ l = Len(Trace) + 1
  /\ ndJsonSerialize("verdict.ndjson", <<[n |-> Len(Trace), bad |-> bad]>>)
  /\ l' = l + 1 /\ UNCHANGED <<bad, hist, st>>
TraceSpec == TInit /\ [][Ev \/ Finish_]_tvars
=============================================================================
