---------------------------- MODULE SchemaCache ----------------------------
(***************************************************************************)
(* C07 -- first use of model types from several goroutines: the schema     *)
(* cache protocol of schema.ParseWithSpecialTableName / getOrParse, one    *)
(* action per step between two instrumentation points:                     *)
(*   Load1     cacheStore.Load                 -> hit: wait | miss         *)
(*   Load2     second Load (after the Schema value was allocated)          *)
(*   LOS       LoadOrStore after the fields were parsed                    *)
(*             -> loaded: wait | stored: relation phase begins             *)
(*   RelHit    getOrParse(related type): cached -> used WITHOUT waiting    *)
(*   RelMiss   getOrParse(related type): not cached -> nested Parse        *)
(*   Return    a nested Parse returns into the relation phase              *)
(*   RelDone   close(schema.initialized)                                   *)
(*   WaitDone  <-s.initialized                                             *)
(*   UseBegin / UseEnd   the caller works with the schema it got           *)
(* Relation phases write: their own schema (maps, relationship lists) and, *)
(* for every related type, that type's schema (foreign-key field types,    *)
(* the "_Owner_Field" back reference in its Relations map).                *)
(***************************************************************************)
EXTENDS Integers, Sequences, FiniteSets, TLC

CONSTANTS G,        \* goroutines
          Types,    \* model types
          Rel,      \* [Types -> Seq(Types)]: related types in field order
          Warm      \* set of subsets of Types that may be parsed before the goroutines start

VARIABLES plan,     \* goroutine -> type it uses first
          cache,    \* type -> schema id (0 = none)
          sch,      \* schema id -> [t, owner, init]
          stack,    \* goroutine -> sequence of frames [t, pc, sid, todo, w, ret]
          result,   \* goroutine -> schema id its top-level Parse returned (0 = not yet)
          upc,      \* goroutine -> "parse" | "got" | "using" | "done"
          reading,  \* goroutine -> set of schema ids it reads while using
          seen,     \* race kinds that occurred: subset of {"k1", "k2"}
          hist
vars == <<plan, cache, sch, stack, result, upc, reading, seen, hist>>
view == <<plan, cache, sch, stack, result, upc, reading, seen>>

Frame(t) == [t |-> t, pc |-> "load1", sid |-> 0, todo |-> <<>>, w |-> 0, ret |-> 0]
\* schemas parsed before the goroutines start (a warm cache): one initialised schema per type
WarmSch(W) == LET S == CHOOSE s \in [1..Cardinality(W) -> W] : \A i, j \in DOMAIN s : i # j => s[i] # s[j]
              IN [i \in DOMAIN S |-> [t |-> S[i], owner |-> 0, init |-> TRUE]]
Init ==
  /\ plan \in [G -> Types]
  /\ \E W \in Warm :
       /\ sch = WarmSch(W)
       /\ cache = [t \in Types |-> IF t \in W THEN CHOOSE i \in DOMAIN WarmSch(W) : WarmSch(W)[i].t = t ELSE 0]
  /\ stack = [g \in G |-> <<Frame(plan[g])>>]
  /\ result = [g \in G |-> 0] /\ upc = [g \in G |-> "parse"] /\ reading = [g \in G |-> {}]
  /\ seen = {} /\ hist = <<>>

Top(g) == stack[g][Len(stack[g])]
SetTop(g, f) == stack' = [stack EXCEPT ![g] = [@ EXCEPT ![Len(@)] = f]]
Log(g, a, t) == hist' = Append(hist, [g |-> g, a |-> a, t |-> t])
InParse(g) == upc[g] = "parse" /\ Len(stack[g]) > 0

\* a relation phase touches (writes) the schema s of a related type
TouchRaces(g, s) ==
     (IF sch[s].owner # g /\ ~sch[s].init THEN {"k1"} ELSE {})            \* its owner is still in its own relation phase
\cup (IF \E h \in DOMAIN upc : h # g /\ s \in reading[h] THEN {"k2"} ELSE {})       \* a caller is reading it

Lookup(g, a, next) ==
  /\ InParse(g) /\ Top(g).pc = a
  /\ Log(g, a, Top(g).t)
  /\ IF cache[Top(g).t] # 0
     THEN SetTop(g, [Top(g) EXCEPT !.pc = "wait", !.w = cache[Top(g).t]])
     ELSE SetTop(g, [Top(g) EXCEPT !.pc = next])
  /\ UNCHANGED <<plan, cache, sch, result, upc, reading, seen>>
Load1(g) == Lookup(g, "load1", "load2")
Load2(g) == Lookup(g, "load2", "los")

LOS(g) ==
  /\ InParse(g) /\ Top(g).pc = "los"
  /\ Log(g, "los", Top(g).t)
  /\ IF cache[Top(g).t] # 0
     THEN /\ SetTop(g, [Top(g) EXCEPT !.pc = "wait", !.w = cache[Top(g).t]])
          /\ UNCHANGED <<cache, sch>>
     ELSE /\ sch' = Append(sch, [t |-> Top(g).t, owner |-> g, init |-> FALSE])
          /\ cache' = [cache EXCEPT ![Top(g).t] = Len(sch) + 1]
          /\ SetTop(g, [Top(g) EXCEPT !.pc = "rel", !.sid = Len(sch) + 1, !.todo = Rel[Top(g).t]])
  /\ UNCHANGED <<plan, result, upc, reading, seen>>

RelHit(g) ==
  /\ InParse(g) /\ Top(g).pc = "rel" /\ Top(g).todo # <<>> /\ cache[Head(Top(g).todo)] # 0
  /\ Log(g, "relhit", Head(Top(g).todo))
  /\ seen' = seen \cup TouchRaces(g, cache[Head(Top(g).todo)])
  /\ SetTop(g, [Top(g) EXCEPT !.todo = Tail(@)])
  /\ UNCHANGED <<plan, cache, sch, result, upc, reading>>

RelMiss(g) ==
  /\ InParse(g) /\ Top(g).pc = "rel" /\ Top(g).todo # <<>> /\ cache[Head(Top(g).todo)] = 0
  /\ Log(g, "relmiss", Head(Top(g).todo))
  /\ stack' = [stack EXCEPT ![g] = Append(@, Frame(Head(Top(g).todo)))]
  /\ UNCHANGED <<plan, cache, sch, result, upc, reading, seen>>

RelDone(g) ==
  /\ InParse(g) /\ Top(g).pc = "rel" /\ Top(g).todo = <<>>
  /\ Log(g, "init", Top(g).t)
  /\ sch' = [sch EXCEPT ![Top(g).sid].init = TRUE]
  /\ SetTop(g, [Top(g) EXCEPT !.pc = "ret", !.ret = Top(g).sid])
  /\ UNCHANGED <<plan, cache, result, upc, reading, seen>>

WaitDone(g) ==
  /\ InParse(g) /\ Top(g).pc = "wait" /\ sch[Top(g).w].init
  /\ Log(g, "waitdone", Top(g).t)
  /\ SetTop(g, [Top(g) EXCEPT !.pc = "ret", !.ret = Top(g).w])
  /\ UNCHANGED <<plan, cache, sch, result, upc, reading, seen>>

\* (no instrumentation point of its own: the return is part of the step that follows in the code)
Return(g) ==
  /\ InParse(g) /\ Top(g).pc = "ret"
  /\ IF Len(stack[g]) = 1
     THEN /\ result' = [result EXCEPT ![g] = Top(g).ret] /\ upc' = [upc EXCEPT ![g] = "got"]
          /\ stack' = [stack EXCEPT ![g] = <<>>] /\ seen' = seen
     ELSE LET parent == stack[g][Len(stack[g]) - 1] IN
          /\ stack' = [stack EXCEPT ![g] = Append(SubSeq(@, 1, Len(@) - 2), [parent EXCEPT !.todo = Tail(@)])]
          /\ seen' = seen \cup TouchRaces(g, Top(g).ret)
          /\ UNCHANGED <<result, upc>>
  /\ UNCHANGED <<plan, cache, sch, reading, hist>>

\* what a caller reads: the schema it got and, through its relationships, the schemas of the related types
ReadSet(g) == {result[g]} \cup {cache[Rel[sch[result[g]].t][i]] : i \in DOMAIN Rel[sch[result[g]].t]}
UseBegin(g) ==
  /\ upc[g] = "got"
  /\ Log(g, "usebegin", sch[result[g]].t)
  /\ reading' = [reading EXCEPT ![g] = ReadSet(g) \ {0}]
  /\ seen' = seen \cup (IF \E s \in ReadSet(g) \ {0} : ~sch[s].init /\ sch[s].owner # g THEN {"k2"} ELSE {})
  /\ upc' = [upc EXCEPT ![g] = "using"]
  /\ UNCHANGED <<plan, cache, sch, stack, result>>
UseEnd(g) ==
  /\ upc[g] = "using"
  /\ Log(g, "useend", sch[result[g]].t)
  /\ reading' = [reading EXCEPT ![g] = {}] /\ upc' = [upc EXCEPT ![g] = "done"]
  /\ UNCHANGED <<plan, cache, sch, stack, result, seen>>

AllDone == \A g \in DOMAIN upc : upc[g] = "done"
Next == \/ \E g \in G : Load1(g) \/ Load2(g) \/ LOS(g) \/ RelHit(g) \/ RelMiss(g) \/ RelDone(g) \/ WaitDone(g) \/ Return(g) \/ UseBegin(g) \/ UseEnd(g)
        \/ (AllDone /\ UNCHANGED vars)
Spec == Init /\ [][Next]_vars /\ WF_vars(Next)

(***************************************************************************)
(* Properties                                                              *)
(***************************************************************************)
\* every goroutine gets its schema: no deadlock among waiting parsers, whatever the relation cycles
Termination == <>AllDone
\* one schema per type, however many goroutines ask for it first at the same time
SingleSchema == \A g, h \in DOMAIN upc : (result[g] # 0 /\ result[h] # 0 /\ sch[result[g]].t = sch[result[h]].t) => result[g] = result[h]
CachedIsResult == \A g \in DOMAIN upc : result[g] # 0 => cache[sch[result[g]].t] = result[g]
\* a caller only ever gets a schema whose own relation phase is over
ResultInitialized == \A g \in DOMAIN upc : result[g] # 0 => sch[result[g]].init
\* F4 (known finding): data races.  k1: a relation phase uses a related schema that getOrParse handed
\* out while its owner is still in its relation phase; k2: a relation phase writes into the schema of
\* a related type that a caller is reading, or a caller reads, through a relationship, a schema still
\* in its relation phase
NoRaceK1 == "k1" \notin seen
NoRaceK2 == "k2" \notin seen
=============================================================================
