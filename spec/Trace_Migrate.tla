--------------------------- MODULE Trace_Migrate ---------------------------
EXTENDS Migrate, Json
Trace == ndJsonDeserialize("obs.ndjson")
VARIABLES l, bad
tvars == <<l, bad, have, rows, hist>>
TInit == l = 1 /\ bad = <<>> /\ have = {} /\ rows = {} /\ hist = <<>>
MigHEv ==
  /\ l <= Len(Trace) /\ Trace[l].ev = "MigH"
  /\ LET e == Trace[l]  k == HistOK(e) IN
       bad' = IF k = 0 THEN bad
              ELSE Append(bad, [i |-> l, case |-> e.case, setup |-> TRUE, idem |-> TRUE, add |-> FALSE, data |-> TRUE, accept |-> TRUE, shape |-> TRUE])
  /\ l' = l + 1 /\ UNCHANGED <<have, rows, hist>>
MigEv ==
  /\ l <= Len(Trace) /\ Trace[l].ev = "Mig"
  /\ LET e == Trace[l]  h == HistoryOK(e) IN
       bad' = IF h.setup /\ h.idem /\ h.add /\ h.data /\ h.accept /\ h.shape THEN bad
              ELSE Append(bad, [i |-> l, case |-> e.case, setup |-> h.setup, idem |-> h.idem, add |-> h.add, data |-> h.data, accept |-> h.accept, shape |-> h.shape])
  /\ l' = l + 1 /\ UNCHANGED <<have, rows, hist>>
Finish ==
  /\ l = Len(Trace) + 1
  /\ ndJsonSerialize("verdict.ndjson", <<[n |-> Len(Trace), bad |-> bad]>>)
  /\ l' = l + 1 /\ UNCHANGED <<bad, have, rows, hist>>
TraceSpec == TInit /\ [][MigEv \/ MigHEv \/ Finish]_tvars
=============================================================================
