--------------------------- MODULE SchemaCacheMC ---------------------------
EXTENDS SchemaCache
\* the model types of harness/sc: U has-one/belongs-to/has-many, cycles U <-> C and U <-> O, P related one way, S unrelated
TypesMC == {"U", "C", "O", "P", "S"}
RelMC == [t \in TypesMC |-> CASE t = "U" -> <<"C", "O", "P">> [] t = "C" -> <<"U">> [] t = "O" -> <<"U">> [] OTHER -> <<>>]
WarmMC == {{}, {"P"}, {"P", "S"}, TypesMC}
WarmCold == {{}}
\* behaviours for replay: a return has no instrumentation point of its own and happens at once
NextReplay == IF \E g \in G : InParse(g) /\ Top(g).pc = "ret" THEN \E g \in G : Return(g) ELSE Next
=============================================================================
