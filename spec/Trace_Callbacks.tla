--------------------------- MODULE Trace_Callbacks ---------------------------
(* Direction B / verdict for C17: every observation recorded from the real     *)
(* registry (history + firing order, error flag, crash flag) is consumed as    *)
(* one step; the property-level predicate Valid decides it, the transcription  *)
(* Impl is compared for drift, and named deviations are tagged.                *)
EXTENDS Callbacks, Json

Trace == ndJsonDeserialize("obs.ndjson")

VARIABLES l, bad, drift
tvars == <<l, bad, drift, user>>

TInit == l = 1 /\ bad = <<>> /\ drift = <<>> /\ user = <<>>

Step ==
  /\ l <= Len(Trace)
  /\ LET e    == Trace[l]
         regs == BuiltinRegsN(e.nb) \o e.user
         res  == [err |-> e.err, order |-> e.order]
         ok   == ~e.crash /\ ValidNB(e.nb, regs, res)
         m    == ImplRes(regs)
         same == /\ m.div = e.crash
                 /\ (~e.crash => (m.err = e.err /\ (~e.err => m.order = e.order)))
     IN /\ bad' = IF ok THEN bad
                  ELSE Append(bad, [i |-> l, case |-> e.case, tag |-> DeviationTagNB(e.nb, regs),
                                    as_model |-> same, crash |-> e.crash])
        /\ drift' = IF same THEN drift ELSE Append(drift, l)
  /\ l' = l + 1
  /\ UNCHANGED user

Finish ==
  /\ l = Len(Trace) + 1
  /\ ndJsonSerialize("verdict.ndjson", <<[n |-> Len(Trace), bad |-> bad, drift |-> drift]>>)
  /\ l' = l + 1
  /\ UNCHANGED <<bad, drift, user>>

TNext == Step \/ Finish
TraceSpec == TInit /\ [][TNext]_tvars
=============================================================================
