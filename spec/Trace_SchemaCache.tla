------------------------- MODULE Trace_SchemaCache -------------------------
(* Trace validation for C07.                                                           *)
(*  "SC" events (direction A): one behaviour of SchemaCache.tla replayed on the real    *)
(*  schema cache with the instrumentation points as gates.  Each step is fed through    *)
(*  the action it names (returns, which have no instrumentation point, are taken as     *)
(*  soon as they are enabled); after every step the set of cached types must be the     *)
(*  model's, at the end every goroutine must hold the one initialised schema of its     *)
(*  type.                                                                               *)
(*  "Conc" events (direction B): G goroutines ran random programs through one handle;   *)
(*  results and rows must equal the serial run.                                         *)
(*  "Race" / "Crash" events: a data-race report (or a fatal concurrent map access) of   *)
(*  the race-detector build, reduced to (access kind, inside schema parsing?) per side; *)
(*  the model explains k1 (both sides inside a schema parse) and k2 (a parse writes     *)
(*  what a caller outside reads): known finding F4.  Anything else is a violation.      *)
EXTENDS SchemaCacheMC, Json

Trace == ndJsonDeserialize("obs.ndjson")
VARIABLES k, l, sd, bad
tvars == <<vars, k, l, sd, bad>>

IsSC(e) == e.ev = "SC"
NSteps(e) == IF IsSC(e) THEN Len(e.hist) ELSE 0
GsOf(e) == IF IsSC(e) THEN DOMAIN e.plan ELSE {1}
WarmOf(e) == IF IsSC(e) THEN {e.warm[i] : i \in DOMAIN e.warm} ELSE {}
PlanOf(e) == IF IsSC(e) THEN e.plan ELSE <<"S">>

InitFor(e) ==
  /\ plan = PlanOf(e)
  /\ sch = WarmSch(WarmOf(e))
  /\ cache = [t \in TypesMC |-> IF t \in WarmOf(e) THEN CHOOSE i \in DOMAIN WarmSch(WarmOf(e)) : WarmSch(WarmOf(e))[i].t = t ELSE 0]
  /\ stack = [g \in GsOf(e) |-> <<Frame(PlanOf(e)[g])>>]
  /\ result = [g \in GsOf(e) |-> 0] /\ upc = [g \in GsOf(e) |-> "parse"] /\ reading = [g \in GsOf(e) |-> {}]
  /\ seen = {} /\ hist = <<>>
TInit == k = 1 /\ l = 1 /\ sd = 0 /\ bad = <<>> /\ InitFor(Trace[1])

Gs == DOMAIN upc
CanReturn == \E g \in Gs : InParse(g) /\ Top(g).pc = "ret"
SilentReturn ==
  /\ k <= Len(Trace) /\ CanReturn
  /\ \E g \in Gs : Return(g)
  /\ UNCHANGED <<k, l, sd, bad>>

CachedTypes == {t \in TypesMC : cache[t] # 0}
StepEv ==
  /\ k <= Len(Trace) /\ ~CanReturn /\ l <= NSteps(Trace[k])
  /\ LET s == Trace[k].hist[l] IN
       /\ CASE s.a = "load1"    -> Load1(s.g)
            [] s.a = "load2"    -> Load2(s.g)
            [] s.a = "los"      -> LOS(s.g)
            [] s.a = "relhit"   -> RelHit(s.g)
            [] s.a = "relmiss"  -> RelMiss(s.g)
            [] s.a = "init"     -> RelDone(s.g)
            [] s.a = "waitdone" -> WaitDone(s.g)
            [] s.a = "usebegin" -> UseBegin(s.g)
            [] OTHER            -> UseEnd(s.g)
       /\ sd' = IF sd = 0 /\ {t \in TypesMC : cache'[t] # 0} # {s.c[i] : i \in DOMAIN s.c} THEN l ELSE sd
  /\ l' = l + 1 /\ UNCHANGED <<k, bad>>

JudgeSC(e) ==
  LET o == e.obs
      whole == o.drift = "" /\ ~o.hung /\ Len(e.hist) = e.nsteps
      single == \A g, h \in Gs : (o.restype[ToString(g)] = o.restype[ToString(h)]) => o.results[ToString(g)] = o.results[ToString(h)]
      inited == \A g \in Gs : o.results[ToString(g)] # 0 /\ o.resinit[ToString(g)] /\ o.restype[ToString(g)] = plan[g]
      asmodel == whole /\ sd = 0 /\ \A g, h \in Gs : (result[g] = result[h]) <=> (o.results[ToString(g)] = o.results[ToString(h)])
  IN [ok |-> ~o.hung /\ Len(o.errs) = 0 /\ (whole => (single /\ inited /\ asmodel)) /\ whole,
      sig |-> "", why |-> IF o.hung THEN "hung" ELSE IF ~whole THEN "gates" ELSE IF sd # 0 THEN "cache" ELSE IF ~single THEN "two schemas for one type" ELSE IF ~inited THEN "uninitialised result" ELSE "results"]

JudgeConc(e) ==
  [ok |-> ~e.hung /\ Len(e.diffs) = 0 /\ e.rows_equal, sig |-> "",
   why |-> IF e.hung THEN "hung" ELSE IF Len(e.diffs) # 0 THEN "results differ from the serial run" ELSE "rows differ from the serial run"]

\* a race report / crash: sides a and b with [op |-> "write" | "read" | "?", inparse |-> BOOLEAN]
JudgeRace(e) ==
  LET k1 == e.a.inparse /\ e.b.inparse
      k2 == \/ (e.a.inparse /\ ~e.b.inparse /\ e.a.op # "read" /\ e.b.op # "write")
            \/ (e.b.inparse /\ ~e.a.inparse /\ e.b.op # "read" /\ e.a.op # "write")
            \* a crash in a reader of a schema's relationship maps, raised by a concurrent write whose
            \* goroutine is no longer inside the parse when the runtime dumps the stacks
            \/ (~e.a.inparse /\ ~e.b.inparse /\ e.lonereader)
  IN [ok |-> FALSE, sig |-> IF k1 THEN "race_k1_parse_vs_parse" ELSE IF k2 THEN "race_k2_parse_write_vs_caller_read" ELSE "", why |-> "data race"]

EndEv ==
  /\ k <= Len(Trace) /\ ~CanReturn /\ l = NSteps(Trace[k]) + 1
  /\ LET e == Trace[k]
         j == IF IsSC(e) THEN JudgeSC(e) ELSE IF e.ev = "Conc" THEN JudgeConc(e) ELSE JudgeRace(e) IN
       bad' = IF j.ok THEN bad ELSE Append(bad, [i |-> k, case |-> e.case, ev |-> e.ev, sd |-> sd] @@ j)
  /\ k' = k + 1 /\ l' = 1 /\ sd' = 0
  /\ IF k < Len(Trace)
     THEN LET e == Trace[k + 1] IN
          /\ plan' = PlanOf(e)
          /\ sch' = WarmSch(WarmOf(e))
          /\ cache' = [t \in TypesMC |-> IF t \in WarmOf(e) THEN CHOOSE i \in DOMAIN WarmSch(WarmOf(e)) : WarmSch(WarmOf(e))[i].t = t ELSE 0]
          /\ stack' = [g \in GsOf(e) |-> <<Frame(PlanOf(e)[g])>>]
          /\ result' = [g \in GsOf(e) |-> 0] /\ upc' = [g \in GsOf(e) |-> "parse"] /\ reading' = [g \in GsOf(e) |-> {}]
          /\ seen' = {} /\ hist' = <<>>
     ELSE UNCHANGED vars

Finish ==
  /\ k = Len(Trace) + 1 /\ l = 1
  /\ ndJsonSerialize("verdict.ndjson", <<[n |-> Len(Trace), bad |-> bad]>>)
  /\ l' = 2 /\ UNCHANGED <<vars, k, sd, bad>>
TraceSpec == TInit /\ [][SilentReturn \/ StepEv \/ EndEv \/ Finish]_tvars
TraceInv == SingleSchema /\ CachedIsResult /\ ResultInitialized
=============================================================================
