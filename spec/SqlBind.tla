------------------------------ MODULE SqlBind ------------------------------
(***************************************************************************)
(* C01 / C19 -- which values a statement must bind, where, and how often.  *)
(* An abstract program is a sequence of chain calls (parts), each a        *)
(* template of tagged holes  "<tag> <op> ?"  with one argument per hole,   *)
(* plus a finisher with its write payload.  Values are opaque ids.         *)
(*   arg.k : scalar ptr valuer bytes nbytes (a named byte-slice type)      *)
(*                                     one value   -> one bound parameter  *)
(*           nil nilvaluer             SQL NULL    -> one bound NULL       *)
(*           slice (vs)                n values    -> n parameters;        *)
(*                 empty: "IN ?" -> the text (NULL), no parameter          *)
(*                        "IN (?)" -> one bound NULL                       *)
(*           nested (rows)             every cell  -> one parameter each   *)
(*           expr (holes)              an SQL expression with own holes    *)
(*           sub  (sub)                a sub-query with its own program    *)
(* Pairs(prog, target) is the bag of (tag, value) the caller intends.      *)
(***************************************************************************)
EXTENDS Integers, Sequences, FiniteSets, TLC

NullTok == "null"
P(tag, v) == <<tag, v>>

RECURSIVE HolePairs(_, _), HolesPairs(_, _), PartsPairs(_)
\* named: the hole is an @name argument; gorm expands a slice there as a whole value, so an empty
\* slice becomes the text (NULL) also inside "IN (@name)"
HolePairs(h, named) ==
  LET a == h.arg IN
  CASE a.k \in {"scalar", "ptr", "valuer", "bytes", "nbytes"} -> <<P(h.tag, a.v)>>
    [] a.k \in {"nil", "nilvaluer"} -> <<P(h.tag, NullTok)>>
    [] a.k = "slice" -> IF Len(a.vs) = 0 THEN (IF h.op = "INP" /\ ~named THEN <<P(h.tag, NullTok)>> ELSE <<>>)
                        ELSE [i \in DOMAIN a.vs |-> P(h.tag, a.vs[i])]
    [] a.k = "nested" -> LET flat == [i \in 1..(Len(a.rows) * 2) |-> a.rows[((i - 1) \div 2) + 1][((i - 1) % 2) + 1]]
                         IN [i \in DOMAIN flat |-> P(h.tag, flat[i])]
    [] a.k = "expr" -> HolesPairs(a.holes, FALSE)
    [] a.k = "sub"  -> PartsPairs(a.sub)
HolesPairs(hs, named) == IF Len(hs) = 0 THEN <<>> ELSE HolePairs(hs[1], named) \o HolesPairs(Tail(hs), named)
PartsPairs(ps) == IF Len(ps) = 0 THEN <<>> ELSE HolesPairs(ps[1].holes, ps[1].named) \o PartsPairs(Tail(ps))

AllCols == <<"parent_id", "other_id", "c1", "c2", "c3", "c4", "s1", "s2", "s3", "s4">>
ZeroTok(col) == IF col \in {"parent_id", "other_id"} THEN NullTok ELSE IF col \in {"c1", "c2", "c3", "c4"} THEN "i:0" ELSE "s:"
PayVal(pay, col) == IF \E i \in DOMAIN pay : pay[i].col = col
                    THEN pay[CHOOSE i \in DOMAIN pay : pay[i].col = col].v ELSE ZeroTok(col)
RowPairs(pay) == [i \in DOMAIN AllCols |-> P(AllCols[i], PayVal(pay, AllCols[i]))]
\* a record of the soft-delete model also inserts its (NULL) deleted_at
\*  ... and its integer tracked times (milliseconds / seconds of the fixed now)
SoftRow(prog) == IF prog.soft THEN <<P("deleted_at", NullTok), P("created_ms", prog.nowms), P("updated_s", prog.nows)>> ELSE <<>>
\* a hook-running update of the soft-delete model refreshes its tracked update time
SoftTouch(prog) == IF prog.soft THEN <<P("updated_s", prog.nows)>> ELSE <<>>
PayPairs(pay) == [i \in DOMAIN pay |-> P(pay[i].col, pay[i].v)]

\* target: "q" / "d" dummy dialects with the default clause builders, "real" SQLite
FinPairs(prog, target) ==
  LET fin == prog.fin IN
  CASE fin.kind \in {"update", "updates", "updates_map", "update_returning"} -> PayPairs(fin.pay) \o SoftTouch(prog)
    [] fin.kind = "create" -> RowPairs(fin.pay) \o SoftRow(prog)
    [] fin.kind = "create_slice" -> RowPairs(fin.pay) \o SoftRow(prog) \o RowPairs(fin.pay2) \o SoftRow(prog)
    [] fin.kind \in {"create_map", "create_tmap"} -> PayPairs(fin.pay)
    [] fin.kind = "upsert" -> <<P("id", "i:1")>> \o RowPairs(fin.pay) \o SoftRow(prog) \o PayPairs(fin.pay2)
    [] fin.kind = "first" /\ target # "real" -> <<P("", "i:1")>>     \* default LIMIT builder binds the limit
    \* deleting from a soft-delete model is an UPDATE that binds the deletion time
    [] fin.kind \in {"delete", "delete_returning"} /\ prog.soft -> <<P("deleted_at", prog.now)>>
    [] OTHER -> <<>>
Pairs(prog, target) ==
  IF prog.fin.kind \in {"create", "create_slice", "create_map", "create_tmap", "upsert"} THEN FinPairs(prog, target)
  ELSE PartsPairs(prog.parts) \o FinPairs(prog, target)

BagOf(seq) == [x \in {seq[i] : i \in DOMAIN seq} |-> Cardinality({i \in DOMAIN seq : seq[i] = x})]

\* ---- what was observed: holes = <<[n, tag, val]>> in left-to-right text order -------------
Align(e) ==
  /\ Len(e.holes) = e.nvars                                         \* one placeholder per bound value
  /\ e.target = "d" => \A i \in DOMAIN e.holes : e.holes[i].n = i   \* numbered 1..n left to right
Bound(e) == BagOf([i \in DOMAIN e.holes |-> P(e.holes[i].tag, e.holes[i].val)]) = BagOf(Pairs(e.prog, e.target))
ValuesBound(e) == BagOf([i \in DOMAIN e.holes |-> e.holes[i].val]) =
                  BagOf([i \in DOMAIN Pairs(e.prog, e.target) |-> Pairs(e.prog, e.target)[i][2]])
NoValueInText(e) == e.markers = <<>>

(***************************************************************************)
(* Transcription of the expansion rules of clause.Expr.Build / AddVar as   *)
(* a placeholder count, explored over a bounded space of flat holes.       *)
(***************************************************************************)
CONSTANTS MaxParts
Kinds == {"scalar", "ptr", "valuer", "bytes", "nbytes", "nil", "nilvaluer", "slice", "nested"}
FlatHoles == [k : Kinds, n : 0..2, op : {"=", "IN", "INP"}]
\* placeholders gorm writes for one flat hole
RenderCount(f) ==
  CASE f.k \in {"scalar", "ptr", "valuer", "bytes", "nbytes", "nil", "nilvaluer"} -> 1
    [] f.k = "slice" -> IF f.n = 0 THEN (IF f.op = "INP" THEN 1 ELSE 0) ELSE f.n   \* after "(": elements; empty -> AddVar(nil)
    [] f.k = "nested" -> 2 * f.n
\* the same hole as an abstract hole with fresh value ids
HoleOf(f, base) ==
  [tag |-> "c1", op |-> f.op,
   arg |-> CASE f.k = "slice" -> [k |-> "slice", vs |-> [i \in 1..f.n |-> base + i]]
             [] f.k = "nested" -> [k |-> "nested", rows |-> [i \in 1..f.n |-> <<base + 2 * i - 1, base + 2 * i>>]]
             [] f.k \in {"nil", "nilvaluer"} -> [k |-> f.k]
             [] OTHER -> [k |-> f.k, v |-> base + 1]]
VARIABLE flat
Init == flat = <<>>
Next == Len(flat) < MaxParts /\ \E f \in FlatHoles : flat' = Append(flat, f)
Spec == Init /\ [][Next]_flat
RECURSIVE SumCounts(_)
SumCounts(fs) == IF Len(fs) = 0 THEN 0 ELSE RenderCount(fs[1]) + SumCounts(Tail(fs))
\* one placeholder per intended (tag, value) pair, for every combination of argument kinds
RenderMatchesPairs ==
  SumCounts(flat) = Len(HolesPairs([i \in DOMAIN flat |-> HoleOf(flat[i], 10 * i)], FALSE))
=============================================================================
