--------------------------- MODULE Trace_SqlBind ---------------------------
(* Trace validation for C01 and C19.  Events:                                 *)
(*   Stmt : one statement built (DryRun, dummy '?' / '$n' dialects) or sent    *)
(*          (SQLite, as seen by the recording driver) for an abstract program  *)
(*   Dry  : the same operation once in DryRun / ToSQL mode and once for real   *)
EXTENDS SqlBind, Json

Trace == ndJsonDeserialize("obs.ndjson")
VARIABLES l, bad
tvars == <<l, bad, flat>>
TInit == l = 1 /\ bad = <<>> /\ flat = <<>>

StmtEv ==
  /\ l <= Len(Trace) /\ Trace[l].ev = "Stmt"
  /\ LET e == Trace[l]  a == Align(e) /\ e.panic = ""  b == Bound(e)  v == ValuesBound(e)  m == NoValueInText(e) IN
       bad' = IF a /\ b /\ m THEN bad
              ELSE Append(bad, [i |-> l, case |-> e.case, prop |-> "C01", align |-> a, bound |-> b, values |-> v, text |-> m])
  /\ l' = l + 1 /\ UNCHANGED flat

DryEv ==
  /\ l <= Len(Trace) /\ Trace[l].ev = "Dry"
  /\ LET e == Trace[l]
         silent == e.dry_stmts = 0 /\ e.tosql_calls = 0 /\ e.panic = ""                  \* no prepare/exec/query; ToSQL: no driver call at all
         same   == /\ e.dry_sql = e.real_sql /\ e.dry_vals = e.real_vals  \* exactly the main statement of the real run
                   /\ e.scoped_tosql = e.scoped_real                      \* also when ToSQL starts from a handle carrying chained state
     IN bad' = IF silent /\ same THEN bad
               ELSE Append(bad, [i |-> l, case |-> e.case, prop |-> "C19", align |-> silent, bound |-> same, values |-> TRUE, text |-> TRUE])
  /\ l' = l + 1 /\ UNCHANGED flat

Finish ==
  /\ l = Len(Trace) + 1
  /\ ndJsonSerialize("verdict.ndjson", <<[n |-> Len(Trace), bad |-> bad]>>)
  /\ l' = l + 1 /\ UNCHANGED <<bad, flat>>
TraceSpec == TInit /\ [][StmtEv \/ DryEv \/ Finish]_tvars
=============================================================================
