------------------------------ MODULE Trace_Tx ------------------------------
(* Trace validation for C04: each event is one whole transaction program     *)
(* executed on real gorm (blocks are real closures, panics real panics,      *)
(* faults injected by the recording driver) together with what was observed  *)
(* afterwards.  The program is re-run on the reference machine of Tx.tla.    *)
EXTENDS Tx, Json

Trace == ndJsonDeserialize("obs.ndjson")
VARIABLES l, bad
tvars == <<l, bad, st, hist>>

ToSet(s) == {s[i] : i \in DOMAIN s}

TInit == l = 1 /\ bad = <<>> /\ st = InitSt /\ hist = <<>>

Judge(e) ==
  LET m == Run(e.prog, ~e.nonest) IN
  [rows   |-> ToSet(e.rows) = m.durable /\ Len(e.rows) = Cardinality(m.durable),   \* C04: all / nothing / exactly the own writes
   result |-> e.result = m.result,                                                \* errors and panics come back unchanged
   conn   |-> e.inuse = 0 /\ e.opentx = 0,                                        \* connection returned, no open transaction
   reads  |-> e.reads = m.reads]

Step1 ==
  /\ l <= Len(Trace)
  /\ LET e == Trace[l]  j == Judge(e) IN
       bad' = IF j.rows /\ j.result /\ j.conn /\ j.reads THEN bad
              ELSE Append(bad, [i |-> l, case |-> e.case, rows |-> j.rows, result |-> j.result, conn |-> j.conn, reads |-> j.reads,
                                exp_result |-> Run(e.prog, ~e.nonest).result])
  /\ l' = l + 1 /\ UNCHANGED <<st, hist>>

Finish ==
  /\ l = Len(Trace) + 1
  /\ ndJsonSerialize("verdict.ndjson", <<[n |-> Len(Trace), bad |-> bad]>>)
  /\ l' = l + 1 /\ UNCHANGED <<bad, st, hist>>

TraceSpec == TInit /\ [][Step1 \/ Finish]_tvars
=============================================================================
