------------------------------ MODULE Clauses ------------------------------
(***************************************************************************)
(* X01 (beyond the listed properties) -- how chained builder calls fold     *)
(* into the clause tree, and the SELECT statement the query callback builds *)
(* from it.  The abstract statement is                                      *)
(*   cols    columns named by the last Select (field / column / raw text)   *)
(*   sexpr   the last Select given WITH arguments (an expression), or Nil;  *)
(*           a later column Select clears it, it wins over cols otherwise   *)
(*   dist    Distinct was called;  omits  the last Omit                     *)
(*   where / group / having   conjuncts and columns, in call order          *)
(*   ocols / oexpr / hasOrd   ORDER BY columns, or an expression            *)
(*   hasLim / lim / off       LIMIT clause (lim = Nil: no limit given)      *)
(*   lock    "nil" or the last locking clause                               *)
(* A call is a token of the vocabulary Calls; Apply transcribes the merge   *)
(* rule of the clause it adds (clause/*.go MergeClause, chainable_api.go),  *)
(* Render the text and bound values of callbacks.BuildQuerySQL with the      *)
(* generic clause builders.  Deliberate oddities of the code are modelled   *)
(* as they are and named:                                                   *)
(*   D1  Limit(0) after a limit keeps the earlier limit (MergeClause)       *)
(*   D2  Distinct() after an expression Select does not reach it: the flag  *)
(*       is read when Select is called                                      *)
(*   D3  Having without Group renders "  HAVING" (nameless clause)          *)
(*   D4  a LIMIT clause that renders nothing leaves a separating blank      *)
(*   D5  an Order column call after an Order expression drops the           *)
(*       expression; Distinct without columns renders "*"                   *)
(*   D6  Count discards an expression Select                                *)
(***************************************************************************)
EXTENDS Integers, Sequences, TLC

Nil == "nil"
Table == "cls"
DBNames == <<"id", "name", "age", "tag">>
Q(s) == "`" \o s \o "`"
TQ(s) == Q(Table) \o "." \o Q(s)

Calls == {"sel_name", "sel_field", "sel_list", "sel_raw", "sel_expr", "distinct", "distinct_name", "omit_tag", "omit_age",
          "where_age", "where_id", "order_name", "order_agedesc", "order_col_id_desc", "order_reorder_tag", "order_empty",
          "order_expr", "limit_m1", "limit_0", "limit_2", "limit_5", "offset_m1", "offset_0", "offset_3",
          "group_name", "group_age", "having_cnt", "having_age", "lock_update", "lock_share"}
Fins == {"find", "take", "first", "last", "count", "delete"}

NoExpr == [sql |-> "", vars |-> <<>>, dist |-> FALSE]
Empty == [cols |-> <<>>, hasSx |-> FALSE, sexpr |-> NoExpr, dist |-> FALSE, omits |-> <<>>, where |-> <<>>, group |-> <<>>,
          having |-> <<>>, ocols |-> <<>>, hasOx |-> FALSE, oexpr |-> NoExpr, hasOrd |-> FALSE,
          hasLim |-> FALSE, limSet |-> FALSE, lim |-> 0, off |-> 0, lock |-> Nil]

Col(n) == [t |-> Q(n), simple |-> TRUE]        \* a single column / field name
Raw(n) == [t |-> n, simple |-> FALSE]
SelCols(s, cs) == [s EXCEPT !.cols = cs, !.hasSx = FALSE, !.sexpr = NoExpr]
AddWhere(s, sql, v) == [s EXCEPT !.where = Append(@, [sql |-> sql, vars |-> <<v>>])]
AddHaving(s, sql, v) == [s EXCEPT !.having = Append(@, [sql |-> sql, vars |-> <<v>>])]
AddOrder(s, c) == [s EXCEPT !.ocols = Append(@, c), !.hasOx = FALSE, !.oexpr = NoExpr, !.hasOrd = TRUE]      \* D5: the expression goes
\* Limit.MergeClause: a nil or ZERO new limit inherits an existing one (D1)
SetLimit(s, n) == [s EXCEPT !.hasLim = TRUE, !.limSet = TRUE,
                            !.lim = IF n = 0 /\ s.hasLim /\ s.limSet THEN s.lim ELSE n,
                            !.off = IF s.hasLim /\ s.off > 0 THEN s.off ELSE 0]
\* an offset of 0 inherits a positive one, a negative offset resets it; the first clause is stored as given
SetOffset(s, n) == [s EXCEPT !.hasLim = TRUE,
                             !.off = IF ~s.hasLim THEN n
                                     ELSE IF n = 0 /\ s.off > 0 THEN s.off ELSE IF n < 0 THEN 0 ELSE n]

Apply(s, c) ==
  CASE c = "sel_name"  -> SelCols(s, <<Col("name")>>)
    [] c = "sel_field" -> SelCols(s, <<Col("name")>>)                   \* Select("Name"): the field's column
    [] c = "sel_list"  -> SelCols(s, <<Col("name"), Col("age")>>)
    [] c = "sel_raw"   -> SelCols(s, <<Raw("name, age")>>)
    [] c = "sel_expr"  -> [s EXCEPT !.hasSx = TRUE, !.sexpr = [sql |-> "age + ? AS x", vars |-> <<1>>, dist |-> s.dist]]   \* D2
    [] c = "distinct"  -> [s EXCEPT !.dist = TRUE]
    [] c = "distinct_name" -> SelCols([s EXCEPT !.dist = TRUE], <<Col("name")>>)
    [] c = "omit_tag"  -> [s EXCEPT !.omits = <<"tag">>]
    [] c = "omit_age"  -> [s EXCEPT !.omits = <<"age">>]
    [] c = "where_age" -> AddWhere(s, "age > ?", 7)
    [] c = "where_id"  -> AddWhere(s, "id <> ?", 9)
    [] c = "order_name"        -> AddOrder(s, Raw("name"))
    [] c = "order_agedesc"     -> AddOrder(s, Raw("age desc"))
    [] c = "order_col_id_desc" -> AddOrder(s, [t |-> Q("id") \o " DESC", simple |-> FALSE])
    [] c = "order_reorder_tag" -> [s EXCEPT !.ocols = <<Col("tag")>>, !.hasOx = FALSE, !.oexpr = NoExpr, !.hasOrd = TRUE]
    [] c = "order_empty"       -> s
    [] c = "order_expr"        -> [s EXCEPT !.hasOx = TRUE, !.oexpr = [sql |-> "id = ? DESC", vars |-> <<4>>, dist |-> FALSE], !.hasOrd = TRUE]
    [] c = "limit_m1" -> SetLimit(s, -1)
    [] c = "limit_0"  -> SetLimit(s, 0)
    [] c = "limit_2"  -> SetLimit(s, 2)
    [] c = "limit_5"  -> SetLimit(s, 5)
    [] c = "offset_m1" -> SetOffset(s, -1)
    [] c = "offset_0"  -> SetOffset(s, 0)
    [] c = "offset_3"  -> SetOffset(s, 3)
    [] c = "group_name" -> [s EXCEPT !.group = Append(@, Col("name"))]
    [] c = "group_age"  -> [s EXCEPT !.group = Append(@, Col("age"))]
    [] c = "having_cnt" -> AddHaving(s, "count(id) > ?", 1)
    [] c = "having_age" -> AddHaving(s, "max(age) < ?", 90)
    [] c = "lock_update" -> [s EXCEPT !.lock = "UPDATE"]
    [] c = "lock_share"  -> [s EXCEPT !.lock = "SHARE NOWAIT"]

\* what the finisher adds before building: Take = Limit(1); First / Last = Limit(1) + ORDER BY primary key
Finish(s, fin) ==
  CASE fin = "find"  -> s
    [] fin = "take"  -> SetLimit(s, 1)
    [] fin = "first" -> AddOrder(SetLimit(s, 1), [t |-> TQ("id"), simple |-> FALSE])
    [] fin = "last"  -> AddOrder(SetLimit(s, 1), [t |-> TQ("id") \o " DESC", simple |-> FALSE])
    \* Count replaces the SELECT list -- also an expression Select (D6) -- by count(*), or by COUNT(col) /
    \* COUNT(DISTINCT(col)) when exactly one plain column is selected, and drops ORDER BY unless the
    \* statement groups
    [] fin = "count" ->
         LET one == Len(s.cols) = 1 /\ s.cols[1].simple
             txt == IF ~one THEN "count(*)"
                    ELSE IF s.dist THEN "COUNT(DISTINCT(" \o s.cols[1].t \o "))" ELSE "COUNT(" \o s.cols[1].t \o ")"
         IN [s EXCEPT !.hasSx = TRUE, !.sexpr = [sql |-> txt, vars |-> <<>>, dist |-> FALSE],
                      !.hasOrd = IF Len(s.group) > 0 \/ Len(s.having) > 0 THEN s.hasOrd ELSE FALSE]

RECURSIVE Fold(_, _)
Fold(s, cs) == IF Len(cs) = 0 THEN s ELSE Fold(Apply(s, Head(cs)), Tail(cs))

RECURSIVE Join(_, _)
Join(ss, sep) == IF Len(ss) = 0 THEN "" ELSE IF Len(ss) = 1 THEN ss[1] ELSE ss[1] \o sep \o Join(Tail(ss), sep)
RECURSIVE Flat(_)
Flat(ss) == IF Len(ss) = 0 THEN <<>> ELSE ss[1] \o Flat(Tail(ss))
Texts(cs) == [i \in DOMAIN cs |-> cs[i].t]
Sqls(es) == [i \in DOMAIN es |-> es[i].sql]
VarsOf(es) == Flat([i \in DOMAIN es |-> es[i].vars])
Keep(names, drop) == SelectSeq(names, LAMBDA n : \A i \in DOMAIN drop : drop[i] # n)

\* SELECT list
SelText(s) ==
  IF s.hasSx THEN (IF s.sexpr.dist THEN "DISTINCT " ELSE "") \o s.sexpr.sql
  ELSE LET cs == IF Len(s.cols) > 0 THEN Texts(s.cols)
                 ELSE IF Len(s.omits) > 0 THEN [i \in DOMAIN Keep(DBNames, s.omits) |-> TQ(Keep(DBNames, s.omits)[i])]
                 ELSE <<>>
       IN IF Len(cs) = 0 THEN "*" ELSE (IF s.dist THEN "DISTINCT " ELSE "") \o Join(cs, ",")      \* D5
SelVars(s) == IF s.hasSx THEN s.sexpr.vars ELSE <<>>

LimShown(s) == s.limSet /\ s.lim >= 0
LimText(s) == (IF LimShown(s) THEN "LIMIT ?" ELSE "") \o (IF LimShown(s) /\ s.off > 0 THEN " " ELSE "")
              \o (IF s.off > 0 THEN "OFFSET ?" ELSE "")
LimVars(s) == (IF LimShown(s) THEN <<s.lim>> ELSE <<>>) \o (IF s.off > 0 THEN <<s.off>> ELSE <<>>)

\* the clauses in build order, each preceded by one blank when present
Render(s) ==
  [sql |-> "SELECT " \o SelText(s) \o " FROM " \o Q(Table)
           \o (IF Len(s.where) > 0 THEN " WHERE " \o Join(Sqls(s.where), " AND ") ELSE "")
           \o (IF Len(s.group) > 0 THEN " GROUP BY " \o Join(Texts(s.group), ",") ELSE IF Len(s.having) > 0 THEN " " ELSE "")  \* D3
           \o (IF Len(s.having) > 0 THEN " HAVING " \o Join(Sqls(s.having), " AND ") ELSE "")
           \o (IF s.hasOrd THEN " ORDER BY " \o (IF s.hasOx THEN s.oexpr.sql ELSE Join(Texts(s.ocols), ",")) ELSE "")
           \o (IF s.hasLim THEN " " \o LimText(s) ELSE "")                                                                    \* D4
           \o (IF s.lock # Nil THEN " FOR " \o s.lock ELSE ""),
   vars |-> SelVars(s) \o VarsOf(s.where) \o VarsOf(s.having)
            \o (IF s.hasOrd /\ s.hasOx THEN s.oexpr.vars ELSE <<>>) \o (IF s.hasLim THEN LimVars(s) ELSE <<>>)]

\* Delete builds DELETE FROM ... WHERE from the conditions alone (every other clause of the chain is ignored by
\* the delete statement) and refuses to run without a condition
RenderDelete(s) ==
  [sql |-> "DELETE FROM " \o Q(Table) \o (IF Len(s.where) > 0 THEN " WHERE " \o Join(Sqls(s.where), " AND ") ELSE ""),
   vars |-> VarsOf(s.where),
   err |-> IF Len(s.where) > 0 THEN "nil" ELSE "WHERE conditions required"]
Expected(calls, fin) ==
  IF fin = "delete" THEN RenderDelete(Fold(Empty, calls))
  ELSE Render(Finish(Fold(Empty, calls), fin)) @@ [err |-> "nil"]

(***************************************************************************)
(* Exhaustive exploration: every chain of at most MaxLen calls.  The       *)
(* invariants say what a user relies on, in terms of the abstract          *)
(* statement (they hold for the transcription; the binding shows the code  *)
(* follows the transcription).                                             *)
(***************************************************************************)
CONSTANT MaxLen
VARIABLES hist, st
vars == <<hist, st>>
Init == hist = <<>> /\ st = Empty
Next == Len(hist) < MaxLen /\ \E c \in Calls : hist' = Append(hist, c) /\ st' = Apply(st, c)
Spec == Init /\ [][Next]_vars

IsPlainOrder(c) == c \in {"order_name", "order_agedesc", "order_col_id_desc"}
\* Order calls accumulate in call order (until a reorder / expression)
OrderAccumulates ==
  (\A i \in DOMAIN hist : hist[i] \notin {"order_reorder_tag", "order_expr"})
    => Len(st.ocols) = Len(SelectSeq(hist, IsPlainOrder))
\* a positive Limit(n) always decides the limit; the last positive offset survives a later Limit
LastPositiveLimitWins ==
  \A i \in DOMAIN hist : (hist[i] \in {"limit_2", "limit_5"} /\ \A j \in (i + 1)..Len(hist) : hist[j] \notin {"limit_2", "limit_5", "limit_m1"})
     => st.lim = (IF hist[i] = "limit_2" THEN 2 ELSE 5)
\* conditions, group columns and having conjuncts are never dropped by later calls
Monotone == [][Len(st.where) <= Len(st'.where) /\ Len(st.group) <= Len(st'.group) /\ Len(st.having) <= Len(st'.having)]_vars
\* the last Select decides the list
LastSelectWins ==
  LET S == {i \in DOMAIN hist : hist[i] \in {"sel_name", "sel_field", "sel_list", "sel_raw", "sel_expr", "distinct_name"}}
  IN S # {} => LET m == CHOOSE i \in S : \A j \in S : j <= i
               IN IF hist[m] = "sel_expr" THEN st.hasSx ELSE ~st.hasSx /\ Len(st.cols) > 0
=============================================================================
