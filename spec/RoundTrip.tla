----------------------------- MODULE RoundTrip -----------------------------
(***************************************************************************)
(* C03 -- what Create stores is what queries load back; keys and defaults  *)
(* land on the right in-memory record, in slice order.                     *)
(* Values are opaque canonical tokens (the canonicalisation is harness     *)
(* projection code); this module decides token equality per (record,       *)
(* column), declared defaults / auto-times for zero values, key order and  *)
(* the key back-fill arithmetic of the three create paths.                 *)
(***************************************************************************)
EXTENDS Integers, Sequences, FiniteSets, TLC

\* what a read must return for field f of record rec in event e
Expected(f, rec, e) ==
  LET g == rec.given[f.name]  z == rec.zero[f.name] IN
  IF g = "-" THEN "-"                                   \* the create mode cannot express this kind (maps)
  ELSE IF e.mode = "maps" THEN g                        \* Create from maps: no default / auto-time filling
  ELSE IF z /\ f.dflt # "" THEN f.dflt
  ELSE IF z /\ f.auto \in {"create", "update"} THEN e.now
  ELSE IF z /\ f.auto = "create_nano" THEN e.nownano
  ELSE IF z /\ f.auto \in {"create_milli", "update_milli"} THEN e.nowmilli
  ELSE IF z /\ f.auto \in {"create_sec", "update_sec"} THEN e.nowsec
  ELSE g

AutoKey(f, rec, e) == f.key /\ e.keymode = "auto" /\ ~rec.preset

FieldOK(f, rec, e) ==
  LET x == Expected(f, rec, e) IN
  \/ x = "-"
  \/ /\ (AutoKey(f, rec, e) \/ rec.found[f.name] = x)                    \* Find into structs
     /\ (AutoKey(f, rec, e) \/ rec.first[f.name] = x)                    \* First
     /\ (AutoKey(f, rec, e) \/ rec.map[f.name] \in {x, "-"})             \* Find into maps
     /\ (AutoKey(f, rec, e) \/ rec.raw[f.name] \in {x, "-"})             \* the stored row itself
     /\ (e.mode = "maps" \/ AutoKey(f, rec, e) \/ rec.mem[f.name] = x)   \* the in-memory record after Create (defaults back-filled)
     /\ (AutoKey(f, rec, e) => /\ rec.found[f.name] = rec.raw[f.name] /\ rec.first[f.name] = rec.raw[f.name]
                          /\ (e.mode = "maps" \/ rec.mem[f.name] = rec.raw[f.name]))   \* the key of the row that stores it

RecOK(rec, e) == /\ \A i \in DOMAIN e.model : FieldOK(e.model[i], rec, e)
                 /\ (e.mode # "maps" => rec.memkey = rec.rowkey)
KeyNum(tok) == tok                                       \* tokens "i:<n>" of one width class compare through the harness' mk order
EventOK(e) ==
  /\ e.err = "nil"
  /\ e.nfound = Len(e.recs)
  /\ \A i \in DOMAIN e.recs : RecOK(e.recs[i], e)
  /\ \A i, j \in DOMAIN e.recs : i # j => e.recs[i].rowkey # e.recs[j].rowkey

(***************************************************************************)
(* Key back-fill arithmetic, explored exhaustively: n records, each with   *)
(* or without a preset key; the database numbers the zero-key records      *)
(* consecutively; the three create paths assign keys to the in-memory      *)
(* records.                                                                *)
(***************************************************************************)
CONSTANTS MaxRecs
VARIABLES preset, path
Init == /\ preset \in UNION {[1..n -> BOOLEAN] : n \in 1..MaxRecs}
        /\ path \in {"returning", "lastid_reversed", "lastid_forward"}
Next == UNCHANGED <<preset, path>>
Spec == Init /\ [][Next]_<<preset, path>>

N == Len(preset)
ZeroIdx == {i \in 1..N : ~preset[i]}
Rank(i) == Cardinality({j \in ZeroIdx : j < i})          \* position among the zero-key records
First == 100
\* the key the database gives record i
DbKey(i) == IF preset[i] THEN 1000 + i ELSE First + Rank(i)
NZero == Cardinality(ZeroIdx)
\* what each path writes into the in-memory record
MemKey(i) ==
  IF preset[i] THEN 1000 + i
  ELSE CASE path = "returning" -> DbKey(i)                                    \* row i of the RETURNING result
         [] path = "lastid_reversed" -> (First + NZero - 1) - (NZero - 1 - Rank(i))   \* last id, walking backwards over zero keys
         [] OTHER -> First + Rank(i)                                          \* first id, walking forwards
\* preset keys, if any, come before all zero-key records (all-or-none included)
PrefixPreset == \E k \in 0..N : \A i \in 1..N : preset[i] <=> i <= k
\* every in-memory record carries the key of the row that stores it (documented domain for the
\* LastInsertId paths: preset keys only in front of the zero-key records)
BackfillCorrect == (path = "returning" \/ PrefixPreset) => \A i \in 1..N : MemKey(i) = DbKey(i)
KeysInSliceOrder == \A i, j \in ZeroIdx : i < j => MemKey(i) < MemKey(j)
=============================================================================
