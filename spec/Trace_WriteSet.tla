--------------------------- MODULE Trace_WriteSet ---------------------------
(* Trace validation for C10: each event is one write on a generated model      *)
(* type with the cell-by-cell diff of the table before/after.                  *)
EXTENDS WriteSet, Json

Trace == ndJsonDeserialize("obs.ndjson")
VARIABLES l, bad
tvars == <<l, bad, m, w>>
TInit == /\ l = 1 /\ bad = <<>>
         /\ m = <<[name |-> "ID", perm |-> "rw", auto |-> FALSE, key |-> TRUE, dflt |-> FALSE, dbd |-> FALSE]>>
         /\ w = [op |-> "update", pay |-> <<>>, sel |-> {}, star |-> FALSE, omit |-> {}]

WSEv ==
  /\ l <= Len(Trace)
  /\ LET e == Trace[l]
         wr == [op |-> e.op, pay |-> e.pay, sel |-> ToSet(e.sel), star |-> e.star, omit |-> ToSet(e.omit)]
         keys == {e.model[i].name : i \in {j \in DOMAIN e.model : e.model[j].key}}
         exp == Written(e.model, wr) \ keys        \* the key keeps its value (updates) or is generated (create)
         isCreate == e.op \in {"create", "create_map", "create_maps", "create_slice"}
         got == (IF isCreate THEN ToSet(e.obs.newrow) ELSE ToSet(e.obs.changed)) \ keys
         \* an update whose write set is empty builds no statement: nothing changes
         cols == exp \subseteq got /\ got \subseteq (exp \cup Open(e.model, wr))
         rows == e.obs.others = <<>> /\ (isCreate => e.obs.changed = <<>>) /\ (~isCreate => e.obs.newrow = <<>>)
         now == \A i \in DOMAIN e.model :
                   (e.model[i].auto /\ e.model[i].name \in exp /\ ~isCreate) =>
                       ((e.model[i].name \in ToSet(e.obs.autonow)) <=> AutoNow(wr, e.model[i]))
         ok == e.obs.err = "nil" \/ (exp = {} /\ e.obs.err # "nil")
     IN bad' = IF cols /\ rows /\ now /\ ok THEN bad
               ELSE Append(bad, [i |-> l, case |-> e.case, cols |-> cols, rows |-> rows, now |-> now, ok |-> ok, exp |-> exp])
  /\ l' = l + 1 /\ UNCHANGED <<m, w>>
Finish ==
  /\ l = Len(Trace) + 1
  /\ ndJsonSerialize("verdict.ndjson", <<[n |-> Len(Trace), bad |-> bad]>>)
  /\ l' = l + 1 /\ UNCHANGED <<bad, m, w>>
TraceSpec == TInit /\ [][WSEv \/ Finish]_tvars
=============================================================================
