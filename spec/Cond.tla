-------------------------------- MODULE Cond --------------------------------
(***************************************************************************)
(* C02 / C08 / C09 -- property-level reference semantics of chained        *)
(* conditions.                                                             *)
(*                                                                         *)
(* A condition AST node is a record with field k:                          *)
(*   atom : [k, col, op, v]   op in eq ne lt gt like ; v a cell            *)
(*          [k, col, op |-> "in", vs]   vs a sequence of cells             *)
(*          [k, col, op |-> "isnull"]                                      *)
(*   and / or : [k, xs]   xs a sequence of nodes                           *)
(*   not      : [k, x]                                                     *)
(* A unit is one call of Where / Not / Or (conn W / N / O), an inline      *)
(* finisher condition or the model's primary key:                          *)
(*   [conn, form, ast]  (+ sub: a chain, for form "group")                 *)
(* form in raw named map struct expr group pk empty.  form "empty" is a    *)
(* call that supplies no condition (empty string/map/slice, zero struct).  *)
(* A row is a record with cell fields id a b s and BOOLEAN del (soft-deleted)*)
(***************************************************************************)
EXTENDS Values, TLC

RECURSIVE Eval(_, _)
Eval(row, c) ==
  CASE c.k = "atom" ->
         (CASE c.op = "isnull" -> B3(IsNull(row[c.col]))
            [] c.op = "in" -> IF IsNull(row[c.col]) THEN (IF Len(c.vs) = 0 THEN "F" ELSE "U")
                              ELSE OrSet({Cmp(row[c.col], "eq", c.vs[i]) : i \in DOMAIN c.vs})
            [] OTHER -> Cmp(row[c.col], c.op, c.v))
    [] c.k = "and" -> AndSet({Eval(row, c.xs[i]) : i \in DOMAIN c.xs})
    [] c.k = "or"  -> OrSet({Eval(row, c.xs[i]) : i \in DOMAIN c.xs})
    [] c.k = "not" -> Not3(Eval(row, c.x))

\* ---- units ---------------------------------------------------------------
\* Every evaluation operator takes a set `dev` of named deviations of the implementation
\* (DESIGN section 7). dev = {} is the property-level reference semantics; a non-empty dev gives
\* the semantics the current code is known to have instead, used only to recognise a listed
\* known finding precisely (a violation that is not explained by it is still reported).
RECURSIVE ChainVal(_, _, _), UnitVal(_, _, _), Members(_), UnitPos(_, _, _), F15Val(_, _, _)

IsEmptyUnit(u) == u.form = "empty"
Effective(ch) == SelectSeq(ch, LAMBDA u : ~IsEmptyUnit(u))

\* value of the unit as written (before a Not call negates it)
UnitPos(row, u, dev) == IF u.form = "group" THEN ChainVal(row, u.sub, dev) ELSE Eval(row, u.ast)

\* the member conditions of an AND-combined unit (what a Not call must make false, each)
Members(u) ==
  CASE u.form \in {"map", "struct", "expr"} ->
         IF u.ast.k = "and" THEN [i \in DOMAIN u.ast.xs |-> [kind |-> "ast", ast |-> u.ast.xs[i]]]
         ELSE <<[kind |-> "ast", ast |-> u.ast]>>
    [] u.form = "group" ->
         \* a sub-builder of only Where/Not calls is AND-combined; one containing Or is an OR unit
         \* (a sub-builder holding a single Where call is that call's unit)
         LET sub == Effective(u.sub) IN
         IF Len(sub) = 1 /\ sub[1].conn # "N" THEN Members(sub[1])
         ELSE IF Len(sub) >= 1 /\ \A i \in DOMAIN sub : sub[i].conn # "O"
         THEN [i \in DOMAIN sub |-> [kind |-> "unit", unit |-> sub[i]]]
         ELSE <<[kind |-> "whole"]>>
    [] OTHER -> <<[kind |-> "whole"]>>           \* raw, named, pk: indivisible

MemberVal(row, u, m, dev) ==
  CASE m.kind = "ast"  -> Eval(row, m.ast)
    [] m.kind = "unit" -> UnitVal(row, m.unit, dev)
    [] OTHER           -> UnitPos(row, u, dev)

\* F8 (known finding): Not over an AND-combined unit none of whose members has a native negation
\* (members are groups, raw strings, Not/And/Or expressions) is rendered NOT (m1 AND m2 ...), a member
\* that is an OR expression being joined with OR; it deviates when a second or later member is not
\* an OR expression.
\* (a sub-builder holding a single Where call of one condition is that condition)
RECURSIVE NoNativeUnit(_)
NoNativeUnit(u) ==
  \/ u.conn = "N"
  \/ u.form \in {"raw", "named"}
  \/ (u.form = "group" /\ LET sub == Effective(u.sub) IN
                            ~(Len(sub) = 1 /\ sub[1].conn = "W" /\ ~NoNativeUnit(sub[1])))
  \/ (u.form \notin {"raw", "named", "group"} /\ u.ast.k # "atom")
NoNative(m) ==
  CASE m.kind = "ast"  -> m.ast.k # "atom"
    [] m.kind = "unit" -> NoNativeUnit(m.unit)
    [] OTHER -> TRUE
IsOrGroup(m) == m.kind = "ast" /\ m.ast.k = "or"
F8Members(ms) == /\ Len(ms) >= 2
                 /\ \A i \in DOMAIN ms : NoNative(ms[i])
                 /\ \E i \in 2..Len(ms) : ~IsOrGroup(ms[i])
\* the run structure of NOT (m1 j2 m2 j3 m3 ...): a new OR-run starts at each OR-expression member
MRunOf(ms, i) == Cardinality({j \in 2..i : IsOrGroup(ms[j])})

\* F15 (known finding): Not over a grouped sub-builder that contains Or (an OR unit, to be negated
\* as a whole) is flattened and negated member by member, the negations AND-ed, when some member
\* has a native negation.  That is right for a group that is an OR of single conditions
\* (NOT (a OR b) = NOT a AND NOT b) and wrong as soon as the group has an AND-run of two or more.
\* dev "f15" gives exactly that alternative semantics (F15Val below).
RECURSIVE GroupCore(_)
GroupCore(u) == IF u.form = "group" /\ Len(Effective(u.sub)) = 1 /\ Effective(u.sub)[1].conn = "W"
                   /\ Effective(u.sub)[1].form = "group"
                THEN GroupCore(Effective(u.sub)[1]) ELSE u
F15Unit(u) ==
  /\ u.conn = "N" /\ u.form = "group"
  /\ LET sub == Effective(GroupCore(u).sub) IN
       /\ \E i \in 2..Len(sub) : sub[i].conn = "O"
       /\ \E i \in DOMAIN sub : sub[i].conn = "W" /\ ~NoNative([kind |-> "unit", unit |-> sub[i]])

\* the current code's reading of a Not over an F15-shaped group: every call of the sub-builder
\* negated on its own (a map / struct of several columns is one AND group), all AND-ed
F15Val(row, u, dev) ==
  LET sub == Effective(GroupCore(u).sub) IN
  AndSet({Not3(UnitVal(row, sub[i], dev)) : i \in DOMAIN sub})

UnitVal(row, u, dev) ==
  IF u.conn = "N" /\ "f15" \in dev /\ F15Unit(u) THEN F15Val(row, u, dev)
  ELSE IF u.conn = "N"
  THEN LET ms == Members(u) IN
       IF Len(ms) >= 2
       THEN IF "f8" \in dev /\ F8Members(ms)
            THEN Not3(OrSet({ AndSet({MemberVal(row, u, ms[i], dev) : i \in {j \in DOMAIN ms : MRunOf(ms, j) = r}})
                              : r \in {MRunOf(ms, i) : i \in DOMAIN ms} }))
            ELSE AndSet({Not3(MemberVal(row, u, ms[i], dev)) : i \in DOMAIN ms})
       ELSE Not3(UnitPos(row, u, dev))
  ELSE UnitPos(row, u, dev)

\* ---- chains: OR of AND-runs, left to right, standard SQL precedence -------
\* run index of position i = number of Or units at positions 2..i
RunOf(ch, i) == Cardinality({j \in 2..i : ch[j].conn = "O"})
ChainVal(row, ch0, dev) ==
  LET ch == Effective(ch0) IN
  IF Len(ch) = 0 THEN "T"
  ELSE OrSet({ AndSet({UnitVal(row, ch[i], dev) : i \in {j \in DOMAIN ch : RunOf(ch, j) = r}})
               : r \in {RunOf(ch, i) : i \in DOMAIN ch} })

Live(tbl) == {i \in DOMAIN tbl : ~tbl[i].del}
\* row positions selected by a chain
SelAllD(ch, tbl, dev) == {i \in DOMAIN tbl : ChainVal(tbl[i], ch, dev) = "T"}
SelAll(ch, tbl) == SelAllD(ch, tbl, {})
\* what a finisher sees: soft-delete models hide marked rows unless Unscoped
SelD(ch, tbl, soft, unscoped, dev) ==
  IF soft /\ ~unscoped THEN SelAllD(ch, tbl, dev) \cap Live(tbl) ELSE SelAllD(ch, tbl, dev)
Sel(ch, tbl, soft, unscoped) == SelD(ch, tbl, soft, unscoped, {})
Ids(tbl, P) == {tbl[i].id.v : i \in P}

LeadingOr(ch) == LET e == Effective(ch) IN Len(e) > 0 /\ e[1].conn = "O"
HasTopOr(ch) == LET e == Effective(ch) IN \E i \in 2..Len(e) : e[i].conn = "O"
NEffective(ch) == Len(Effective(ch))

RECURSIVE F15In(_)
F15In(u) == F15Unit(u) \/ (u.form = "group" /\ \E i \in DOMAIN u.sub : F15In(u.sub[i]))
F15Chain(ch) == \E i \in DOMAIN ch : F15In(ch[i])

RECURSIVE F8Unit(_)
F8Unit(u) ==
  \/ (u.conn = "N" /\ F8Members(Members(u)))
  \/ (u.form = "group" /\ \E i \in DOMAIN u.sub : F8Unit(u.sub[i]))
F8Chain(ch) == \E i \in DOMAIN ch : F8Unit(ch[i])
=============================================================================
