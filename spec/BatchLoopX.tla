----------------------------- MODULE BatchLoopX -----------------------------
(* TLC: on the (table size, batch size, limit, offset) grid the integer     *)
(* machine BatchLoop!StepFn (proved for all sizes by Apalache) produces     *)
(* exactly the batch sizes of the sequence-level transcription              *)
(* Reads!ImplBatches, which trace validation compares with the real code.   *)
EXTENDS Reads
VARIABLE blst
BL == INSTANCE BatchLoop WITH N <- 0, B <- 1, L <- 0, O <- 0, st <- blst

RECURSIVE Sizes(_, _)
Sizes(c, s) == IF s.pc = "done" THEN <<>>
               ELSE LET t == BL!StepFn(c, s) IN (IF t.got > 0 THEN <<t.got>> ELSE <<>>) \o Sizes(c, t)
XInit == Init /\ blst = 0
XNext == UNCHANGED <<n, b, lim, off, blst>>
XSpec == XInit /\ [][XNext]_<<n, b, lim, off, blst>>
SameSizes == LET c == [n |-> n, b |-> b, l |-> (IF lim = NoLimit THEN 0 ELSE lim), o |-> off]
                 bsq == ImplBatches(KeySeq, b, lim, off)
             IN Sizes(c, BL!Start(c)) = [i \in DOMAIN bsq |-> Len(bsq[i])]
=============================================================================
