----------------------------- MODULE Trace_Cond -----------------------------
(* Trace validation for the condition family.  Events:                       *)
(*   T : table contents (sets the abstract store)                             *)
(*   Q : one finisher executed on a chain, with what the real code returned / *)
(*       changed.  The reference semantics of Cond decides each Q event.      *)
(* Failures are recorded per property: sel (C02 exact selection), leak (C08   *)
(* soft-deleted rows seen or touched), guard (C09 missing-where guard).        *)
EXTENDS Cond, Json

Trace == ndJsonDeserialize("obs.ndjson")

VARIABLES l, tblS, tblP, bad
tvars == <<l, tblS, tblP, bad>>
Tbl(e) == IF e.soft THEN tblS ELSE tblP

ToSet(s) == {s[i] : i \in DOMAIN s}
Min(S0) == CHOOSE x \in S0 : \A y \in S0 : x <= y

\* ---- judgement of one Q event --------------------------------------------------------------
PkUnit(e) == [conn |-> "W", form |-> "pk", sep |-> "sp", sub |-> <<>>,
              ast |-> [k |-> "atom", col |-> "id", op |-> "eq", v |-> I(e.pk)]]
\* F13 (known finding): on a soft-delete model the chain is grouped before the model's primary key
\* is added, so the key is AND-ed with the whole chain instead of with its last OR-run.
F13Applies(e) == e.soft /\ ~e.unscoped /\ e.pk # 0 /\ HasTopOr(e.chain)
FullChain(e, dev) ==
  IF e.pk = 0 THEN e.chain
  ELSE IF "f13" \in dev /\ F13Applies(e)
       THEN <<[conn |-> "W", form |-> "group", sep |-> "sp", ast |-> [k |-> "none"], sub |-> e.chain], PkUnit(e)>>
       ELSE Append(e.chain, PkUnit(e))

IsWrite(e) == e.fin \in {"update", "updates", "updatecol", "updatecols", "delete"}
Guarded(e) == IsWrite(e) /\ NEffective(FullChain(e, {})) = 0 /\ ~e.allow

GuardOK(e) ==
  IF Guarded(e)
  THEN /\ e.err = "missing_where" /\ e.execs = 0 /\ e.commits = 0
       /\ e.changed = <<>> /\ e.marked = <<>> /\ e.removed = <<>> /\ e.other = <<>>
  ELSE e.err # "missing_where"

DeadIds(tbl) == Ids(tbl, DOMAIN tbl \ Live(tbl))
LeakOK(e) ==
  (e.soft /\ ~e.unscoped) =>
     /\ ToSet(e.ids) \cap DeadIds(Tbl(e)) = {}
     /\ (ToSet(e.changed) \cup ToSet(e.marked) \cup ToSet(e.removed) \cup ToSet(e.other)) \cap DeadIds(Tbl(e)) = {}
     /\ (e.fin = "delete" => e.removed = <<>>)            \* Delete marks, never removes

SelOK(e, dev) ==
  LET ch  == FullChain(e, dev)
      tbl == Tbl(e)
      exp == Ids(tbl, SelD(ch, tbl, e.soft, e.unscoped, dev))
  IN IF Guarded(e) THEN TRUE
     ELSE CASE e.fin \in {"find", "pluck"} -> e.err = "nil" /\ ToSet(e.ids) = exp /\ Len(e.ids) = Cardinality(exp)
            [] e.fin = "count" -> e.err = "nil" /\ e.n = Cardinality(exp)
            [] e.fin = "first" -> IF exp = {} THEN e.err = "not_found"
                                  ELSE e.err = "nil" /\ e.ids = <<Min(exp)>>
            [] e.fin = "delete" ->
                 /\ e.err = "nil" /\ e.changed = <<>> /\ e.other = <<>>
                 /\ IF e.soft /\ ~e.unscoped THEN ToSet(e.marked) = exp /\ e.removed = <<>>
                    ELSE ToSet(e.removed) = exp /\ e.marked = <<>>
            [] OTHER -> \* update family
                 /\ e.err = "nil" /\ ToSet(e.changed) = exp
                 /\ e.marked = <<>> /\ e.removed = <<>> /\ e.other = <<>>

\* deviations that apply to this event, and whether they explain the observation exactly
Devs(e) == (IF F8Chain(e.chain) THEN {"f8"} ELSE {}) \cup (IF F13Applies(e) THEN {"f13"} ELSE {})
           \cup (IF F15Chain(e.chain) THEN {"f15"} ELSE {})
\* (a deviation that applies by shape need not manifest: e.g. the key of a Delete is added before the
\* soft-delete grouping; so any non-empty subset of the applicable deviations may explain the event)
Explaining(e) == {D \in SUBSET Devs(e) : D # {} /\ SelOK(e, D)}
Explained(e) == Explaining(e) # {}
Tags(e) == IF Explained(e) THEN CHOOSE D \in Explaining(e) : \A D2 \in Explaining(e) : Cardinality(D) <= Cardinality(D2) ELSE {}

TInit == l = 1 /\ tblS = <<>> /\ tblP = <<>> /\ bad = <<>>

TableEvent ==
  /\ l <= Len(Trace) /\ Trace[l].ev = "T"
  /\ IF Trace[l].soft THEN tblS' = Trace[l].table /\ UNCHANGED tblP
                       ELSE tblP' = Trace[l].table /\ UNCHANGED tblS
  /\ l' = l + 1 /\ UNCHANGED bad

QueryEvent ==
  /\ l <= Len(Trace) /\ Trace[l].ev = "Q"
  /\ LET e == Trace[l]
         sel == SelOK(e, {})  leak == LeakOK(e)  guard == GuardOK(e)
     IN bad' = IF sel /\ leak /\ guard THEN bad
               ELSE Append(bad, [i |-> l, case |-> e.case, sel |-> sel, leak |-> leak, guard |-> guard,
                                 lead_or |-> LeadingOr(e.chain),
                                 f8 |-> ("f8" \in Tags(e)), f13 |-> ("f13" \in Tags(e)), f15 |-> ("f15" \in Tags(e))])
  /\ l' = l + 1 /\ UNCHANGED <<tblS, tblP>>

Finish ==
  /\ l = Len(Trace) + 1
  /\ ndJsonSerialize("verdict.ndjson", <<[n |-> Len(Trace), bad |-> bad]>>)
  /\ l' = l + 1 /\ UNCHANGED <<tblS, tblP, bad>>

TNext == TableEvent \/ QueryEvent \/ Finish
TraceSpec == TInit /\ [][TNext]_tvars
=============================================================================
