----------------------------- MODULE PrepStmtMC -----------------------------
EXTENDS PrepStmt
\* plans: same text / different text, direct / in a transaction, prepare ok / fail, use ok / ErrBadConn
PlansAll == [q : {"q1", "q2"}, tx : BOOLEAN, prep : {"ok", "fail"}, use : {"ok", "badconn"}]
PlansSmall == [q : {"q1"}, tx : BOOLEAN, prep : {"ok", "fail"}, use : {"ok", "badconn"}] \cup [q : {"q2"}, tx : {FALSE}, prep : {"ok"}, use : {"ok"}]
=============================================================================
