-------------------------- MODULE Trace_RoundTrip --------------------------
EXTENDS RoundTrip, Json
Trace == ndJsonDeserialize("obs.ndjson")
VARIABLES l, bad
tvars == <<l, bad, preset, path>>
TInit == l = 1 /\ bad = <<>> /\ preset = <<TRUE>> /\ path = "returning"
RTEv ==
  /\ l <= Len(Trace)
  /\ LET e == Trace[l]
         ok == EventOK(e)
         badfields == IF ok THEN {} ELSE {<<e.recs[i].mk, e.model[k].name>> : i \in DOMAIN e.recs, k \in DOMAIN e.model} \cap
                        {p \in {<<e.recs[i].mk, e.model[k].name>> : i \in DOMAIN e.recs, k \in DOMAIN e.model} :
                            \E i \in DOMAIN e.recs, k \in DOMAIN e.model :
                               p = <<e.recs[i].mk, e.model[k].name>> /\ ~FieldOK(e.model[k], e.recs[i], e)}
     IN bad' = IF ok THEN bad ELSE Append(bad, [i |-> l, case |-> e.case, fields |-> badfields])
  /\ l' = l + 1 /\ UNCHANGED <<preset, path>>
Finish ==
  /\ l = Len(Trace) + 1
  /\ ndJsonSerialize("verdict.ndjson", <<[n |-> Len(Trace), bad |-> bad]>>)
  /\ l' = l + 1 /\ UNCHANGED <<bad, preset, path>>
TraceSpec == TInit /\ [][RTEv \/ Finish]_tvars
=============================================================================
