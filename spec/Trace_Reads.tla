---------------------------- MODULE Trace_Reads ----------------------------
(* Trace validation for C15: one event per chain with what every read path    *)
(* returned; Reads.tla gives the rows each path must produce.                 *)
EXTENDS Reads, Json

Trace == ndJsonDeserialize("obs.ndjson")
VARIABLES l, bad
tvars == <<l, bad, n, b, lim, off>>
TInit == l = 1 /\ bad = <<>> /\ n = 0 /\ b = 1 /\ lim = NoLimit /\ off = 0

ToSet(s) == {s[i] : i \in DOMAIN s}
BagEq(s, t) == Len(s) = Len(t) /\ \A x \in ToSet(s) \cup ToSet(t) :
                  Cardinality({i \in DOMAIN s : s[i] = x}) = Cardinality({i \in DOMAIN t : t[i] = x})
\* with an unspecified order only the multiset is determined (and with limit/offset not even that)
SeqOK(e, got) ==
  LET exp == Expected(e)
      paged == EffLimit(e.calls, NoLimit) # NoLimit \/ EffOffset(e.calls, 0) # 0
  IN IF e.order # "" THEN got = exp
     ELSE IF ~paged THEN BagEq(got, exp)
     ELSE Len(got) = Len(exp) /\ ToSet(got) \subseteq ToSet(Ids(SelSeq(e.table, e.cond))) /\ Cardinality(ToSet(got)) = Len(got)

Multi(e) ==
  LET o == e.obs IN
  /\ o.find_err = "nil" /\ o.find_ptr_err = "nil" /\ o.maps_err = "nil" /\ o.rows_err = "nil" /\ o.scan_err = "nil" /\ o.pluck_err = "nil" /\ o.count_find_err = "nil"
  /\ SeqOK(e, o.find) /\ o.find_ra = Len(o.find)                   \* RowsAffected equals the rows returned
  /\ (e.order # "" => (o.find_ptr = o.find /\ o.maps = o.find /\ o.rows = o.find /\ o.scan = o.find /\ o.pluck = o.find /\ o.count_find = o.find))
  /\ SeqOK(e, o.find_ptr) /\ SeqOK(e, o.maps) /\ SeqOK(e, o.rows) /\ SeqOK(e, o.scan) /\ SeqOK(e, o.pluck) /\ SeqOK(e, o.count_find)   \* (count_find: a read continued from what Count returns)

Single(e) ==
  LET o == e.obs
      sel == Ids(SelSeq(e.table, e.cond))
      none == Len(sel) = 0
  IN /\ o.count_err = "nil" /\ o.count = Len(sel)                                          \* Count = rows Find returns
     /\ o.scan_prim_err = "nil" /\ o.scan_prim = Len(sel)
     /\ IF none THEN o.first_err = "not_found" /\ o.last_err = "not_found" /\ o.take_err = "not_found" /\ o.take_map_err = "not_found"
        ELSE /\ o.first_err = "nil" /\ o.first = sel[1] /\ o.first_ra = 1                  \* lowest key
             /\ o.last_err = "nil" /\ o.last = sel[Len(sel)]                               \* highest key
             /\ o.take_err = "nil" /\ o.take \in ToSet(sel)
             /\ o.take_map_err = "nil" /\ o.take_map = sel[1]
     /\ o.find_one_err = "nil" /\ o.find_one = (IF none THEN 0 ELSE sel[1])                \* Find into one struct: no error when empty

Batched(e) ==
  LET sel == Ids(SelSeq(e.table, e.cond))
      page == Page(sel, EffOffset(e.calls, 0), EffLimit(e.calls, NoLimit))
  IN \A i \in DOMAIN e.obs.fib :
        LET f == e.obs.fib[i] IN
        /\ f.err = "nil"
        /\ FlattenR(f.batches) = page                                  \* exactly the rows Find would, once each, in key order
        /\ \A j \in DOMAIN f.batches : Len(f.batches[j]) >= 1 /\ Len(f.batches[j]) <= f.size
        /\ f.ra = Len(page)
        \* model drift indicator (not a verdict): the loop transcription predicts the same batches
ImplSame(e) ==
  LET sel == Ids(SelSeq(e.table, e.cond)) IN
  \A i \in DOMAIN e.obs.fib :
     e.obs.fib[i].batches = ImplBatches(sel, e.obs.fib[i].size, EffLimit(e.calls, NoLimit), EffOffset(e.calls, 0))

ReadEv ==
  /\ l <= Len(Trace)
  /\ LET e == Trace[l]  m == Multi(e)  s == Single(e)  f == Batched(e) IN
       bad' = IF m /\ s /\ f THEN bad
              ELSE Append(bad, [i |-> l, case |-> e.case, multi |-> m, single |-> s, batched |-> f, impl_same |-> ImplSame(e)])
  /\ l' = l + 1 /\ UNCHANGED <<n, b, lim, off>>
Finish ==
  /\ l = Len(Trace) + 1
  /\ ndJsonSerialize("verdict.ndjson", <<[n |-> Len(Trace), bad |-> bad]>>)
  /\ l' = l + 1 /\ UNCHANGED <<bad, n, b, lim, off>>
TraceSpec == TInit /\ [][ReadEv \/ Finish]_tvars
=============================================================================
