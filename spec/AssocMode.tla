----------------------------- MODULE AssocMode -----------------------------
(***************************************************************************)
(* C12 -- association mode keeps stored links, counts and the in-memory    *)
(* value in agreement.                                                     *)
(* State: links (set of <<parent, target>>), alive (targets that exist),   *)
(* next (key the next new target receives).  kind in has_many has_one      *)
(* belongs_to many2many poly polyone. An operation is                            *)
(*   [op |-> "append"|"replace"|"delete"|"clear", p |-> parent,            *)
(*    ts |-> sequence of target ids, 0 standing for a new (unsaved) one]   *)
(* Step is shared by the exhaustive exploration and by trace validation.   *)
(***************************************************************************)
EXTENDS Integers, Sequences, FiniteSets, TLC

ToSet(s) == {s[i] : i \in DOMAIN s}
Of(links, p) == {l[2] : l \in {x \in links : x[1] = p}}
Functional(kind) == kind \in {"has_one", "belongs_to", "polyone"}        \* a parent has at most one target
Exclusive(kind)  == kind \in {"has_many", "has_one", "poly", "polyone"}  \* a target has at most one parent (the link is its foreign key)
Parents == {1, 2}
\* p = 0: the operation is issued on the slice of all parents (Delete); Count/Find are then read on parent 1
PSet(a) == IF a.p = 0 THEN Parents ELSE {a.p}
QP(a) == IF a.p = 0 THEN 1 ELSE a.p

\* resolve the 0 entries of ts to fresh keys next, next+1, ...
RECURSIVE Resolve(_, _)
Resolve(ts, next) == IF Len(ts) = 0 THEN <<>>
                     ELSE IF ts[1] = 0 THEN <<next>> \o Resolve(Tail(ts), next + 1)
                     ELSE <<ts[1]>> \o Resolve(Tail(ts), next)
NewCount(ts) == Cardinality({i \in DOMAIN ts : ts[i] = 0})

Step(st, a, kind) ==
  LET T  == ToSet(Resolve(a.ts, st.next))
      mine == {l \in st.links : l[1] = a.p}
      steal == IF Exclusive(kind) THEN {l \in st.links : l[2] \in T /\ l[1] # a.p} ELSE {}
      add == {<<a.p, t>> : t \in T}
      links2 ==
        CASE a.op = "append" -> IF Functional(kind) THEN (IF T = {} THEN st.links ELSE ((st.links \ mine) \ steal) \cup add)
                                ELSE (st.links \ steal) \cup add
          [] a.op = "replace" -> ((st.links \ mine) \ steal) \cup add
          [] a.op = "delete"  -> st.links \ {<<p, t>> : p \in PSet(a), t \in T}
          [] OTHER            -> st.links \ mine                      \* clear
  IN [links |-> links2, alive |-> IF a.op \in {"append", "replace"} THEN st.alive \cup T ELSE st.alive,   \* saving a target (re)creates it
      next |-> st.next + NewCount(a.ts),
      removed |-> {l[2] : l \in (st.links \ links2)}]              \* targets that lost a link in this step

\* what the real system showed after the step
ObsOK(st, a, o, kind, unscoped, single) ==
  /\ o.err = "nil"
  /\ ToSet(o.links) = st.links /\ Len(o.links) = Cardinality(st.links)       \* stored links are exactly those defined
  /\ o.count = Cardinality(Of(st.links, QP(a)))                              \* Count
  /\ ToSet(o.found) = Of(st.links, QP(a)) /\ Len(o.found) = o.count          \* Find
  /\ (single => ToSet(o.mem) = Of(st.links, QP(a)))                          \* distinct records in the in-memory field
  /\ \A i \in DOMAIN o.mems : ToSet(o.mems[i].mem) = Of(st.links, o.mems[i].p) \* ... of every record the operation was issued on
  /\ IF unscoped THEN (st.alive \ st.removed) \subseteq ToSet(o.alive)       \* only removed targets may be deleted
     ELSE ToSet(o.alive) = st.alive                                          \* associated records survive

RECURSIVE RunFrom(_, _, _, _, _, _)
\* returns the index of the first operation whose observation disagrees (0 = none)
RunFrom(st, ops, i, kind, unscoped, single) ==
  IF i > Len(ops) THEN 0
  ELSE LET s2 == Step(st, ops[i], kind) IN
       IF ~ObsOK(s2, ops[i], ops[i].obs, kind, unscoped, single) THEN i
       ELSE RunFrom([s2 EXCEPT !.alive = ToSet(ops[i].obs.alive)], ops, i + 1, kind, unscoped, single)

(***************************************************************************)
(* Exhaustive exploration: every operation sequence over 2 parents and 3   *)
(* existing targets; shape invariants of the link set per relation kind.   *)
(***************************************************************************)
CONSTANTS Kind, MaxOps
Existing == {1, 2, 3}
\* (three targets: the driver passes the first alone and the other two together as one slice argument)
ArgSets == {<<>>, <<1>>, <<2>>, <<3>>, <<0>>, <<1, 2>>, <<2, 0>>, <<3, 1>>, <<2, 2>>, <<1, 1, 2>>, <<3, 3, 0>>}
Ops == {[op |-> o, p |-> p, ts |-> ts] : o \in {"append", "replace"}, p \in Parents,
                                        ts \in (IF Functional(Kind) THEN {x \in ArgSets : Len(x) = 1} ELSE ArgSets)}
       \cup {[op |-> "delete", p |-> p, ts |-> ts] : p \in Parents \cup {0}, ts \in {x \in ArgSets : Len(x) >= 1 /\ \A i \in DOMAIN x : x[i] # 0}}
       \cup {[op |-> "clear", p |-> p, ts |-> <<>>] : p \in Parents}
InitSt == [links |-> IF Functional(Kind) THEN {<<1, 1>>} ELSE {<<1, 1>>, <<1, 2>>}, alive |-> Existing, next |-> 4, removed |-> {}]
VARIABLES st, hist
Init == st = InitSt /\ hist = <<>>
Next == Len(hist) < MaxOps /\ \E a \in Ops : st' = Step(st, a, Kind) /\ hist' = Append(hist, a)
Spec == Init /\ [][Next]_<<st, hist>>

ShapeOK == /\ (Functional(Kind) => \A p \in Parents : Cardinality(Of(st.links, p)) <= 1)
           /\ (Exclusive(Kind) => \A l1, l2 \in st.links : l1[2] = l2[2] => l1 = l2)
           /\ \A l \in st.links : l[2] \in st.alive
\* the last operation did what its name says for its own parent
LastOpOK == hist = <<>> \/
  LET a == hist[Len(hist)]  T == UNION {Of(st.links, p) : p \in PSet(a)} IN
  CASE a.op = "clear"   -> T = {}
    [] a.op = "replace" -> Cardinality(T) <= Len(a.ts) /\ \A i \in DOMAIN a.ts : a.ts[i] # 0 => a.ts[i] \in T
    [] a.op = "delete"  -> T \cap ToSet(a.ts) = {}
    [] OTHER            -> \A i \in DOMAIN a.ts : a.ts[i] # 0 => a.ts[i] \in T
=============================================================================
