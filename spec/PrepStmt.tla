------------------------------ MODULE PrepStmt ------------------------------
(***************************************************************************)
(* C14 -- the prepared-statement cache (prepare_stmt.go), one action per   *)
(* critical section / per step between two instrumentation points:         *)
(*   Lookup      RLock; look up; RUnlock                  -> hit | miss    *)
(*   LockCheck   Lock; re-check; insert in-progress entry; Unlock          *)
(*   DriverPrep  conn.PrepareContext outside the lock     -> ok | fail     *)
(*   Publish     Lock; entry.Stmt = stmt; Unlock; close(prepared)          *)
(*   FailDelete  prepareErr = err; Lock; delete(Stmts, query); Unlock;     *)
(*               close(prepared)                                           *)
(*   Wait        <-entry.prepared                                          *)
(*   UseBegin    stmt.ExecContext / Tx.StmtContext(stmt).ExecContext: the  *)
(*               call reaches the driver (or finds the statement closed)   *)
(*   UseEnd      the driver answers: ok | ErrBadConn                       *)
(*   Evict       ErrBadConn: Lock; go stmt.Close(); delete(Stmts, query)   *)
(*   Reset/Close Lock; spawn one closer per entry; swap / nil the map      *)
(*   Closer(e)   <-e.prepared; e.Stmt.Close() is called (spawned by Reset) *)
(*   EStart(e)   the "go stmt.Close()" an eviction spawns gets going       *)
(*   CloseDone(e) Stmt.Close acquires the statement's close lock: it waits *)
(*               for the calls in flight, and while it waits new calls on  *)
(*               the statement queue behind it (sync.RWMutex)              *)
(* Each goroutine runs one operation with a fixed plan [q, tx, prep, use]. *)
(* FixB = TRUE models the repaired deletion (only one's own entry).        *)
(***************************************************************************)
EXTENDS Integers, Sequences, FiniteSets, TLC

CONSTANTS G,          \* goroutines, e.g. {1, 2, 3}
          Qs,         \* statement texts
          Plans,      \* set of admissible plans [q, tx, prep, use]
          Admins,     \* subset of {"none", "reset", "close"}
          FixB,       \* deletion by identity (fix of F7b)
          FixC,       \* a transaction does not wait for a pool-level preparation in progress (fix of F19)
          ConnChoices \* pool sizes to explore, e.g. {1, 3}

VARIABLES nconn, plan, admin, stmts, closedMap, ent, nent, pc, held, res, closers, eclosers, pend, live, hist
vars == <<nconn, plan, admin, stmts, closedMap, ent, nent, pc, held, res, closers, eclosers, pend, live, hist>>
view == <<nconn, plan, admin, stmts, closedMap, ent, nent, pc, held, res, closers, eclosers, pend, live>>

NoEnt == 0
Init ==
  /\ plan \in [G -> Plans]
  /\ admin \in Admins
  /\ nconn \in ConnChoices
  /\ stmts = [q \in Qs |-> NoEnt] /\ closedMap = FALSE
  /\ ent = <<>> /\ nent = 0
  /\ pc = [g \in G |-> "start"] /\ held = [g \in G |-> NoEnt] /\ res = [g \in G |-> "none"]
  /\ closers = {} /\ eclosers = {} /\ pend = {} /\ live = [q \in Qs |-> 0] /\ hist = <<>>

Usable(e, g) == e # NoEnt /\ (~ent[e].tx \/ plan[g].tx)
Log(g, a) == hist' = Append(hist, [g |-> g, a |-> a])
Q(g) == plan[g].q

\* connections of the pool in use: a transaction holds one from Begin to Commit/Rollback, a direct
\* call for the time it is in flight; a pool-level Prepare takes one for the duration of DriverPrep
Holds(g) == IF plan[g].tx THEN pc[g] \notin {"start", "done"} ELSE pc[g] = "inflight"
Free == nconn - Cardinality({g \in DOMAIN pc : Holds(g)})

Begin(g) ==
  /\ pc[g] = "start" /\ plan[g].tx /\ Free > 0
  /\ Log(g, "begin")
  /\ pc' = [pc EXCEPT ![g] = "begun"]
  /\ UNCHANGED <<nconn, plan, admin, stmts, closedMap, ent, nent, held, res, closers, eclosers, pend, live>>

Lookup(g) ==
  /\ pc[g] = IF plan[g].tx THEN "begun" ELSE "start"
  /\ IF ~closedMap /\ Usable(stmts[Q(g)], g)
     THEN held' = [held EXCEPT ![g] = stmts[Q(g)]] /\ pc' = [pc EXCEPT ![g] = "hit"]
     ELSE held' = held /\ pc' = [pc EXCEPT ![g] = "miss"]
  /\ Log(g, "lookup")
  /\ UNCHANGED <<nconn, plan, admin, stmts, closedMap, ent, nent, res, closers, eclosers, pend, live>>

LockCheck(g) ==
  /\ pc[g] = "miss"
  /\ Log(g, "lockcheck")
  /\ IF ~closedMap /\ Usable(stmts[Q(g)], g)
     THEN /\ held' = [held EXCEPT ![g] = stmts[Q(g)]] /\ pc' = [pc EXCEPT ![g] = "hit"]
          /\ UNCHANGED <<stmts, ent, nent, res>>
     ELSE IF closedMap
     THEN /\ res' = [res EXCEPT ![g] = "invalid_db"] /\ pc' = [pc EXCEPT ![g] = "done"]
          /\ UNCHANGED <<stmts, ent, nent, held>>
     ELSE /\ nent' = nent + 1
          /\ ent' = Append(ent, [q |-> Q(g), tx |-> plan[g].tx, prepared |-> FALSE, err |-> FALSE, hasStmt |-> FALSE, open |-> FALSE])
          /\ stmts' = [stmts EXCEPT ![Q(g)] = nent + 1]          \* replaces a transaction-only entry
          /\ held' = [held EXCEPT ![g] = nent + 1] /\ pc' = [pc EXCEPT ![g] = "inserted"]
          /\ res' = res
  /\ UNCHANGED <<nconn, plan, admin, closedMap, closers, eclosers, pend, live>>

DriverPrep(g) ==
  /\ pc[g] = "inserted"
  /\ (plan[g].tx \/ Free > 0)                       \* db.PrepareContext needs a pooled connection
  /\ Log(g, "driverprep")
  /\ IF plan[g].prep = "ok"
     THEN /\ ent' = [ent EXCEPT ![held[g]].open = ~plan[g].tx]    \* a statement prepared on a *sql.Tx is closed with it
          \* counted for the current generation only if the entry is still the cached one
          /\ live' = IF plan[g].tx \/ closedMap \/ stmts[Q(g)] # held[g] THEN live ELSE [live EXCEPT ![Q(g)] = @ + 1]
          /\ pc' = [pc EXCEPT ![g] = "prepared"]
     ELSE /\ pc' = [pc EXCEPT ![g] = "prepfail"] /\ UNCHANGED <<ent, live>>
  /\ UNCHANGED <<nconn, plan, admin, stmts, closedMap, nent, held, res, closers, eclosers, pend>>

Publish(g) ==
  /\ pc[g] = "prepared"
  /\ Log(g, "publish")
  /\ ent' = [ent EXCEPT ![held[g]].hasStmt = TRUE, ![held[g]].prepared = TRUE]
  /\ pc' = [pc EXCEPT ![g] = "use"]
  /\ UNCHANGED <<nconn, plan, admin, stmts, closedMap, nent, held, res, closers, eclosers, pend, live>>

FailDelete(g) ==
  /\ pc[g] = "prepfail"
  /\ Log(g, "faildelete")
  /\ ent' = [ent EXCEPT ![held[g]].err = TRUE, ![held[g]].prepared = TRUE]
  /\ IF closedMap \/ (FixB /\ stmts[Q(g)] # held[g])
     THEN UNCHANGED <<stmts, live>>
     ELSE /\ stmts' = [stmts EXCEPT ![Q(g)] = NoEnt]               \* without FixB: whatever entry is there now
          /\ live' = [live EXCEPT ![Q(g)] = 0]
  /\ res' = [res EXCEPT ![g] = "prep_err"] /\ pc' = [pc EXCEPT ![g] = "done"]
  /\ UNCHANGED <<nconn, plan, admin, closedMap, nent, held, closers, eclosers, pend>>

\* (fix of F19) a transaction that finds a pool-level preparation still in progress does not wait
\* for it -- it holds a connection the preparation may need -- but prepares on its own connection
GoesDirect(g) == FixC /\ plan[g].tx /\ ~ent[held[g]].tx /\ ~ent[held[g]].prepared
Direct(g) ==
  /\ pc[g] = "hit" /\ GoesDirect(g)
  /\ Log(g, "direct")
  /\ pc' = [pc EXCEPT ![g] = "txdirect"] /\ held' = [held EXCEPT ![g] = NoEnt]
  /\ UNCHANGED <<nconn, plan, admin, stmts, closedMap, ent, nent, res, closers, eclosers, pend, live>>

TxPrep(g) ==
  /\ pc[g] = "txdirect"
  /\ Log(g, "txprep")
  /\ IF plan[g].prep = "ok"
     THEN pc' = [pc EXCEPT ![g] = "use"] /\ res' = res
     ELSE pc' = [pc EXCEPT ![g] = "done"] /\ res' = [res EXCEPT ![g] = "prep_err"]
  /\ UNCHANGED <<nconn, plan, admin, stmts, closedMap, ent, nent, held, closers, eclosers, pend, live>>

Wait(g) ==
  /\ pc[g] = "hit" /\ ent[held[g]].prepared
  /\ Log(g, "wait")
  /\ IF ent[held[g]].err
     THEN res' = [res EXCEPT ![g] = "prep_err"] /\ pc' = [pc EXCEPT ![g] = "done"]
     ELSE res' = res /\ pc' = [pc EXCEPT ![g] = "use"]
  /\ UNCHANGED <<nconn, plan, admin, stmts, closedMap, ent, nent, held, closers, eclosers, pend, live>>

UseBegin(g) ==
  /\ pc[g] = "use"
  /\ Log(g, "use")
  \* database/sql reports a closed *sql.Stmt before the driver is reached; inside a transaction
  \* Tx.StmtContext re-prepares a closed or foreign statement on the transaction's connection
  /\ (plan[g].tx \/ held[g] \notin pend)                 \* a direct call queues behind a pending Close
  /\ IF ~plan[g].tx /\ ~ent[held[g]].open
     THEN pc' = [pc EXCEPT ![g] = "done"] /\ res' = [res EXCEPT ![g] = "stmt_closed"]
     ELSE /\ (plan[g].tx \/ Free > 0)                \* a direct call needs a pooled connection
          /\ pc' = [pc EXCEPT ![g] = "inflight"] /\ res' = res
  /\ UNCHANGED <<nconn, plan, admin, stmts, closedMap, ent, nent, held, closers, eclosers, pend, live>>

\* the driver call is in flight between UseBegin and UseEnd; a direct (non-transaction) user holds
\* the *sql.Stmt's close lock for that time
UseEnd(g) ==
  /\ pc[g] = "inflight"
  /\ Log(g, "useend")
  /\ IF plan[g].use = "badconn"
     THEN pc' = [pc EXCEPT ![g] = "badconn"] /\ res' = res
     ELSE pc' = [pc EXCEPT ![g] = "done"] /\ res' = [res EXCEPT ![g] = "ok"]
  /\ UNCHANGED <<nconn, plan, admin, stmts, closedMap, ent, nent, held, closers, eclosers, pend, live>>

InUse(e) == \E g \in DOMAIN pc : pc[g] = "inflight" /\ held[g] = e /\ ~plan[g].tx

Evict(g) ==
  /\ pc[g] = "badconn"
  /\ Log(g, "evict")
  /\ eclosers' = (IF held[g] = NoEnt THEN eclosers ELSE eclosers \cup {held[g]}) /\ closers' = closers
  /\ IF closedMap \/ (FixB /\ stmts[Q(g)] # held[g])
     THEN UNCHANGED <<stmts, live>>
     ELSE stmts' = [stmts EXCEPT ![Q(g)] = NoEnt] /\ live' = [live EXCEPT ![Q(g)] = 0]
  /\ res' = [res EXCEPT ![g] = "badconn"] /\ pc' = [pc EXCEPT ![g] = "done"]
  /\ UNCHANGED <<nconn, plan, admin, closedMap, ent, nent, held, pend>>

Admin ==
  /\ admin \in {"reset", "close"}
  /\ hist' = Append(hist, [g |-> 0, a |-> admin])
  /\ closers' = closers \cup {stmts[q] : q \in {x \in Qs : stmts[x] # NoEnt}}
  /\ stmts' = [q \in Qs |-> NoEnt] /\ live' = [q \in Qs |-> 0]
  /\ closedMap' = (admin = "close")
  /\ admin' = "done"
  /\ UNCHANGED <<nconn, plan, ent, nent, pc, held, res, eclosers, pend>>

Closer(e) ==
  /\ e \in closers /\ ent[e].prepared
  /\ hist' = Append(hist, [g |-> 0 - e, a |-> "closer"])
  /\ closers' = closers \ {e} /\ pend' = pend \cup {e}
  /\ UNCHANGED <<nconn, plan, admin, stmts, closedMap, ent, nent, pc, held, res, live, eclosers>>

EStart(e) ==
  /\ e \in eclosers
  /\ hist' = Append(hist, [g |-> 0 - e, a |-> "estart"])
  /\ eclosers' = eclosers \ {e} /\ pend' = pend \cup {e}
  /\ UNCHANGED <<nconn, plan, admin, stmts, closedMap, ent, nent, pc, held, res, live, closers>>

CloseDone(e) ==
  /\ e \in pend /\ ~InUse(e)
  /\ hist' = Append(hist, [g |-> 0 - e, a |-> "closed"])
  /\ ent' = [ent EXCEPT ![e].open = FALSE]
  /\ pend' = pend \ {e}
  /\ UNCHANGED <<nconn, plan, admin, stmts, closedMap, nent, pc, held, res, live, closers, eclosers>>

Procs == DOMAIN pc      \* = G; the trace specification replays schedules of differing goroutine counts
AllDone == \A g \in Procs : pc[g] = "done"
Quiescent == AllDone /\ closers = {} /\ eclosers = {} /\ pend = {} /\ admin \in {"none", "done"}
Next == \/ \E g \in G : Begin(g) \/ Direct(g) \/ TxPrep(g) \/ Lookup(g) \/ LockCheck(g) \/ DriverPrep(g) \/ Publish(g) \/ FailDelete(g) \/ Wait(g) \/ UseBegin(g) \/ UseEnd(g) \/ Evict(g)
        \/ Admin
        \/ \E e \in closers : Closer(e)
        \/ \E e \in eclosers : EStart(e)
        \/ \E e \in pend : CloseDone(e)
        \/ (Quiescent /\ UNCHANGED vars)
\* behaviours for replay: the eviction's "go stmt.Close()" has no instrumentation point and a
\* Close proceeds as soon as it can, so the replayed schedules let both happen at once (the
\* exhaustive model keeps them asynchronous)
NextReplay == IF eclosers # {} THEN \E e \in eclosers : EStart(e)
              ELSE IF \E e \in pend : ~InUse(e) THEN \E e \in {x \in pend : ~InUse(x)} : CloseDone(e)
              ELSE Next
Spec == Init /\ [][Next]_vars /\ WF_vars(Next)

(***************************************************************************)
(* Properties                                                              *)
(***************************************************************************)
\* a statement text is prepared at most once per cache generation (outside transactions)
AtMostOncePerGeneration == \A q \in Qs : live[q] <= 1
\* a failed preparation is not cached
FailureNotCached == \A q \in Qs : stmts[q] # NoEnt => ~ent[stmts[q]].err
\* ... and is reported to every waiter of that entry
FailureToAllWaiters == \A g \in Procs : (pc[g] = "done" /\ held[g] # NoEnt /\ ent[held[g]].err) => res[g] = "prep_err"
\* every statement the cache prepared is closed once it is evicted, reset or closed
NoLeak == Quiescent => \A e \in DOMAIN ent : (ent[e].open /\ ~ent[e].tx) => (~closedMap /\ stmts[ent[e].q] = e)
\* an operation fails only by an injected fault, or cleanly once the cache is closed
Transparent == \A g \in Procs : pc[g] = "done" =>
   \/ res[g] = "ok"
   \/ (res[g] = "prep_err" /\ \E h \in Procs : plan[h].prep = "fail" /\ plan[h].q = plan[g].q)
   \/ (res[g] = "badconn" /\ plan[g].use = "badconn")
   \/ (res[g] \in {"invalid_db", "stmt_closed"} /\ closedMap)
\* F7(a) (known finding): a holder of a cached statement across a concurrent Reset
TransparentButF7a == \A g \in Procs : pc[g] = "done" =>
   \/ res[g] = "ok"
   \/ (res[g] = "prep_err" /\ \E h \in Procs : plan[h].prep = "fail" /\ plan[h].q = plan[g].q)
   \/ (res[g] = "badconn" /\ plan[g].use = "badconn")
   \/ (res[g] \in {"invalid_db", "stmt_closed"} /\ closedMap)
   \/ (res[g] = "stmt_closed" /\ admin = "done")
   \/ (res[g] = "stmt_closed" /\ \E h \in Procs : h # g /\ plan[h].use = "badconn" /\ held[h] = held[g])   \* ... or across another goroutine's ErrBadConn eviction
\* every goroutine completes
Termination == <>AllDone
=============================================================================
