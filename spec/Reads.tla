------------------------------- MODULE Reads -------------------------------
(***************************************************************************)
(* C15 -- all read paths agree; batched reads visit every row exactly once *)
(* in key order.                                                           *)
(* A table is a sequence of rows [id, v] (v an integer or -1 for NULL)     *)
(* sorted by id.  A chain has an optional condition v > gt, an order       *)
(* ("" unspecified, "asc", "desc" on the key) and a sequence of Limit /    *)
(* Offset calls [k, n].                                                    *)
(***************************************************************************)
EXTENDS Integers, Sequences, FiniteSets, TLC

NoLimit == -1
\* later positive values override earlier ones, negative values cancel
RECURSIVE EffLimit(_, _), EffOffset(_, _)
EffLimit(calls, cur) ==
  IF Len(calls) = 0 THEN cur
  ELSE LET c == calls[1] IN
       EffLimit(Tail(calls), IF c.k = "limit" THEN (IF c.n > 0 THEN c.n ELSE IF c.n < 0 THEN NoLimit ELSE cur) ELSE cur)
EffOffset(calls, cur) ==
  IF Len(calls) = 0 THEN cur
  ELSE LET c == calls[1] IN
       EffOffset(Tail(calls), IF c.k = "offset" THEN (IF c.n > 0 THEN c.n ELSE IF c.n < 0 THEN 0 ELSE cur) ELSE cur)

\* v > gt, or (eq >= 0) the two conditions v > gt OR v = eq joined by Or in the chain  (-1 stands for NULL)
\* cond.lone: the chain's only condition is Or(v = eq) -- a lone Or reads as that condition
\* cond.ne: Where(v > gt).Or(v = eq).Where(v <> ne) = a OR (b AND c)
Matches(r, cond) == ~cond.on \/ (r.v # -1 /\ (IF cond.lone THEN r.v = cond.eq
                                                     ELSE (r.v > cond.gt \/ (cond.eq >= 0 /\ r.v = cond.eq /\ (cond.ne < 0 \/ r.v # cond.ne)))))
SelSeq(tbl, cond) == SelectSeq(tbl, LAMBDA r : Matches(r, cond))          \* key order (the table is sorted by id)
Ids(rows) == [i \in DOMAIN rows |-> rows[i].id]
Rev(s) == [i \in DOMAIN s |-> s[Len(s) + 1 - i]]
Page(s, off, lim) ==
  LET a == IF off >= Len(s) THEN <<>> ELSE SubSeq(s, off + 1, Len(s))
  IN IF lim = NoLimit \/ lim >= Len(a) THEN a ELSE SubSeq(a, 1, lim)

\* the rows a multi-row read path must produce, in order (order "" = unspecified: compare as bags)
Expected(e) ==
  LET s == Ids(SelSeq(e.table, e.cond))
      o == IF e.order = "desc" THEN Rev(s) ELSE s
  IN Page(o, EffOffset(e.calls, 0), EffLimit(e.calls, NoLimit))

\* reference batching: chunks of size <= n of the page in key order
RECURSIVE Chunks(_, _)
Chunks(s, n) == IF Len(s) = 0 THEN <<>> ELSE IF Len(s) <= n THEN <<s>> ELSE <<SubSeq(s, 1, n)>> \o Chunks(SubSeq(s, n + 1, Len(s)), n)
RECURSIVE FlattenR(_)
FlattenR(bs) == IF Len(bs) = 0 THEN <<>> ELSE bs[1] \o FlattenR(Tail(bs))

(***************************************************************************)
(* Implementation shape: the FindInBatches loop as written (key cursor,    *)
(* totalSize, batch-size adjustment, offset cancelled after the first      *)
(* query).  ids: matching keys in key order.                               *)
(***************************************************************************)
RECURSIVE Loop(_, _, _, _, _, _, _, _)
\* rest: keys not yet passed by the cursor; first: still the first query (offset applies)
Loop(rest, first, off, bs, total, ra, batch, acc) ==
  LET avail == IF first THEN (IF off >= Len(rest) THEN <<>> ELSE SubSeq(rest, off + 1, Len(rest))) ELSE rest
      got == IF Len(avail) <= bs THEN avail ELSE SubSeq(avail, 1, bs)
      n == Len(got)
      ra2 == ra + n
      b2 == batch + 1
      acc2 == IF n # 0 THEN Append(acc, got) ELSE acc
  IN IF n < bs THEN acc2
     ELSE IF total > 0 /\ total <= ra2 THEN acc2
     ELSE LET bs2 == IF total > 0 /\ (total \div bs) = b2 THEN total % bs ELSE bs
              \* cursor: everything after the last key delivered
              lastpos == (IF first THEN off ELSE 0) + n
          IN Loop(SubSeq(rest, lastpos + 1, Len(rest)), FALSE, 0, bs2, total, ra2, b2, acc2)
ImplBatches(ids, batchSize, lim, off) ==
  LET total == IF lim = NoLimit THEN 0 ELSE lim
      bs == IF total > 0 /\ batchSize > total THEN total ELSE batchSize
  IN Loop(ids, TRUE, off, bs, total, 0, 0, <<>>)

CONSTANTS MaxN, MaxB
VARIABLES n, b, lim, off
Init == n \in 0..MaxN /\ b \in 1..MaxB /\ lim \in {NoLimit} \cup 1..MaxB /\ off \in 0..MaxB
Next == UNCHANGED <<n, b, lim, off>>
Spec == Init /\ [][Next]_<<n, b, lim, off>>
KeySeq == [i \in 1..n |-> i]
\* the loop delivers exactly the page, once each, in key order, in batches no larger than requested
BatchesOK == LET bs == ImplBatches(KeySeq, b, lim, off) IN
             /\ FlattenR(bs) = Page(KeySeq, off, lim)
             /\ \A i \in DOMAIN bs : Len(bs[i]) >= 1 /\ Len(bs[i]) <= b
=============================================================================
