package cond

import (
	"encoding/json"
	"flag"
	"fmt"
	"math/rand"
	"os"

	"gorm.io/gorm"

	"verifharness/hx"
)

func init() {
	hx.Register("cond-replay", replay)
	hx.Register("cond-random", random)
	hx.Register("cond-selftest", selftest)
	hx.Register("cond-one", one)
}

// Flat is the flat unit description enumerated by TLC (spec/CondGen.tla).
type Flat struct {
	Conn  string `json:"conn"`
	Form  string `json:"form"`
	Shape string `json:"shape"` // atom and or not
	X     string `json:"x"`
	Y     string `json:"y"`
	Sep   string `json:"sep"`
}

func atomOf(name string) *Node {
	switch name {
	case "A":
		return Atom("a", "eq", CI(1))
	case "B":
		return Atom("b", "eq", CI(1))
	case "C":
		return Atom("s", "eq", CS("ab"))
	}
	panic("atom " + name)
}

// Expand turns a flat unit into a Unit.
func (f Flat) Expand() Unit {
	u := Unit{Conn: f.Conn, Form: f.Form, Sep: f.Sep, Case: "upper"}
	if f.Form == "empty" {
		u.Empty = f.Shape
		if f.Sep == "inl" {
			u.Inline, u.Sep, u.Conn = true, "sp", "W"
		}
		return u
	}
	x := atomOf(f.X)
	var y *Node
	if f.Y != "" && f.Y != "-" {
		y = atomOf(f.Y)
	}
	if f.Form == "group" {
		switch f.Shape {
		case "atom":
			u.Sub = []Unit{{Conn: "W", Form: "raw", Ast: x, Case: "upper"}}
		case "and":
			u.Sub = []Unit{{Conn: "W", Form: "raw", Ast: x, Case: "upper"}, {Conn: "W", Form: "map", Ast: y}}
		case "or":
			u.Sub = []Unit{{Conn: "W", Form: "raw", Ast: x, Case: "upper"}, {Conn: "O", Form: "raw", Ast: y, Case: "upper"}}
		case "not":
			u.Sub = []Unit{{Conn: "N", Form: "raw", Ast: x, Case: "upper"}}
		case "args":
			// one call, several condition arguments
			third := map[string]string{"AB": "C", "BC": "A", "AC": "B"}[f.X+f.Y]
			u.Multi = true
			u.Sub = []Unit{{Conn: "W", Form: "group", Sub: []Unit{{Conn: "W", Form: "raw", Ast: x, Case: "upper"}, {Conn: "O", Form: "raw", Ast: y, Case: "upper"}}},
				{Conn: "W", Form: "expr", Ast: atomOf(third)}}
		case "orx":
			u.Sub = []Unit{{Conn: "W", Form: "expr", Ast: Or(x, y)}}
		case "andx":
			u.Sub = []Unit{{Conn: "W", Form: "expr", Ast: And(x, y)}}
		}
		return u
	}
	switch f.Shape {
	case "atom":
		u.Ast = x
	case "and":
		u.Ast = And(x, y)
	case "or":
		u.Ast = Or(x, y)
	case "not":
		u.Ast = Not(x)
	}
	return u
}

type flatCase struct {
	Chain []Flat `json:"chain"`
}

func emitT(w *hx.Writer, caseNo int, soft bool, t []TRow) {
	w.Emit(hx.M{"ev": "T", "case": caseNo, "soft": soft, "table": TableJSON(t)})
}

func runAll(w *hx.Writer, envs map[bool]*Env, caseNo int, chain []Unit, fins []Fin, softs []bool) error {
	for _, soft := range softs {
		for _, fin := range fins {
			o, err := envs[soft].Run(chain, fin, soft)
			if err != nil {
				return fmt.Errorf("case %d: %v", caseNo, err)
			}
			w.Emit(QEvent(caseNo, chain, fin, soft, o))
		}
	}
	return nil
}

// replay: direction A -- every chain of the TLC-enumerated space on the fixed 27-row grid.
func replay(args []string) error {
	fs := flag.NewFlagSet("cond-replay", flag.ExitOnError)
	in := fs.String("cases", "", "chains ndjson (flat units)")
	out := fs.String("out", "", "events ndjson")
	mode := fs.String("mode", "c02", "c02 | c08 | c09")
	from := fs.Int("from", 0, "")
	to := fs.Int("to", -1, "")
	fs.Parse(args)
	lines, err := hx.ReadNDJSON(*in)
	if err != nil {
		return err
	}
	if *to < 0 || *to > len(lines) {
		*to = len(lines)
	}
	w, err := hx.NewWriter(*out)
	if err != nil {
		return err
	}
	defer w.Close()
	envs := map[bool]*Env{}
	for _, soft := range []bool{true, false} {
		e, err := NewEnv(nil)
		if err != nil {
			return err
		}
		if err := e.Seed(Grid27(soft), soft); err != nil {
			return err
		}
		envs[soft] = e
		emitT(w, 0, soft, e.Table)
	}
	fins := []Fin{{Kind: "find"}, {Kind: "count"}, {Kind: "update"}, {Kind: "delete"}}
	softs := []bool{true, false}
	switch *mode {
	case "c08":
		fins = []Fin{{Kind: "find"}, {Kind: "count"}, {Kind: "first"}, {Kind: "pluck"}, {Kind: "update"}, {Kind: "updatecol"}, {Kind: "delete"},
			{Kind: "find", Unscoped: true}, {Kind: "delete", Unscoped: true},
			// a second finisher on the same chain value (the pagination idiom Count + Find): the filter a first
			// finisher added must still be there
			{Kind: "find", Prior: "count"}, {Kind: "count", Prior: "count"}, {Kind: "pluck", Prior: "count"}, {Kind: "count", Prior: "find"}}
		softs = []bool{true}
	case "c09":
		fins = []Fin{{Kind: "update"}, {Kind: "updates"}, {Kind: "updatecol"}, {Kind: "updatecols"}, {Kind: "delete"},
			{Kind: "update", Allow: "session"}, {Kind: "delete", Allow: "session"}, {Kind: "delete", Unscoped: true},
			{Kind: "update", Prior: "count", Clone: "session"}, {Kind: "delete", Prior: "noop_updates", Clone: "withctx"},
			{Kind: "updates", Prior: "find", Clone: "debug"}, {Kind: "updates", KeyPay: "map"}, {Kind: "updates", KeyPay: "struct"},
			{Kind: "delete", Unscoped: true, Late: true, Prior: "count"}, {Kind: "update", Unscoped: true, Late: true, Prior: "find"},
			{Kind: "delete", Unscoped: true, Late: true, Prior: "find", Clone: "session"}}
	}
	for i := *from; i < *to; i++ {
		var fc flatCase
		if err := json.Unmarshal(lines[i], &fc); err != nil {
			return err
		}
		chain := make([]Unit, len(fc.Chain))
		for j, f := range fc.Chain {
			chain[j] = f.Expand()
		}
		if err := runAll(w, envs, i+1, chain, fins, softs); err != nil {
			return err
		}
	}
	return nil
}

// random: direction B -- random trees to depth 3 in every form, random tables with NULLs.
func random(args []string) error {
	fs := flag.NewFlagSet("cond-random", flag.ExitOnError)
	out := fs.String("out", "", "events ndjson")
	mode := fs.String("mode", "c02", "c02 | c08 | c09")
	n := fs.Int("n", 300, "chains")
	seed := fs.Int64("seed", 1, "")
	fs.Parse(args)
	r := rand.New(rand.NewSource(*seed))
	w, err := hx.NewWriter(*out)
	if err != nil {
		return err
	}
	defer w.Close()
	envs := map[bool]*Env{}
	for _, soft := range []bool{true, false} {
		e, err := NewEnv(nil)
		if err != nil {
			return err
		}
		envs[soft] = e
	}
	cfgAllow, err := NewEnv(&gorm.Config{AllowGlobalUpdate: true})
	if err != nil {
		return err
	}
	for i := 0; i < *n; i++ {
		if i%25 == 0 { // new table contents
			nrows := 6 + r.Intn(21)
			for _, soft := range []bool{true, false} {
				t := RandTable(r, nrows, soft)
				if err := envs[soft].Seed(t, soft); err != nil {
					return err
				}
				emitT(w, i+1, soft, t)
			}
		}
		var chain []Unit
		var fins []Fin
		softs := []bool{true, false}
		switch *mode {
		case "c09":
			chain, fins = randEmptyChain(r)
			if fins[0].Allow == "config" {
				soft := r.Intn(2) == 0
				if err := cfgAllow.Seed(envs[soft].Table, soft); err != nil {
					return err
				}
				emitT(w, i+1, soft, cfgAllow.Table)
				o, err := cfgAllow.Run(chain, fins[0], soft)
				if err != nil {
					return err
				}
				w.Emit(QEvent(i+1, chain, fins[0], soft, o))
				emitT(w, i+1, soft, envs[soft].Table)
				continue
			}
		default:
			ln := 1 + r.Intn(3)
			for j := 0; j < ln; j++ {
				u := RandUnit(r, 1+r.Intn(2), true)
				u.Conn = []string{"W", "W", "W", "N", "O"}[r.Intn(5)]
				if j == 0 && u.Conn == "O" && *mode != "c08" {
					u.Conn = "W"
				}
				chain = append(chain, u)
			}
			kinds := []string{"find", "count", "update", "delete", "first", "pluck", "updates", "updatecol"}
			fin := Fin{Kind: kinds[r.Intn(len(kinds))]}
			if *mode == "c08" {
				softs = []bool{true}
				fin.Unscoped = r.Intn(4) == 0
			}
			// inline condition / model primary key variants
			if (fin.Kind == "find" || fin.Kind == "first" || fin.Kind == "delete") && r.Intn(4) == 0 {
				u := Unit{Conn: "W", Form: "raw", Ast: RandTree(r, 1, false), Sep: "sp", Case: "upper", Inline: true}
				chain = append(chain, u)
			}
			if (fin.Kind == "first" || fin.Kind == "update" || fin.Kind == "delete" || fin.Kind == "updates") && r.Intn(4) == 0 {
				fin.PK = int64(1 + r.Intn(len(envs[true].Table)))
			}
			fins = []Fin{fin}
		}
		if err := runAll(w, envs, i+1, chain, fins, softs); err != nil {
			return err
		}
	}
	return nil
}

// randEmptyChain: chains made only of condition-free calls, or with exactly one real condition.
func randEmptyChain(r *rand.Rand) ([]Unit, []Fin) {
	var chain []Unit
	empties := []string{"str", "map", "struct", "slice"}
	n := r.Intn(4)
	for j := 0; j < n; j++ {
		chain = append(chain, Unit{Conn: []string{"W", "N", "O"}[r.Intn(3)], Form: "empty", Empty: empties[r.Intn(4)]})
	}
	if r.Intn(3) == 0 { // one effective condition somewhere
		u := RandUnit(r, 1, false)
		u.Conn = []string{"W", "N", "O"}[r.Intn(3)]
		pos := r.Intn(len(chain) + 1)
		chain = append(chain[:pos], append([]Unit{u}, chain[pos:]...)...)
	}
	kinds := []string{"update", "updates", "updatecol", "updatecols", "delete"}
	fin := Fin{Kind: kinds[r.Intn(len(kinds))], Unscoped: r.Intn(4) == 0}
	switch r.Intn(6) {
	case 0:
		fin.Allow = "session"
	case 1:
		fin.Allow = "config"
	}
	extras := []string{"order", "limit", "scopes", "select", "omit", "table"}
	for _, x := range extras {
		if r.Intn(4) == 0 {
			if x == "select" && fin.Kind != "update" && fin.Kind != "updates" {
				continue
			}
			if x == "omit" && fin.Kind == "delete" {
				continue
			}
			fin.Extra = append(fin.Extra, x)
		}
	}
	if r.Intn(6) == 0 {
		fin.PK = int64(1 + r.Intn(5))
	}
	if fin.Kind == "delete" && r.Intn(3) == 0 { // empty inline condition given to Delete itself
		chain = append(chain, Unit{Conn: "W", Form: "empty", Empty: empties[r.Intn(4)], Inline: true})
	}
	if fin.Allow != "config" && r.Intn(3) == 0 { // the chain value was used before and derived again
		fin.Prior = []string{"count", "noop_updates", "find"}[r.Intn(3)]
		fin.Clone = []string{"session", "withctx", "debug", ""}[r.Intn(4)]
		fin.Late = fin.Unscoped && r.Intn(2) == 0
	}
	if fin.Kind == "updates" && r.Intn(3) == 0 {
		fin.KeyPay = []string{"map", "struct"}[r.Intn(2)]
	}
	return chain, []Fin{fin}
}

// selftest: every unit renderer evaluated alone against raw SQL (trusted-renderer check) and the
// LIKE table of spec/Values.tla against SQLite.
func selftest(args []string) error {
	e, err := NewEnv(nil)
	if err != nil {
		return err
	}
	for _, s := range likeStrings {
		for _, p := range likePatterns {
			var got bool
			if err := e.SQL.QueryRow("SELECT ? LIKE ?", s, p).Scan(&got); err != nil {
				return err
			}
			fmt.Printf("{\"s\":%q,\"p\":%q,\"like\":%v}\n", s, p, got)
		}
	}
	return nil
}

type cellJ struct {
	T string      `json:"t"`
	V interface{} `json:"v"`
}

type oneCase struct {
	Soft   bool                     `json:"soft"`
	Table  []map[string]interface{} `json:"table"`
	RChain string                   `json:"rchain"`
	RFin   string                   `json:"rfin"`
}

func cellInt(v interface{}) *int64 {
	m := v.(map[string]interface{})
	if m["t"] == "n" {
		return nil
	}
	x := int64(m["v"].(float64))
	return &x
}
func cellStr(v interface{}) *string {
	m := v.(map[string]interface{})
	if m["t"] == "n" {
		return nil
	}
	x := m["v"].(string)
	return &x
}

// one re-executes a single recorded case (replay file): table + chain + finisher.
func one(args []string) error {
	fs := flag.NewFlagSet("cond-one", flag.ExitOnError)
	in := fs.String("case", "", "replay json")
	out := fs.String("out", "", "events ndjson")
	fs.Parse(args)
	b, err := os.ReadFile(*in)
	if err != nil {
		return err
	}
	var c oneCase
	if err := json.Unmarshal(b, &c); err != nil {
		return err
	}
	var chain []Unit
	var fin Fin
	if err := json.Unmarshal([]byte(c.RChain), &chain); err != nil {
		return err
	}
	if err := json.Unmarshal([]byte(c.RFin), &fin); err != nil {
		return err
	}
	var t []TRow
	for _, r := range c.Table {
		t = append(t, TRow{ID: *cellInt(r["id"]), A: cellInt(r["a"]), B: cellInt(r["b"]), S: cellStr(r["s"]), Del: r["del"].(bool)})
	}
	var cfg *gorm.Config
	if fin.Allow == "config" {
		cfg = &gorm.Config{AllowGlobalUpdate: true}
	}
	e, err := NewEnv(cfg)
	if err != nil {
		return err
	}
	if err := e.Seed(t, c.Soft); err != nil {
		return err
	}
	w, err := hx.NewWriter(*out)
	if err != nil {
		return err
	}
	defer w.Close()
	emitT(w, 1, c.Soft, t)
	o, err := e.Run(chain, fin, c.Soft)
	if err != nil {
		return err
	}
	w.Emit(QEvent(1, chain, fin, c.Soft, o))
	return nil
}
