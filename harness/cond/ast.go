// Package cond drives the condition family (C02, C08, C09): it renders abstract condition
// units into real gorm calls, executes chains with every finisher on SQLite and logs what was
// selected / changed, for validation by spec/Trace_Cond.tla.
package cond

import (
	"database/sql"
	"fmt"
	"math/rand"
	"reflect"
	"strings"

	"gorm.io/gorm"
	"gorm.io/gorm/clause"

	"verifharness/hx"
)

// Cell is a tagged literal.
type Cell struct {
	T string      `json:"t"`
	V interface{} `json:"v,omitempty"`
}

func CI(v int64) Cell  { return Cell{T: "i", V: v} }
func CS(v string) Cell { return Cell{T: "s", V: v} }

func (c Cell) Go() interface{} {
	switch c.T {
	case "i":
		switch x := c.V.(type) {
		case float64:
			return int64(x)
		case int64:
			return x
		case int:
			return int64(x)
		}
	case "s":
		return c.V.(string)
	}
	return nil
}

func (c Cell) JSON() hx.M {
	if c.T == "n" {
		return hx.M{"t": "n"}
	}
	return hx.M{"t": c.T, "v": c.Go()}
}

// Node is a condition AST node.
type Node struct {
	K   string  `json:"k"`
	Col string  `json:"col,omitempty"`
	Op  string  `json:"op,omitempty"`
	V   *Cell   `json:"v,omitempty"`
	Vs  []Cell  `json:"vs,omitempty"`
	Xs  []*Node `json:"xs,omitempty"`
	X   *Node   `json:"x,omitempty"`
}

func (n *Node) JSON() hx.M {
	switch n.K {
	case "atom":
		m := hx.M{"k": "atom", "col": n.Col, "op": n.Op}
		switch n.Op {
		case "in":
			vs := []hx.M{}
			for _, c := range n.Vs {
				vs = append(vs, c.JSON())
			}
			m["vs"] = vs
		case "isnull":
		default:
			m["v"] = n.V.JSON()
		}
		return m
	case "and", "or":
		xs := []hx.M{}
		for _, x := range n.Xs {
			xs = append(xs, x.JSON())
		}
		return hx.M{"k": n.K, "xs": xs}
	case "not":
		return hx.M{"k": "not", "x": n.X.JSON()}
	}
	panic("bad node " + n.K)
}

func Atom(col, op string, v Cell) *Node { return &Node{K: "atom", Col: col, Op: op, V: &v} }
func In(col string, vs ...Cell) *Node   { return &Node{K: "atom", Col: col, Op: "in", Vs: vs} }
func IsNull(col string) *Node           { return &Node{K: "atom", Col: col, Op: "isnull"} }
func And(xs ...*Node) *Node             { return &Node{K: "and", Xs: xs} }
func Or(xs ...*Node) *Node              { return &Node{K: "or", Xs: xs} }
func Not(x *Node) *Node                 { return &Node{K: "not", X: x} }

// Unit is one Where/Not/Or call (or inline condition / primary key).
type Unit struct {
	Conn string `json:"conn"` // W N O
	Form string `json:"form"` // raw named map struct expr group pk pkin empty inline-raw
	Ast  *Node  `json:"ast,omitempty"`
	Sub  []Unit `json:"sub,omitempty"`
	// rendering attributes
	Sep    string `json:"sep,omitempty"`    // sp sp2 tab nl
	Case   string `json:"kw,omitempty"`     // upper lower mixed
	Parens bool   `json:"parens,omitempty"` // redundant parentheses around the whole raw text
	Empty  string `json:"empty,omitempty"`  // kind of empty form: str map struct slice
	Multi  bool   `json:"multi,omitempty"`  // expr form: top-level and given as several arguments
	Inline bool   `json:"inline,omitempty"` // given to the finisher instead of Where
	Mirror bool   `json:"mirror,omitempty"` // columns a / b are written as their mirrors ora / bandb
}

func (u Unit) JSON() hx.M {
	m := hx.M{"conn": u.Conn, "form": u.Form, "sep": u.sepName()}
	if u.Ast != nil {
		m["ast"] = u.Ast.JSON()
	} else {
		m["ast"] = hx.M{"k": "none"}
	}
	sub := []hx.M{}
	for _, s := range u.Sub {
		sub = append(sub, s.JSON())
	}
	m["sub"] = sub
	return m
}

func (u Unit) sepName() string {
	if u.Sep == "" {
		return "sp"
	}
	return u.Sep
}

func ChainJSON(ch []Unit) []hx.M {
	out := []hx.M{}
	for _, u := range ch {
		out = append(out, u.JSON())
	}
	return out
}

// ---------------------------------------------------------------------------------------
// rendering

func sepText(s string) string {
	switch s {
	case "sp2":
		return "  "
	case "tab":
		return "\t"
	case "nl":
		return "\n"
	}
	return " "
}

func kw(word, style string) string {
	switch style {
	case "lower":
		return strings.ToLower(word)
	case "mixed":
		return strings.ToUpper(word[:1]) + strings.ToLower(word[1:])
	}
	return word
}

type rawOut struct {
	sql   string
	args  []interface{}
	named []interface{}
}

func (u Unit) col(c string) string {
	if u.Mirror {
		switch c {
		case "a":
			return "ora"
		case "b":
			return "bandb"
		}
	}
	return c
}

// renderRaw renders the AST as SQL text with '?' (or @pN) holes.
func renderRaw(n *Node, u Unit, named bool, ctr *int, top bool) (string, []interface{}) {
	hole := func(v interface{}) (string, []interface{}) {
		if named {
			name := fmt.Sprintf("p%d", *ctr)
			*ctr++
			return "@" + name, []interface{}{sql.Named(name, v)}
		}
		return "?", []interface{}{v}
	}
	switch n.K {
	case "atom":
		switch n.Op {
		case "isnull":
			return u.col(n.Col) + " " + kw("IS", u.Case) + " " + kw("NULL", u.Case), nil
		case "in":
			vals := make([]interface{}, len(n.Vs))
			for i, c := range n.Vs {
				vals[i] = c.Go()
			}
			if n.Col == "s" {
				ss := make([]string, len(vals))
				for i := range vals {
					ss[i] = vals[i].(string)
				}
				h, a := hole(ss)
				return u.col(n.Col) + " " + kw("IN", u.Case) + " " + h, a
			}
			is := make([]int64, len(vals))
			for i := range vals {
				is[i] = vals[i].(int64)
			}
			h, a := hole(is)
			return u.col(n.Col) + " " + kw("IN", u.Case) + " " + h, a
		}
		ops := map[string]string{"eq": "=", "ne": "<>", "lt": "<", "gt": ">", "like": kw("LIKE", u.Case)}
		h, a := hole(n.V.Go())
		return u.col(n.Col) + " " + ops[n.Op] + " " + h, a
	case "not":
		s, a := renderRaw(n.X, u, named, ctr, false)
		return kw("NOT", u.Case) + " (" + s + ")", a
	case "and", "or":
		word := "AND"
		if n.K == "or" {
			word = "OR"
		}
		var parts []string
		var args []interface{}
		for _, x := range n.Xs {
			s, a := renderRaw(x, u, named, ctr, false)
			if x.K == "and" || x.K == "or" {
				s = "(" + s + ")"
			}
			parts = append(parts, s)
			args = append(args, a...)
		}
		sp := sepText(u.Sep)
		return strings.Join(parts, sp+kw(word, u.Case)+sp), args
	}
	panic("renderRaw " + n.K)
}

func renderExpr(n *Node, u Unit) clause.Expression {
	switch n.K {
	case "atom":
		switch n.Op {
		case "eq":
			return clause.Eq{Column: u.col(n.Col), Value: n.V.Go()}
		case "ne":
			return clause.Neq{Column: u.col(n.Col), Value: n.V.Go()}
		case "lt":
			return clause.Lt{Column: u.col(n.Col), Value: n.V.Go()}
		case "gt":
			return clause.Gt{Column: u.col(n.Col), Value: n.V.Go()}
		case "like":
			return clause.Like{Column: u.col(n.Col), Value: n.V.Go()}
		case "isnull":
			return clause.Eq{Column: u.col(n.Col), Value: nil}
		case "in":
			vals := make([]interface{}, len(n.Vs))
			for i, c := range n.Vs {
				vals[i] = c.Go()
			}
			return clause.IN{Column: u.col(n.Col), Values: vals}
		}
	case "and":
		xs := make([]clause.Expression, len(n.Xs))
		for i, x := range n.Xs {
			xs[i] = renderExpr(x, u)
		}
		return clause.And(xs...)
	case "or":
		xs := make([]clause.Expression, len(n.Xs))
		for i, x := range n.Xs {
			xs[i] = renderExpr(x, u)
		}
		return clause.Or(xs...)
	case "not":
		return clause.Not(renderExpr(n.X, u))
	}
	panic("renderExpr " + n.K + "/" + n.Op)
}

// conjuncts returns the top-level conjuncts of n.
func conjuncts(n *Node) []*Node {
	if n.K == "and" {
		return n.Xs
	}
	return []*Node{n}
}

func renderMap(n *Node, u Unit) map[string]interface{} {
	m := map[string]interface{}{}
	for _, c := range conjuncts(n) {
		switch c.Op {
		case "eq":
			m[u.col(c.Col)] = c.V.Go()
		case "isnull":
			m[u.col(c.Col)] = nil
		case "in":
			if c.Col == "s" {
				ss := []string{}
				for _, v := range c.Vs {
					ss = append(ss, v.Go().(string))
				}
				m[u.col(c.Col)] = ss
			} else {
				is := []int64{}
				for _, v := range c.Vs {
					is = append(is, v.Go().(int64))
				}
				m[u.col(c.Col)] = is
			}
		default:
			panic("map form cannot express " + c.Op)
		}
	}
	return m
}

// MapOK / StructOK say whether an AST is expressible in that form.
func MapOK(n *Node) bool {
	seen := map[string]bool{}
	for _, c := range conjuncts(n) {
		if c.K != "atom" || seen[c.Col] {
			return false
		}
		seen[c.Col] = true
		if c.Op != "eq" && c.Op != "isnull" && c.Op != "in" {
			return false
		}
	}
	return true
}
func StructOK(n *Node) bool {
	seen := map[string]bool{}
	for _, c := range conjuncts(n) {
		if c.K != "atom" || seen[c.Col] || c.Op != "eq" || c.Col == "id" {
			return false
		}
		seen[c.Col] = true
	}
	return true
}

// args renders a unit into the (query, args...) of Where/Not/Or. model selects soft/plain struct.
func (u Unit) args(base *gorm.DB, soft bool) (interface{}, []interface{}) {
	switch u.Form {
	case "raw":
		ctr := 0
		s, a := renderRaw(u.Ast, u, false, &ctr, true)
		if u.Parens {
			s = "(" + s + ")"
		}
		return s, a
	case "named":
		ctr := 0
		s, a := renderRaw(u.Ast, u, true, &ctr, true)
		if u.Parens {
			s = "(" + s + ")"
		}
		if len(a) == 0 {
			return s, nil
		}
		if u.Multi { // one map argument instead of sql.Named values
			m := map[string]interface{}{}
			for _, x := range a {
				na := x.(sql.NamedArg)
				m[na.Name] = na.Value
			}
			return s, []interface{}{m}
		}
		return s, a
	case "map":
		return renderMap(u.Ast, u), nil
	case "struct":
		r := newModel(soft, 0)
		rv := reflect.ValueOf(r).Elem()
		fa, fb := "A", "B"
		if u.Mirror {
			fa, fb = "Ora", "Bandb"
		}
		for _, c := range conjuncts(u.Ast) {
			setField(rv.FieldByName(fa).Addr().Interface().(**int64), rv.FieldByName(fb).Addr().Interface().(**int64), rv.FieldByName("S").Addr().Interface().(**string), c)
		}
		return r, nil
	case "expr":
		if u.Multi && u.Ast.K == "and" {
			xs := make([]interface{}, len(u.Ast.Xs))
			for i, x := range u.Ast.Xs {
				xs[i] = renderExpr(x, u)
			}
			return xs[0], xs[1:]
		}
		return renderExpr(u.Ast, u), nil
	case "group":
		if u.Multi && argForm(u.Sub) {
			// the members given as several arguments of one call: Where(group, expr, group ...)
			var all []interface{}
			for _, s := range u.Sub {
				q, _ := s.args(base, soft)
				all = append(all, q)
			}
			return all[0], all[1:]
		}
		sub := base
		for _, s := range u.Sub {
			sub = s.apply(sub, base, soft)
		}
		return sub, nil
	case "pkin":
		is := []int64{}
		for _, v := range u.Ast.Vs {
			is = append(is, v.Go().(int64))
		}
		return is, nil
	case "empty":
		switch u.Empty {
		case "map":
			return map[string]interface{}{}, nil
		case "struct":
			return newModel(soft, 0), nil
		case "slice":
			return []int64{}, nil
		}
		return "", nil
	}
	panic("args: form " + u.Form)
}

func setField(a, b **int64, s **string, c *Node) {
	switch c.Col {
	case "a":
		v := c.V.Go().(int64)
		*a = &v
	case "b":
		v := c.V.Go().(int64)
		*b = &v
	case "s":
		v := c.V.Go().(string)
		*s = &v
	}
}

// apply performs the call on tx. base is the reusable root handle (for grouped sub-builders).
// argForm: every member can be passed as a condition argument of its own (a sub-builder or a clause expression)
func argForm(sub []Unit) bool {
	if len(sub) < 2 {
		return false
	}
	for _, s := range sub {
		if s.Conn != "W" || !(s.Form == "group" || (s.Form == "expr" && !s.Multi)) {
			return false
		}
	}
	return true
}

func (u Unit) apply(tx, base *gorm.DB, soft bool) *gorm.DB {
	q, a := u.args(base, soft)
	switch u.Conn {
	case "W":
		return tx.Where(q, a...)
	case "N":
		return tx.Not(q, a...)
	case "O":
		return tx.Or(q, a...)
	}
	panic("conn " + u.Conn)
}

// ---------------------------------------------------------------------------------------
// random generation (direction B)

var likeStrings = []string{"ab", "abc", "b", "a_b", "ba"}
var likePatterns = []string{"a%", "%b", "a_b", "%"}

func RandAtom(r *rand.Rand) *Node {
	if r.Intn(3) == 0 { // string column
		switch r.Intn(6) {
		case 0:
			return IsNull("s")
		case 1:
			return Atom("s", "like", CS(likePatterns[r.Intn(len(likePatterns))]))
		case 2:
			n := r.Intn(3)
			vs := []Cell{}
			for i := 0; i < n; i++ {
				vs = append(vs, CS(likeStrings[r.Intn(len(likeStrings))]))
			}
			if len(vs) == 0 {
				vs = append(vs, CS("ab"))
			}
			return In("s", vs...)
		case 3:
			return Atom("s", "ne", CS(likeStrings[r.Intn(len(likeStrings))]))
		}
		return Atom("s", "eq", CS(likeStrings[r.Intn(len(likeStrings))]))
	}
	col := []string{"a", "b"}[r.Intn(2)]
	switch r.Intn(8) {
	case 0:
		return IsNull(col)
	case 1:
		n := 1 + r.Intn(3)
		vs := []Cell{}
		for i := 0; i < n; i++ {
			vs = append(vs, CI(int64(1+r.Intn(3))))
		}
		return In(col, vs...)
	case 2:
		return Atom(col, "ne", CI(int64(1+r.Intn(3))))
	case 3:
		return Atom(col, "lt", CI(int64(1+r.Intn(3))))
	case 4:
		return Atom(col, "gt", CI(int64(1+r.Intn(3))))
	}
	return Atom(col, "eq", CI(int64(1+r.Intn(3))))
}

// RandTree builds a condition tree of the given depth budget. noNotAnd: never put a not
// directly over an and (expr form: clause.Not(clause.And) is member-wise, not stated by C02).
func RandTree(r *rand.Rand, depth int, noNotAnd bool) *Node {
	if depth == 0 || r.Intn(4) == 0 {
		return RandAtom(r)
	}
	switch r.Intn(5) {
	case 0:
		x := RandTree(r, depth-1, noNotAnd)
		if noNotAnd && x.K == "and" {
			x = Or(x.Xs...)
		}
		return Not(x)
	case 1, 2:
		n := 2 + r.Intn(2)
		xs := []*Node{}
		for i := 0; i < n; i++ {
			xs = append(xs, RandTree(r, depth-1, noNotAnd))
		}
		return And(xs...)
	}
	n := 2 + r.Intn(2)
	xs := []*Node{}
	for i := 0; i < n; i++ {
		xs = append(xs, RandTree(r, depth-1, noNotAnd))
	}
	return Or(xs...)
}

func randEqConj(r *rand.Rand, forStruct bool) *Node {
	cols := []string{"a", "b", "s"}
	r.Shuffle(3, func(i, j int) { cols[i], cols[j] = cols[j], cols[i] })
	n := 1 + r.Intn(3)
	xs := []*Node{}
	for _, c := range cols[:n] {
		k := r.Intn(5)
		if forStruct {
			k = 4
		}
		switch {
		case k == 0:
			xs = append(xs, IsNull(c))
		case k == 1 && c != "s":
			xs = append(xs, In(c, CI(int64(1+r.Intn(3))), CI(int64(1+r.Intn(3)))))
		case k == 1:
			xs = append(xs, In(c, CS(likeStrings[r.Intn(5)]), CS(likeStrings[r.Intn(5)])))
		case c == "s":
			xs = append(xs, Atom(c, "eq", CS(likeStrings[r.Intn(5)])))
		default:
			xs = append(xs, Atom(c, "eq", CI(int64(1+r.Intn(3)))))
		}
	}
	if len(xs) == 1 {
		return xs[0]
	}
	return And(xs...)
}

// RandUnit draws a unit (conn is set by the caller).
func RandUnit(r *rand.Rand, depth int, allowGroup bool) Unit {
	u := randUnit0(r, depth, allowGroup)
	u.Mirror = r.Intn(3) == 0
	return u
}

func randUnit0(r *rand.Rand, depth int, allowGroup bool) Unit {
	seps := []string{"sp", "sp", "sp2", "tab", "nl"}
	cases := []string{"upper", "lower", "mixed"}
	k := r.Intn(12)
	switch {
	case k < 4:
		return Unit{Form: "raw", Ast: RandTree(r, depth, false), Sep: seps[r.Intn(len(seps))], Case: cases[r.Intn(3)], Parens: r.Intn(6) == 0}
	case k == 4:
		// a named hole ends at space, newline, ',' or ')': tabs are not generated after holes
		return Unit{Form: "named", Ast: RandTree(r, depth, false), Sep: []string{"sp", "sp", "sp2", "nl"}[r.Intn(4)], Case: cases[r.Intn(3)], Multi: r.Intn(2) == 0}
	case k == 5:
		return Unit{Form: "map", Ast: randEqConj(r, false)}
	case k == 6:
		return Unit{Form: "struct", Ast: randEqConj(r, true)}
	case k < 9:
		return Unit{Form: "expr", Ast: RandTree(r, depth, true), Multi: r.Intn(3) == 0}
	case k == 9:
		n := 1 + r.Intn(3)
		vs := []Cell{}
		for i := 0; i < n; i++ {
			vs = append(vs, CI(int64(1+r.Intn(54))))
		}
		return Unit{Form: "pkin", Ast: In("id", vs...)}
	default:
		if !allowGroup {
			return Unit{Form: "raw", Ast: RandTree(r, depth, false), Sep: "sp", Case: "upper"}
		}
		n := 1 + r.Intn(3)
		sub := []Unit{}
		for i := 0; i < n; i++ {
			su := RandUnit(r, depth-1, depth > 1)
			su.Conn = "W"
			if i > 0 {
				su.Conn = []string{"W", "W", "O", "N"}[r.Intn(4)]
			} else if r.Intn(5) == 0 {
				su.Conn = "N"
			}
			sub = append(sub, su)
		}
		g := Unit{Form: "group", Sub: sub}
		if argForm(sub) && r.Intn(2) == 0 {
			g.Multi = true
		}
		return g
	}
}
