package cond

import (
	"context"
	"database/sql"
	"encoding/json"
	"errors"
	"fmt"
	"math/rand"
	"os"
	"reflect"
	"sort"
	"strings"
	"time"

	"gorm.io/gorm"

	"verifharness/hx"
	"verifharness/recdrv"
)

// Row is the soft-delete model, RowP the plain one. Same columns otherwise.
type Row struct {
	ID        int64 `gorm:"primaryKey"`
	A         *int64
	B         *int64
	S         *string
	M         int64
	Ora       *int64 `gorm:"column:ora"`   // mirrors a (column name containing "or")
	Bandb     *int64 `gorm:"column:bandb"` // mirrors b (column name containing "and")
	DeletedAt gorm.DeletedAt
}

func (Row) TableName() string { return "rows" }

// RowQ is the soft-delete model with a POINTER-typed deleted-at field (same table); SoftPtr selects it.
type RowQ struct {
	ID        int64 `gorm:"primaryKey"`
	A         *int64
	B         *int64
	S         *string
	M         int64
	Ora       *int64 `gorm:"column:ora"`
	Bandb     *int64 `gorm:"column:bandb"`
	DeletedAt *gorm.DeletedAt
}

func (RowQ) TableName() string { return "rows" }

// RowD is the soft-delete model with TWO soft-delete fields (same table plus archived_at); SoftTwo selects it.
// gorm filters on, and marks, the first of them.
type RowD struct {
	ID         int64 `gorm:"primaryKey"`
	A          *int64
	B          *int64
	S          *string
	M          int64
	Ora        *int64 `gorm:"column:ora"`
	Bandb      *int64 `gorm:"column:bandb"`
	DeletedAt  gorm.DeletedAt
	ArchivedAt gorm.DeletedAt
}

func (RowD) TableName() string { return "rows" }

// SoftPtr: use RowQ instead of Row as the soft-delete model of this process; SoftTwo: use RowD.
var SoftPtr = os.Getenv("VERIF_SOFTPTR") == "1"
var SoftTwo = os.Getenv("VERIF_SOFTPTR") == "two"

// SoftVar names the variant for the event log (so that a case is replayed on the same model).
func SoftVar() interface{} {
	if SoftTwo {
		return "two"
	}
	return SoftPtr
}

func modelType(soft bool) reflect.Type {
	switch {
	case soft && SoftTwo:
		return reflect.TypeOf(RowD{})
	case soft && SoftPtr:
		return reflect.TypeOf(RowQ{})
	case soft:
		return reflect.TypeOf(Row{})
	}
	return reflect.TypeOf(RowP{})
}

// newModel returns a pointer to a fresh model value with the given key.
func newModel(soft bool, pk int64) interface{} {
	v := reflect.New(modelType(soft))
	v.Elem().FieldByName("ID").SetInt(pk)
	return v.Interface()
}

// newSlice returns a pointer to an empty slice of the model and a function reading the keys out of it.
func newSlice(soft bool) (interface{}, func() []int64) {
	p := reflect.New(reflect.SliceOf(modelType(soft)))
	return p.Interface(), func() []int64 {
		var ids []int64
		for i := 0; i < p.Elem().Len(); i++ {
			ids = append(ids, p.Elem().Index(i).FieldByName("ID").Int())
		}
		return ids
	}
}

type RowP struct {
	ID    int64 `gorm:"primaryKey"`
	A     *int64
	B     *int64
	S     *string
	M     int64
	Ora   *int64 `gorm:"column:ora"`
	Bandb *int64 `gorm:"column:bandb"`
}

func (RowP) TableName() string { return "rowps" }

// TRow is the abstract row.
type TRow struct {
	ID  int64
	A   *int64
	B   *int64
	S   *string
	M   int64
	Del bool
}

func cellI(p *int64) hx.M {
	if p == nil {
		return hx.CNull()
	}
	return hx.CInt(*p)
}
func cellS(p *string) hx.M {
	if p == nil {
		return hx.CNull()
	}
	return hx.CStr(*p)
}

func (r TRow) JSON() hx.M {
	return hx.M{"id": hx.CInt(r.ID), "a": cellI(r.A), "b": cellI(r.B), "s": cellS(r.S), "del": r.Del}
}

func TableJSON(t []TRow) []hx.M {
	out := []hx.M{}
	for _, r := range t {
		out = append(out, r.JSON())
	}
	return out
}

func ip(v int64) *int64   { return &v }
func sp(v string) *string { return &v }

// Grid27 realises all 27 assignments of T/F/U to the atoms a=1, b=1, s='ab'; with twins=true
// every live row gets a soft-deleted twin with identical column values (ids 28..54).
func Grid27(twins bool) []TRow {
	var t []TRow
	as := []*int64{ip(1), ip(2), nil}
	ss := []*string{sp("ab"), sp("b"), nil}
	id := int64(1)
	for _, a := range as {
		for _, b := range as {
			for _, s := range ss {
				t = append(t, TRow{ID: id, A: a, B: b, S: s})
				id++
			}
		}
	}
	if twins {
		n := len(t)
		for i := 0; i < n; i++ {
			r := t[i]
			r.ID = id
			r.Del = true
			t = append(t, r)
			id++
		}
	}
	return t
}

// RandTable draws random contents (with NULLs); twins as above.
func RandTable(r *rand.Rand, n int, twins bool) []TRow {
	var t []TRow
	for i := 0; i < n; i++ {
		row := TRow{ID: int64(i + 1)}
		if r.Intn(4) != 0 {
			row.A = ip(int64(1 + r.Intn(3)))
		}
		if r.Intn(4) != 0 {
			row.B = ip(int64(1 + r.Intn(3)))
		}
		if r.Intn(4) != 0 {
			row.S = sp(likeStrings[r.Intn(len(likeStrings))])
		}
		t = append(t, row)
	}
	if twins {
		for i := 0; i < n; i++ {
			x := t[i]
			x.ID = int64(n + i + 1)
			x.Del = true
			t = append(t, x)
		}
	}
	return t
}

// Env is one database with both tables.
type Env struct {
	DB    *gorm.DB
	Rec   *recdrv.Rec
	SQL   *sql.DB
	Table []TRow
}

var debugSQL = os.Getenv("VERIF_DEBUG") != ""

var delStamp = time.Date(2020, 1, 2, 3, 4, 5, 0, time.UTC)

func NewEnv(cfg *gorm.Config) (*Env, error) {
	db, rec, sqldb, err := hx.Open(cfg)
	if err != nil {
		return nil, err
	}
	sqldb.SetMaxOpenConns(1)
	if err := db.AutoMigrate(newModel(true, 0), &RowP{}); err != nil {
		return nil, err
	}
	return &Env{DB: db, Rec: rec, SQL: sqldb}, nil
}

func tname(soft bool) string {
	if soft {
		return "rows"
	}
	return "rowps"
}

// Seed (re)loads the table raw.
func (e *Env) Seed(t []TRow, soft bool) error {
	e.Rec.SetRecording(false)
	defer e.Rec.SetRecording(true)
	tx, err := e.SQL.Begin()
	if err != nil {
		return err
	}
	defer tx.Rollback()
	if _, err := tx.Exec("DELETE FROM " + tname(soft)); err != nil {
		return err
	}
	for _, r := range t {
		var a, b, s interface{}
		if r.A != nil {
			a = *r.A
		}
		if r.B != nil {
			b = *r.B
		}
		if r.S != nil {
			s = *r.S
		}
		if soft {
			var d interface{}
			if r.Del {
				d = delStamp
			}
			if _, err := tx.Exec("INSERT INTO rows(id,a,b,s,m,deleted_at,ora,bandb) VALUES(?,?,?,?,?,?,?,?)", r.ID, a, b, s, r.M, d, a, b); err != nil {
				return err
			}
		} else {
			if r.Del {
				continue
			}
			if _, err := tx.Exec("INSERT INTO rowps(id,a,b,s,m,ora,bandb) VALUES(?,?,?,?,?,?,?)", r.ID, a, b, s, r.M, a, b); err != nil {
				return err
			}
		}
	}
	e.Table = t
	return tx.Commit()
}

type rawRow struct {
	id      int64
	a, b    sql.NullInt64
	s       sql.NullString
	m       int64
	deleted bool
}

func (e *Env) dump(soft bool) (map[int64]rawRow, error) {
	e.Rec.SetRecording(false)
	defer e.Rec.SetRecording(true)
	q := "SELECT id,a,b,s,m,0 FROM rowps"
	if soft {
		q = "SELECT id,a,b,s,m,deleted_at IS NOT NULL FROM rows"
	}
	rows, err := e.SQL.Query(q)
	if err != nil {
		return nil, err
	}
	defer rows.Close()
	out := map[int64]rawRow{}
	for rows.Next() {
		var r rawRow
		if err := rows.Scan(&r.id, &r.a, &r.b, &r.s, &r.m, &r.deleted); err != nil {
			return nil, err
		}
		out[r.id] = r
	}
	return out, rows.Err()
}

// Obs is the outcome of one finisher.
type Obs struct {
	Ids      []int64 // rows returned (find / pluck / first)
	N        int64   // count / RowsAffected
	Err      string
	Execs    int // exec/query/prepare driver events
	Begins   int
	Commits  int
	Rollback int
	Changed  []int64 // rows whose marker column changed
	Marked   []int64 // rows newly soft-deleted
	Removed  []int64 // rows physically removed
	Other    []int64 // rows with any other difference
}

func errClass(err error) string {
	switch {
	case err == nil:
		return "nil"
	case errors.Is(err, gorm.ErrMissingWhereClause):
		return "missing_where"
	case errors.Is(err, gorm.ErrRecordNotFound):
		return "not_found"
	}
	return "other:" + err.Error()
}

// Fin describes the finisher.
type Fin struct {
	Kind     string   `json:"fin"` // find count first pluck update updates updatecol delete
	Unscoped bool     `json:"unscoped"`
	Allow    string   `json:"allow"` // "", "config", "session"
	PK       int64    `json:"pk"`    // model primary key (first/update/delete), 0 = none
	Extra    []string `json:"extra,omitempty"`
	Prior    string   `json:"prior,omitempty"` // the chain value already ran count | noop_updates | find before ...
	Clone    string   `json:"clone,omitempty"` // ... it was derived again through session | withctx | debug
	Late     bool     `json:"late,omitempty"`  // Unscoped is called after the prior use, not before
	KeyPay   string   `json:"keypay,omitempty"` // the update payload also names the primary key: "map" | "struct" (condition-free chains only)
}

// Run executes chain+finisher on a fresh chain from e.DB and observes.
func (e *Env) Run(chain []Unit, fin Fin, soft bool) (Obs, error) {
	var o Obs
	before, err := e.dump(soft)
	if err != nil {
		return o, err
	}
	base := e.DB
	if fin.Allow == "session" {
		base = base.Session(&gorm.Session{AllowGlobalUpdate: true})
	}
	tx := base
	var inline []interface{}
	for _, u := range chain {
		if u.Inline {
			q, a := u.args(base, soft)
			inline = append([]interface{}{q}, a...)
			continue
		}
		tx = u.apply(tx, base, soft)
	}
	for _, x := range fin.Extra {
		switch x {
		case "order":
			tx = tx.Order("id")
		case "limit":
			tx = tx.Limit(1000)
		case "scopes":
			tx = tx.Scopes(func(d *gorm.DB) *gorm.DB { return d })
		case "select":
			tx = tx.Select("m")
		case "omit":
			tx = tx.Omit("a")
		case "table":
			tx = tx.Table(tname(soft))
		}
	}
	if fin.Unscoped && !(fin.Late && fin.Prior != "") {
		tx = tx.Unscoped()
	}
	model := func(pk int64) interface{} { return newModel(soft, pk) }
	if fin.Prior != "" {
		tx = tx.Model(model(0))
		switch fin.Prior {
		case "count":
			var n int64
			tx.Count(&n)
		case "noop_updates":
			tx.Updates(map[string]interface{}{})
		case "find":
			out, _ := newSlice(soft)
			tx.Find(out)
		}
		switch fin.Clone {
		case "session":
			tx = tx.Session(&gorm.Session{})
		case "withctx":
			tx = tx.WithContext(context.Background())
		case "debug":
			tx = tx.Debug()
		}
		if fin.Unscoped && fin.Late {
			tx = tx.Unscoped()
		}
	}
	e.Rec.Reset()
	var res *gorm.DB
	switch fin.Kind {
	case "find":
		out, ids := newSlice(soft)
		res = tx.Find(out, inline...)
		o.Ids = ids()
		o.N = res.RowsAffected
	case "first":
		out := newModel(soft, fin.PK)
		res = tx.First(out, inline...)
		if res.Error == nil {
			o.Ids = []int64{reflect.ValueOf(out).Elem().FieldByName("ID").Int()}
		}
	case "count":
		res = tx.Model(model(0)).Count(&o.N)
	case "pluck":
		res = tx.Model(model(0)).Pluck("id", &o.Ids)
	case "update":
		res = tx.Model(model(fin.PK)).Update("m", 7)
		o.N = res.RowsAffected
	case "updates":
		// a payload that names the primary key is still not a condition (only used when the chain has none:
		// with conditions it would move several rows onto one key)
		condFree := fin.PK == 0 && len(inline) == 0
		for _, u := range chain {
			if u.Form != "empty" {
				condFree = false
			}
		}
		switch {
		case fin.KeyPay == "map" && condFree:
			res = tx.Model(model(0)).Updates(map[string]interface{}{"id": 999, "m": 7})
		case fin.KeyPay == "struct" && condFree:
			pay := newModel(soft, 999)
			reflect.ValueOf(pay).Elem().FieldByName("M").SetInt(7)
			res = tx.Model(model(0)).Updates(pay)
		default:
			res = tx.Model(model(fin.PK)).Updates(map[string]interface{}{"m": 7})
		}
		o.N = res.RowsAffected
	case "updatecol":
		res = tx.Model(model(fin.PK)).UpdateColumn("m", 7)
		o.N = res.RowsAffected
	case "updatecols":
		res = tx.Model(model(fin.PK)).UpdateColumns(map[string]interface{}{"m": 7})
		o.N = res.RowsAffected
	case "delete":
		res = tx.Delete(model(fin.PK), inline...)
		o.N = res.RowsAffected
	default:
		return o, fmt.Errorf("bad finisher %s", fin.Kind)
	}
	o.Err = errClass(res.Error)
	for _, ev := range e.Rec.Events() {
		if debugSQL && ev.SQL != "" {
			var av []interface{}
			for _, a := range ev.Args {
				av = append(av, a.Value)
			}
			fmt.Fprintf(os.Stderr, "SQL[%s pk=%d soft=%v] %s %v\n", fin.Kind, fin.PK, soft, ev.SQL, av)
		}
		switch ev.K {
		case "exec", "query", "prepare":
			o.Execs++
		case "begin":
			o.Begins++
		case "commit":
			o.Commits++
		case "rollback":
			o.Rollback++
		}
	}
	after, err := e.dump(soft)
	if err != nil {
		return o, err
	}
	dirty := false
	for id, b := range before {
		a, ok := after[id]
		switch {
		case !ok:
			o.Removed = append(o.Removed, id)
			dirty = true
		default:
			if a.m != b.m {
				o.Changed = append(o.Changed, id)
				dirty = true
			}
			if a.deleted != b.deleted {
				if a.deleted {
					o.Marked = append(o.Marked, id)
				} else {
					o.Other = append(o.Other, id)
				}
				dirty = true
			}
			if a.a != b.a || a.b != b.b || a.s != b.s {
				o.Other = append(o.Other, id)
				dirty = true
			}
		}
	}
	for id := range after {
		if _, ok := before[id]; !ok {
			o.Other = append(o.Other, id)
			dirty = true
		}
	}
	for _, s := range [][]int64{o.Changed, o.Marked, o.Removed, o.Other} {
		sort.Slice(s, func(i, j int) bool { return s[i] < s[j] })
	}
	if dirty {
		if err := e.Seed(e.Table, soft); err != nil {
			return o, err
		}
	}
	return o, nil
}

func nzi(x []int64) []int64 {
	if x == nil {
		return []int64{}
	}
	return x
}

// Event renders the Q event for Trace_Cond.
func QEvent(caseNo int, chain []Unit, fin Fin, soft bool, o Obs) hx.M {
	errc := o.Err
	if strings.HasPrefix(errc, "other:") {
		errc = "other"
	}
	rc, _ := json.Marshal(chain)
	rf, _ := json.Marshal(fin)
	return hx.M{"ev": "Q", "case": caseNo, "rchain": string(rc), "rfin": string(rf), "fin": fin.Kind, "soft": soft, "unscoped": fin.Unscoped,
		"allow": fin.Allow != "", "pk": fin.PK, "chain": ChainJSON(chain), "softptr": SoftVar(),
		"ids": nzi(o.Ids), "n": o.N, "err": errc, "errtext": o.Err, "execs": o.Execs,
		"begins": o.Begins, "commits": o.Commits, "rollbacks": o.Rollback,
		"changed": nzi(o.Changed), "marked": nzi(o.Marked), "removed": nzi(o.Removed), "other": nzi(o.Other)}
}
