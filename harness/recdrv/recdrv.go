// Package recdrv is a recording, fault-injecting and parking database/sql driver that sits in
// front of mattn/go-sqlite3. It is the harness' eye at the driver boundary: every BEGIN,
// statement, argument list and context that gorm hands to database/sql is seen here.
package recdrv

import (
	"context"
	"database/sql"
	"database/sql/driver"
	"errors"
	"fmt"
	"strings"
	"sync"
	"sync/atomic"

	sqlite3 "github.com/mattn/go-sqlite3"
)

// CtxKey is the context key under which drivers put a per-operation tag.
type CtxKey struct{}

// Tag returns the harness tag carried by ctx ("" if none).
func Tag(ctx context.Context) string {
	if ctx == nil {
		return ""
	}
	if v, ok := ctx.Value(CtxKey{}).(string); ok {
		return v
	}
	return ""
}

// ErrInjected is the sentinel returned by injected faults.
var ErrInjected = errors.New("recdrv: injected fault #7f3a9")

// Event is one driver call.
type Event struct {
	Seq      int
	K        string // begin commit rollback prepare exec query stmt_close
	SQL      string
	Args     []driver.NamedValue
	Conn     int
	Tx       int // 0 = outside a transaction
	Ctx      string
	Prepared bool   // exec/query through a prepared statement
	Res      string // ok | fault | err
	Err      string
}

// Class returns a coarse classification of the SQL text.
func (e Event) Class() string {
	if e.K != "exec" && e.K != "query" && e.K != "prepare" {
		return e.K
	}
	return ClassifySQL(e.SQL)
}

// ClassifySQL classifies a statement by its leading keyword(s).
func ClassifySQL(s string) string {
	t := strings.ToUpper(strings.TrimSpace(s))
	switch {
	case strings.HasPrefix(t, "INSERT"):
		return "insert"
	case strings.HasPrefix(t, "UPDATE"):
		return "update"
	case strings.HasPrefix(t, "DELETE"):
		return "delete"
	case strings.HasPrefix(t, "SELECT"):
		return "select"
	case strings.HasPrefix(t, "SAVEPOINT"):
		return "savepoint"
	case strings.HasPrefix(t, "ROLLBACK TO"):
		return "rollback_to"
	case strings.HasPrefix(t, "RELEASE"):
		return "release"
	case strings.HasPrefix(t, "CREATE"), strings.HasPrefix(t, "ALTER"), strings.HasPrefix(t, "DROP"):
		return "ddl"
	case strings.HasPrefix(t, "PRAGMA"):
		return "pragma"
	}
	return "other"
}

// Rec is one recording database (one shared in-memory SQLite database).
type Rec struct {
	mu     sync.Mutex
	dsn    string
	events []Event
	seq    int
	record bool

	// fault plan
	failAt     int  // 1-based index among counted calls, 0 = none
	late       bool // deliver a query's fault through its rows
	lateHit    bool
	counted    int
	failFilter func(e *Event) bool
	failErr    error

	lastProbe Event

	nextConn int32
	nextTx   int32
	openTx   int32
	openStmt int32
	openConn int32

	// LastInsertFirst makes Result.LastInsertId report the FIRST row id of a multi-row insert
	// (the convention of e.g. MySQL) instead of SQLite's last row id.
	LastInsertFirst bool

	// Decide, if set, may inject an error for any event (consulted before the fault plan, outside r.mu)
	Decide func(e *Event) error

	// parking: if set, called before the inner call for every event (outside r.mu)
	Park func(e *Event)
}

var dbCounter int32

// New creates a recorder on a fresh shared in-memory database.
func New() *Rec {
	n := atomic.AddInt32(&dbCounter, 1)
	return &Rec{dsn: fmt.Sprintf("file:verifmem%d?mode=memory&cache=shared&_busy_timeout=5000", n), record: true}
}

// NewDSN creates a recorder for an explicit DSN.
func NewDSN(dsn string) *Rec { return &Rec{dsn: dsn, record: true} }

// OpenDB returns a *sql.DB whose connections go through the recorder.
func (r *Rec) OpenDB() *sql.DB { return sql.OpenDB(&connector{r: r}) }

// SetRecording switches event recording on/off (counters keep running).
func (r *Rec) SetRecording(on bool) { r.mu.Lock(); r.record = on; r.mu.Unlock() }

// Reset clears the event log and the fault plan.
func (r *Rec) Reset() {
	r.mu.Lock()
	r.events = nil
	r.failAt, r.counted, r.failFilter, r.failErr = 0, 0, nil, nil
	r.mu.Unlock()
}

// Events returns a copy of the log.
func (r *Rec) Events() []Event {
	r.mu.Lock()
	defer r.mu.Unlock()
	out := make([]Event, len(r.events))
	copy(out, r.events)
	return out
}

// Counted is the number of calls matched by the fault filter so far.
func (r *Rec) Counted() int { r.mu.Lock(); defer r.mu.Unlock(); return r.counted }

// FailAt arms a fault at the k-th counted call (k>=1). filter nil = DefaultCounted.
func (r *Rec) FailAt(k int, filter func(e *Event) bool, err error) {
	r.mu.Lock()
	r.failAt, r.counted, r.failFilter, r.failErr = k, 0, filter, err
	r.late, r.lateHit = false, false
	r.mu.Unlock()
}

// FailLateAt is FailAt for a failure that only shows while the rows are read: when the k-th counted
// call is a query, the call itself succeeds and the first Next on its rows returns the error -- the
// way SQLite reports a constraint violation of INSERT ... RETURNING. (Other calls fail as with FailAt.)
func (r *Rec) FailLateAt(k int, filter func(e *Event) bool, err error) {
	r.FailAt(k, filter, err)
	r.mu.Lock()
	r.late = true
	r.mu.Unlock()
}

// takeLate reports (once) that the fault just injected is to be delivered through the rows.
func (r *Rec) takeLate() bool {
	r.mu.Lock()
	defer r.mu.Unlock()
	if r.lateHit {
		r.lateHit = false
		return true
	}
	return false
}

// failRows is a result set whose first Next fails.
type failRows struct{ err error }

func (f *failRows) Columns() []string              { return []string{} }
func (f *failRows) Close() error                   { return nil }
func (f *failRows) Next(dest []driver.Value) error { return f.err }

// CountOnly arms counting without failing.
func (r *Rec) CountOnly(filter func(e *Event) bool) { r.FailAt(0, filter, nil) }

// DefaultCounted counts the Conn-level calls a database can refuse.
func DefaultCounted(e *Event) bool {
	switch e.K {
	case "begin", "commit", "prepare", "exec", "query":
		return true
	}
	return false
}

func (r *Rec) OpenTx() int    { return int(atomic.LoadInt32(&r.openTx)) }
func (r *Rec) OpenStmts() int { return int(atomic.LoadInt32(&r.openStmt)) }
func (r *Rec) OpenConns() int { return int(atomic.LoadInt32(&r.openConn)) }

// ProbeMarker marks statements a harness hook executes only to learn which connection /
// transaction / context the *gorm.DB it was handed uses. They are executed, recorded with
// K="probe", never counted for fault injection.
const ProbeMarker = "/*probe*/"

// LastProbe returns the last probe event seen.
func (r *Rec) LastProbe() Event { r.mu.Lock(); defer r.mu.Unlock(); return r.lastProbe }

// pre registers the event and decides about a fault. Returns the event index (or -1) and the
// error to inject (nil = proceed).
func (r *Rec) pre(e *Event) (int, error) {
	if r.Park != nil {
		r.Park(e)
	}
	var decided error
	if r.Decide != nil {
		decided = r.Decide(e)
	}
	r.mu.Lock()
	defer r.mu.Unlock()
	r.seq++
	e.Seq = r.seq
	if decided != nil {
		e.Res = "fault"
		e.Err = decided.Error()
		if r.record {
			r.events = append(r.events, *e)
		}
		return -1, decided
	}
	if strings.Contains(e.SQL, ProbeMarker) {
		if e.K == "prepare" || e.K == "stmt_close" {
			e.K = "probe_aux"
			e.Res = "ok"
			return -1, nil
		}
		e.K = "probe"
		e.Res = "ok"
		r.lastProbe = *e
		if r.record {
			r.events = append(r.events, *e)
		}
		return -1, nil
	}
	var inj error
	f := r.failFilter
	if f == nil {
		f = DefaultCounted
	}
	if f(e) {
		r.counted++
		if r.failAt > 0 && r.counted == r.failAt {
			inj = r.failErr
			if inj == nil {
				inj = ErrInjected
			}
			e.Res = "fault"
			e.Err = inj.Error()
			if r.late && e.K == "query" {
				r.lateHit = true
			}
		}
	}
	idx := -1
	if r.record {
		r.events = append(r.events, *e)
		idx = len(r.events) - 1
	}
	return idx, inj
}

func (r *Rec) post(idx int, err error) {
	if idx < 0 {
		return
	}
	r.mu.Lock()
	if idx < len(r.events) && r.events[idx].Res == "" {
		if err != nil {
			r.events[idx].Res = "err"
			r.events[idx].Err = err.Error()
		} else {
			r.events[idx].Res = "ok"
		}
	}
	r.mu.Unlock()
}

type connector struct{ r *Rec }

func (c *connector) Connect(ctx context.Context) (driver.Conn, error) {
	in, err := (&sqlite3.SQLiteDriver{}).Open(c.r.dsn)
	if err != nil {
		return nil, err
	}
	atomic.AddInt32(&c.r.openConn, 1)
	return &conn{r: c.r, in: in.(*sqlite3.SQLiteConn), id: int(atomic.AddInt32(&c.r.nextConn, 1))}, nil
}
func (c *connector) Driver() driver.Driver { return drv{c.r} }

type drv struct{ r *Rec }

func (d drv) Open(name string) (driver.Conn, error) {
	return (&connector{r: d.r}).Connect(context.Background())
}

type conn struct {
	r  *Rec
	in *sqlite3.SQLiteConn
	id int
	tx int
}

func (c *conn) Prepare(q string) (driver.Stmt, error) {
	return c.PrepareContext(context.Background(), q)
}
func (c *conn) Begin() (driver.Tx, error) { return c.BeginTx(context.Background(), driver.TxOptions{}) }
func (c *conn) Close() error {
	atomic.AddInt32(&c.r.openConn, -1)
	return c.in.Close()
}

func (c *conn) PrepareContext(ctx context.Context, q string) (driver.Stmt, error) {
	e := &Event{K: "prepare", SQL: q, Conn: c.id, Tx: c.tx, Ctx: Tag(ctx)}
	idx, inj := c.r.pre(e)
	if inj != nil {
		return nil, inj
	}
	s, err := c.in.PrepareContext(ctx, q)
	c.r.post(idx, err)
	if err != nil {
		return nil, err
	}
	atomic.AddInt32(&c.r.openStmt, 1)
	return &stmt{c: c, in: s, q: q}, nil
}

func (c *conn) ExecContext(ctx context.Context, q string, args []driver.NamedValue) (driver.Result, error) {
	e := &Event{K: "exec", SQL: q, Args: args, Conn: c.id, Tx: c.tx, Ctx: Tag(ctx)}
	idx, inj := c.r.pre(e)
	if inj != nil {
		return nil, inj
	}
	res, err := c.in.ExecContext(ctx, q, args)
	c.r.post(idx, err)
	if err == nil && c.r.LastInsertFirst {
		res = firstID{res}
	}
	return res, err
}

type firstID struct{ driver.Result }

func (f firstID) LastInsertId() (int64, error) {
	id, err := f.Result.LastInsertId()
	n, _ := f.Result.RowsAffected()
	if err == nil && n > 1 {
		id -= n - 1
	}
	return id, err
}

func (c *conn) QueryContext(ctx context.Context, q string, args []driver.NamedValue) (driver.Rows, error) {
	e := &Event{K: "query", SQL: q, Args: args, Conn: c.id, Tx: c.tx, Ctx: Tag(ctx)}
	idx, inj := c.r.pre(e)
	if inj != nil {
		if c.r.takeLate() {
			return &failRows{inj}, nil
		}
		return nil, inj
	}
	rows, err := c.in.QueryContext(ctx, q, args)
	c.r.post(idx, err)
	return rows, err
}

func (c *conn) BeginTx(ctx context.Context, opts driver.TxOptions) (driver.Tx, error) {
	e := &Event{K: "begin", Conn: c.id, Ctx: Tag(ctx)}
	idx, inj := c.r.pre(e)
	if inj != nil {
		return nil, inj
	}
	t, err := c.in.BeginTx(ctx, opts)
	c.r.post(idx, err)
	if err != nil {
		return nil, err
	}
	c.tx = int(atomic.AddInt32(&c.r.nextTx, 1))
	c.r.mu.Lock()
	if idx >= 0 && idx < len(c.r.events) {
		c.r.events[idx].Tx = c.tx
	}
	c.r.mu.Unlock()
	atomic.AddInt32(&c.r.openTx, 1)
	return &tx{c: c, in: t}, nil
}

func (c *conn) Ping(ctx context.Context) error         { return c.in.Ping(ctx) }
func (c *conn) ResetSession(ctx context.Context) error { return nil }
func (c *conn) IsValid() bool                          { return true }

type tx struct {
	c  *conn
	in driver.Tx
}

func (t *tx) Commit() error {
	e := &Event{K: "commit", Conn: t.c.id, Tx: t.c.tx}
	idx, inj := t.c.r.pre(e)
	defer func() { t.c.tx = 0; atomic.AddInt32(&t.c.r.openTx, -1) }()
	if inj != nil {
		// a database that refuses a commit has rolled the transaction back
		_ = t.in.Rollback()
		return inj
	}
	err := t.in.Commit()
	t.c.r.post(idx, err)
	return err
}

func (t *tx) Rollback() error {
	e := &Event{K: "rollback", Conn: t.c.id, Tx: t.c.tx}
	idx, inj := t.c.r.pre(e)
	defer func() { t.c.tx = 0; atomic.AddInt32(&t.c.r.openTx, -1) }()
	err := t.in.Rollback()
	if inj != nil {
		return inj
	}
	t.c.r.post(idx, err)
	return err
}

type stmt struct {
	c  *conn
	in driver.Stmt
	q  string
}

func (s *stmt) Close() error {
	e := &Event{K: "stmt_close", SQL: s.q, Conn: s.c.id, Tx: s.c.tx}
	idx, _ := s.c.r.pre(e)
	atomic.AddInt32(&s.c.r.openStmt, -1)
	err := s.in.Close()
	s.c.r.post(idx, err)
	return err
}
func (s *stmt) NumInput() int { return s.in.NumInput() }
func (s *stmt) Exec(args []driver.Value) (driver.Result, error) {
	return nil, errors.New("recdrv: legacy Exec not supported")
}
func (s *stmt) Query(args []driver.Value) (driver.Rows, error) {
	return nil, errors.New("recdrv: legacy Query not supported")
}
func (s *stmt) ExecContext(ctx context.Context, args []driver.NamedValue) (driver.Result, error) {
	e := &Event{K: "exec", SQL: s.q, Args: args, Conn: s.c.id, Tx: s.c.tx, Ctx: Tag(ctx), Prepared: true}
	idx, inj := s.c.r.pre(e)
	if inj != nil {
		return nil, inj
	}
	res, err := s.in.(driver.StmtExecContext).ExecContext(ctx, args)
	s.c.r.post(idx, err)
	return res, err
}
func (s *stmt) QueryContext(ctx context.Context, args []driver.NamedValue) (driver.Rows, error) {
	e := &Event{K: "query", SQL: s.q, Args: args, Conn: s.c.id, Tx: s.c.tx, Ctx: Tag(ctx), Prepared: true}
	idx, inj := s.c.r.pre(e)
	if inj != nil {
		if s.c.r.takeLate() {
			return &failRows{inj}, nil
		}
		return nil, inj
	}
	rows, err := s.in.(driver.StmtQueryContext).QueryContext(ctx, args)
	s.c.r.post(idx, err)
	return rows, err
}
