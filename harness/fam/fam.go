// Package fam is the fixed family of related models used by the pipeline, hook, context and
// association drivers. Every model implements all hooks; each hook logs (hook, model, record
// label, transaction identity) and can be told to fail at its n-th invocation.
package fam

import (
	"errors"
	"fmt"

	"gorm.io/gorm"

	"verifharness/recdrv"
)

// Audit rows are written by User.BeforeCreate through the handle the hook receives when the
// recorder asks for it: whatever a hook writes is part of the operation (C05).
type Audit struct {
	ID   int64
	Note string
}

type Company struct {
	ID   int64
	Name string
}

type Profile struct {
	ID     int64
	UserID int64
	Name   string
}

type Toy struct {
	ID        int64
	OwnerID   int64
	OwnerType string
	Name      string
}

type Pet struct {
	ID     int64
	UserID *int64
	Name   string
	Tag    string
	Toys   []Toy `gorm:"polymorphic:Owner"`
}

// Kennel owns at most one Toy through the polymorphic owner columns (has one, polymorphic). It is
// migrated only by the association-mode driver.
type Kennel struct {
	ID   int64
	Name string
	Toy  *Toy `gorm:"polymorphic:Owner"`
}

type Lang struct {
	Code string `gorm:"primaryKey"`
	Name string
}

type User struct {
	ID        int64
	Name      string
	Age       int
	Tag       string
	CompanyID *int64
	Company   *Company
	Profile   *Profile
	Pets      []Pet
	Langs     []Lang `gorm:"many2many:user_langs"`
}

// SoftUser is a soft-delete variant of a parent with soft-delete children (C08 joins/preloads).
type SoftPet struct {
	ID         int64
	SoftUserID int64
	Name       string
	DeletedAt  gorm.DeletedAt
}
type SoftUser struct {
	ID        int64
	Name      string
	Pets      []SoftPet
	DeletedAt gorm.DeletedAt
}

var AllModels = []interface{}{&Audit{}, &Company{}, &Profile{}, &Toy{}, &Pet{}, &Lang{}, &User{}, &SoftUser{}, &SoftPet{}, &Memo{}, &Draft{}, &Stamp{}}
var AllTables = []string{"audits", "companies", "profiles", "toys", "pets", "langs", "users", "user_langs", "soft_users", "soft_pets", "memos", "drafts", "stamps"}

// Memo implements only the After* hooks, Draft only the Before* hooks (a hook must be detected on
// its own, not through its counterpart).
type Memo struct {
	ID   int64
	Name string
	V    int64
}
type Draft struct {
	ID   int64
	Name string
	V    int64
}

// Stamp implements its save hooks on the VALUE receiver (and has no create hooks).
type Stamp struct {
	ID   int64
	Name string
	V    int64
}

func (s Stamp) BeforeSave(tx *gorm.DB) error { return hook(tx, "BeforeSave", "Stamp", s.Name) }
func (s Stamp) AfterSave(tx *gorm.DB) error  { return hook(tx, "AfterSave", "Stamp", s.Name) }

func (m *Memo) AfterCreate(tx *gorm.DB) error { return hook(tx, "AfterCreate", "Memo", m.Name) }
func (m *Memo) AfterUpdate(tx *gorm.DB) error { return hook(tx, "AfterUpdate", "Memo", m.Name) }
func (m *Memo) AfterSave(tx *gorm.DB) error   { return hook(tx, "AfterSave", "Memo", m.Name) }
func (m *Memo) AfterDelete(tx *gorm.DB) error { return hook(tx, "AfterDelete", "Memo", m.Name) }
func (m *Memo) AfterFind(tx *gorm.DB) error   { return hook(tx, "AfterFind", "Memo", m.Name) }

func (d *Draft) BeforeSave(tx *gorm.DB) error   { return hook(tx, "BeforeSave", "Draft", d.Name) }
func (d *Draft) BeforeCreate(tx *gorm.DB) error { return hook(tx, "BeforeCreate", "Draft", d.Name) }
func (d *Draft) BeforeUpdate(tx *gorm.DB) error { return hook(tx, "BeforeUpdate", "Draft", d.Name) }
func (d *Draft) BeforeDelete(tx *gorm.DB) error { return hook(tx, "BeforeDelete", "Draft", d.Name) }

// HookEv is one hook invocation.
type HookEv struct {
	Hook  string
	Model string
	Rec   string
	Tx    int
	Conn  int
	Ctx   string
	Res   string // ok | err
	Seq   int
}

// ErrHook is the sentinel returned by an injected hook failure.
var ErrHook = errors.New("fam: injected hook failure #h00c")

// Recorder collects hook events; single-threaded use per Rec.
type Recorder struct {
	Rec     *recdrv.Rec
	Log     []HookEv
	FailAt  int // 1-based invocation index to fail, 0 = none
	Count   int
	Probe   bool
	Mutate  bool // before-hooks set the Tag column (C13: values set by a before-hook are stored)
	Audit   bool // User.BeforeCreate / BeforeUpdate write an audit row through the hook's handle
	OnEvent func(HookEv)
}

// Cur is the recorder hooks report to (nil = hooks do nothing).
var Cur *Recorder

func (r *Recorder) Reset() { r.Log, r.Count, r.FailAt = nil, 0, 0 }

func hook(tx *gorm.DB, name, model, rec string) error {
	r := Cur
	if r == nil {
		return nil
	}
	r.Count++
	ev := HookEv{Hook: name, Model: model, Rec: rec, Res: "ok"}
	if r.Probe && r.Rec != nil {
		var one int
		tx.Raw("SELECT 1 " + recdrv.ProbeMarker).Scan(&one)
		p := r.Rec.LastProbe()
		ev.Tx, ev.Conn, ev.Ctx = p.Tx, p.Conn, p.Ctx
	}
	var err error
	if r.FailAt > 0 && r.Count == r.FailAt {
		ev.Res = "err"
		err = ErrHook
	}
	ev.Seq = len(r.Log) + 1
	r.Log = append(r.Log, ev)
	if r.OnEvent != nil {
		r.OnEvent(ev)
	}
	return err
}

func mutate() bool { return Cur != nil && Cur.Mutate }

// ---- User -------------------------------------------------------------------------------
func (u *User) BeforeSave(tx *gorm.DB) error { return hook(tx, "BeforeSave", "User", u.Name) }
func (u *User) BeforeCreate(tx *gorm.DB) error {
	if mutate() {
		u.Tag = "bc:" + u.Name
	}
	if Cur != nil && Cur.Audit {
		if err := tx.Exec("INSERT INTO audits(note) VALUES (?)", "create "+u.Name).Error; err != nil {
			return err
		}
	}
	return hook(tx, "BeforeCreate", "User", u.Name)
}
func (u *User) AfterCreate(tx *gorm.DB) error { return hook(tx, "AfterCreate", "User", u.Name) }
func (u *User) BeforeUpdate(tx *gorm.DB) error {
	if mutate() {
		tx.Statement.SetColumn("Tag", "bu:"+u.Name)
	}
	return hook(tx, "BeforeUpdate", "User", u.Name)
}
func (u *User) AfterUpdate(tx *gorm.DB) error  { return hook(tx, "AfterUpdate", "User", u.Name) }
func (u *User) AfterSave(tx *gorm.DB) error    { return hook(tx, "AfterSave", "User", u.Name) }
func (u *User) BeforeDelete(tx *gorm.DB) error { return hook(tx, "BeforeDelete", "User", u.Name) }
func (u *User) AfterDelete(tx *gorm.DB) error  { return hook(tx, "AfterDelete", "User", u.Name) }
func (u *User) AfterFind(tx *gorm.DB) error    { return hook(tx, "AfterFind", "User", u.Name) }

// ---- Pet --------------------------------------------------------------------------------
func (p *Pet) BeforeSave(tx *gorm.DB) error { return hook(tx, "BeforeSave", "Pet", p.Name) }
func (p *Pet) BeforeCreate(tx *gorm.DB) error {
	if mutate() {
		p.Tag = "bc:" + p.Name
	}
	return hook(tx, "BeforeCreate", "Pet", p.Name)
}
func (p *Pet) AfterCreate(tx *gorm.DB) error  { return hook(tx, "AfterCreate", "Pet", p.Name) }
func (p *Pet) BeforeUpdate(tx *gorm.DB) error { return hook(tx, "BeforeUpdate", "Pet", p.Name) }
func (p *Pet) AfterUpdate(tx *gorm.DB) error  { return hook(tx, "AfterUpdate", "Pet", p.Name) }
func (p *Pet) AfterSave(tx *gorm.DB) error    { return hook(tx, "AfterSave", "Pet", p.Name) }
func (p *Pet) BeforeDelete(tx *gorm.DB) error { return hook(tx, "BeforeDelete", "Pet", p.Name) }
func (p *Pet) AfterDelete(tx *gorm.DB) error  { return hook(tx, "AfterDelete", "Pet", p.Name) }
func (p *Pet) AfterFind(tx *gorm.DB) error    { return hook(tx, "AfterFind", "Pet", p.Name) }

// ---- Company / Profile / Toy / Lang -----------------------------------------------------
func (c *Company) BeforeSave(tx *gorm.DB) error   { return hook(tx, "BeforeSave", "Company", c.Name) }
func (c *Company) BeforeCreate(tx *gorm.DB) error { return hook(tx, "BeforeCreate", "Company", c.Name) }
func (c *Company) AfterCreate(tx *gorm.DB) error  { return hook(tx, "AfterCreate", "Company", c.Name) }
func (c *Company) AfterSave(tx *gorm.DB) error    { return hook(tx, "AfterSave", "Company", c.Name) }
func (c *Company) AfterFind(tx *gorm.DB) error    { return hook(tx, "AfterFind", "Company", c.Name) }

func (c *Profile) BeforeSave(tx *gorm.DB) error   { return hook(tx, "BeforeSave", "Profile", c.Name) }
func (c *Profile) BeforeCreate(tx *gorm.DB) error { return hook(tx, "BeforeCreate", "Profile", c.Name) }
func (c *Profile) AfterCreate(tx *gorm.DB) error  { return hook(tx, "AfterCreate", "Profile", c.Name) }
func (c *Profile) AfterSave(tx *gorm.DB) error    { return hook(tx, "AfterSave", "Profile", c.Name) }
func (c *Profile) AfterFind(tx *gorm.DB) error    { return hook(tx, "AfterFind", "Profile", c.Name) }
func (c *Profile) BeforeDelete(tx *gorm.DB) error { return hook(tx, "BeforeDelete", "Profile", c.Name) }
func (c *Profile) AfterDelete(tx *gorm.DB) error  { return hook(tx, "AfterDelete", "Profile", c.Name) }

func (c *Toy) BeforeSave(tx *gorm.DB) error   { return hook(tx, "BeforeSave", "Toy", c.Name) }
func (c *Toy) BeforeCreate(tx *gorm.DB) error { return hook(tx, "BeforeCreate", "Toy", c.Name) }
func (c *Toy) AfterCreate(tx *gorm.DB) error  { return hook(tx, "AfterCreate", "Toy", c.Name) }
func (c *Toy) AfterSave(tx *gorm.DB) error    { return hook(tx, "AfterSave", "Toy", c.Name) }
func (c *Toy) AfterFind(tx *gorm.DB) error    { return hook(tx, "AfterFind", "Toy", c.Name) }

func (c *Lang) BeforeSave(tx *gorm.DB) error   { return hook(tx, "BeforeSave", "Lang", c.Name) }
func (c *Lang) BeforeCreate(tx *gorm.DB) error { return hook(tx, "BeforeCreate", "Lang", c.Name) }
func (c *Lang) AfterCreate(tx *gorm.DB) error  { return hook(tx, "AfterCreate", "Lang", c.Name) }
func (c *Lang) AfterSave(tx *gorm.DB) error    { return hook(tx, "AfterSave", "Lang", c.Name) }
func (c *Lang) AfterFind(tx *gorm.DB) error    { return hook(tx, "AfterFind", "Lang", c.Name) }

// Describe a graph for logging.
func (u *User) String() string { return fmt.Sprintf("User(%s)", u.Name) }
