// Package conv drives C16: Save / upsert / FirstOrInit / FirstOrCreate histories over a small
// key space, with Session / WithContext inserted at every position of the chain.
package conv

import (
	"context"
	"database/sql"
	"encoding/json"
	"flag"
	"fmt"
	"math/rand"

	"gorm.io/gorm"
	"gorm.io/gorm/clause"

	"verifharness/hx"
)

type CV struct {
	ID        int64
	A         int64
	B         int64
	DeletedAt gorm.DeletedAt
}

func (CV) TableName() string { return "cvs" }

// CK has a composite key without auto-increment.
type CK struct {
	K1 int64 `gorm:"primaryKey;autoIncrement:false"`
	K2 int64 `gorm:"primaryKey;autoIncrement:false"`
	A  int64
	B  int64
	U  int64 `gorm:"uniqueIndex"` // a unique column that is not the key
}

func (CK) TableName() string { return "cks" }

type Op struct {
	Op    string `json:"op"`
	ID    int64  `json:"id"`
	A     int64  `json:"a"`
	B     int64  `json:"b"`
	Rule  string `json:"rule"`
	CA    int64  `json:"ca"`
	Attr  int64  `json:"attr"`
	AttrA int64  `json:"attra"` // Attrs also names column a (the column the condition constrains); 0 = not
	Omit  bool   `json:"omit"`  // save: Omit("B") precedes Save
	Asg   int64  `json:"asg"`
	K1    int64  `json:"k1"`
	K2    int64  `json:"k2"`
	U     int64  `json:"u"`
	// rendering attributes (no meaning in the reference)
	Sess  []int  `json:"sess"`  // positions (0..) in the chain after which a clone call is inserted
	How   string `json:"how"`   // session | withctx
	Forms string `json:"forms"` // cond/attrs/assign forms: s (struct) m (map) k (key-value), cond also c (through Scopes) i (inline argument), e.g. "smk"
}

type env struct {
	db  *gorm.DB
	sql *sql.DB
}

func newEnv() (*env, error) {
	db, _, sqldb, err := hx.Open(nil)
	if err != nil {
		return nil, err
	}
	sqldb.SetMaxOpenConns(1)
	if err := db.AutoMigrate(&CV{}, &CK{}); err != nil {
		return nil, err
	}
	return &env{db, sqldb}, nil
}

func (e *env) seed() error {
	for _, q := range []string{"DELETE FROM cvs", "DELETE FROM sqlite_sequence",
		"INSERT INTO cvs(id,a,b,deleted_at) VALUES (1,1,1,NULL),(2,2,2,'2020-01-01 00:00:00')",
		"DELETE FROM cks", "INSERT INTO cks(k1,k2,a,b,u) VALUES (1,1,1,1,11),(2,1,2,2,21)"} {
		if _, err := e.sql.Exec(q); err != nil {
			return err
		}
	}
	return nil
}

func (e *env) table() ([]hx.M, error) {
	rows, err := e.sql.Query("SELECT id,a,COALESCE(b,0),deleted_at IS NOT NULL FROM cvs ORDER BY id")
	if err != nil {
		return nil, err
	}
	defer rows.Close()
	out := []hx.M{}
	for rows.Next() {
		var id, a, b int64
		var d bool
		if err := rows.Scan(&id, &a, &b, &d); err != nil {
			return nil, err
		}
		out = append(out, hx.M{"id": id, "a": a, "b": b, "del": d})
	}
	return out, rows.Err()
}

func (e *env) ctable() ([]hx.M, error) {
	rows, err := e.sql.Query("SELECT k1,k2,a,b,u FROM cks ORDER BY k1,k2")
	if err != nil {
		return nil, err
	}
	defer rows.Close()
	out := []hx.M{}
	for rows.Next() {
		var k1, k2, a, b, u int64
		if err := rows.Scan(&k1, &k2, &a, &b, &u); err != nil {
			return nil, err
		}
		out = append(out, hx.M{"k1": k1, "k2": k2, "a": a, "b": b, "u": u})
	}
	return out, rows.Err()
}

func form(forms string, i int) byte {
	if i < len(forms) {
		return forms[i]
	}
	return 's'
}

// do executes one operation; calls is the chain as a list of steps so that clone calls can be
// inserted at any position.
func (e *env) do(o Op) (ret CV, err error) {
	type step func(*gorm.DB) *gorm.DB
	var steps []step
	var fin func(*gorm.DB) *gorm.DB
	switch o.Op {
	case "save":
		v := CV{ID: o.ID, A: o.A, B: o.B}
		if o.Omit {
			steps = append(steps, func(tx *gorm.DB) *gorm.DB { return tx.Omit("B") })
		}
		fin = func(tx *gorm.DB) *gorm.DB { r := tx.Save(&v); ret = v; return r }
	case "savec":
		v := CK{K1: o.K1, K2: o.K2, A: o.A, B: o.B, U: 10*o.K1 + o.K2}
		fin = func(tx *gorm.DB) *gorm.DB { r := tx.Save(&v); ret = CV{A: v.A, B: v.B}; return r }
	case "upsertu":
		v := CK{K1: o.K1, K2: o.K2, A: o.A, B: o.B, U: o.U}
		steps = append(steps, func(tx *gorm.DB) *gorm.DB {
			return tx.Clauses(clause.OnConflict{Columns: []clause.Column{{Name: "u"}}, UpdateAll: true})
		})
		fin = func(tx *gorm.DB) *gorm.DB { r := tx.Create(&v); ret = CV{A: o.A, B: o.B}; return r }
	case "upsert":
		v := CV{ID: o.ID, A: o.A, B: o.B}
		var oc clause.OnConflict
		switch o.Rule {
		case "nothing":
			oc = clause.OnConflict{DoNothing: true}
		case "all":
			oc = clause.OnConflict{UpdateAll: true}
		case "ca":
			oc = clause.OnConflict{Columns: []clause.Column{{Name: "id"}}, DoUpdates: clause.AssignmentColumns([]string{"a"})}
		case "cb":
			oc = clause.OnConflict{Columns: []clause.Column{{Name: "id"}}, DoUpdates: clause.AssignmentColumns([]string{"b"})}
		default:
			oc = clause.OnConflict{Columns: []clause.Column{{Name: "id"}}, DoUpdates: clause.AssignmentColumns([]string{"a", "b"})}
		}
		steps = append(steps, func(tx *gorm.DB) *gorm.DB { return tx.Clauses(oc) })
		fin = func(tx *gorm.DB) *gorm.DB { r := tx.Create(&v); ret = v; return r }
	case "foi", "foc":
		var inline []interface{}
		switch form(o.Forms, 0) {
		case 'm':
			steps = append(steps, func(tx *gorm.DB) *gorm.DB { return tx.Where(map[string]interface{}{"a": o.CA}) })
		case 'c':
			steps = append(steps, func(tx *gorm.DB) *gorm.DB {
				return tx.Scopes(func(d *gorm.DB) *gorm.DB { return d.Where(CV{A: o.CA}) })
			})
		case 'i':
			inline = []interface{}{CV{A: o.CA}}
			steps = append(steps, func(tx *gorm.DB) *gorm.DB { return tx })
		default:
			steps = append(steps, func(tx *gorm.DB) *gorm.DB { return tx.Where(CV{A: o.CA}) })
		}
		if o.Attr != 0 || o.AttrA != 0 {
			am := map[string]interface{}{}
			if o.Attr != 0 {
				am["b"] = o.Attr
			}
			if o.AttrA != 0 {
				am["a"] = o.AttrA
			}
			switch f := form(o.Forms, 1); {
			case f == 'm' || (f == 'k' && o.AttrA != 0):
				steps = append(steps, func(tx *gorm.DB) *gorm.DB { return tx.Attrs(am) })
			case f == 'k':
				steps = append(steps, func(tx *gorm.DB) *gorm.DB { return tx.Attrs("b", o.Attr) })
			default:
				steps = append(steps, func(tx *gorm.DB) *gorm.DB { return tx.Attrs(CV{A: o.AttrA, B: o.Attr}) })
			}
		}
		if o.Asg != 0 {
			switch form(o.Forms, 2) {
			case 'm':
				steps = append(steps, func(tx *gorm.DB) *gorm.DB { return tx.Assign(map[string]interface{}{"b": o.Asg}) })
			case 'k':
				steps = append(steps, func(tx *gorm.DB) *gorm.DB { return tx.Assign("b", o.Asg) })
			default:
				steps = append(steps, func(tx *gorm.DB) *gorm.DB { return tx.Assign(CV{B: o.Asg}) })
			}
		}
		if o.Op == "foi" {
			fin = func(tx *gorm.DB) *gorm.DB { var v CV; r := tx.FirstOrInit(&v, inline...); ret = v; return r }
		} else {
			fin = func(tx *gorm.DB) *gorm.DB { var v CV; r := tx.FirstOrCreate(&v, inline...); ret = v; return r }
		}
	default:
		return ret, fmt.Errorf("bad op %s", o.Op)
	}
	cloneAt := map[int]bool{}
	for _, p := range o.Sess {
		cloneAt[p] = true
	}
	clone := func(tx *gorm.DB) *gorm.DB {
		if o.How == "withctx" {
			return tx.WithContext(context.Background())
		}
		return tx.Session(&gorm.Session{})
	}
	tx := e.db
	if cloneAt[0] {
		tx = clone(tx)
	}
	for i, s := range steps {
		tx = s(tx)
		if cloneAt[i+1] {
			tx = clone(tx)
		}
	}
	res := fin(tx)
	return ret, res.Error
}

func (e *env) run(caseNo int, ops []Op) (hx.M, error) {
	if err := e.seed(); err != nil {
		return nil, err
	}
	out := []hx.M{}
	for _, o := range ops {
		ret, err := e.do(o)
		t, terr := e.table()
		if terr != nil {
			return nil, terr
		}
		ct, terr := e.ctable()
		if terr != nil {
			return nil, terr
		}
		es := "nil"
		if err != nil {
			es = err.Error()
		}
		out = append(out, hx.M{"op": o.Op, "id": o.ID, "a": o.A, "b": o.B, "rule": o.Rule, "ca": o.CA, "attr": o.Attr, "attra": o.AttrA, "omit": o.Omit, "asg": o.Asg, "k1": o.K1, "k2": o.K2, "u": o.U,
			"sess": nzI(o.Sess), "how": o.How, "forms": o.Forms,
			"obs": hx.M{"table": t, "ctable": ct, "ret": hx.M{"id": ret.ID, "a": ret.A, "b": ret.B}, "err": es}})
	}
	rops, _ := json.Marshal(ops)
	return hx.M{"ev": "CHist", "case": caseNo, "ops": out, "rops": string(rops)}, nil
}

func nzI(x []int) []int {
	if x == nil {
		return []int{}
	}
	return x
}

func init() {
	hx.Register("conv-replay", replay)
	hx.Register("conv-random", random)
}

// replay: direction A -- every history of the TLC state graph, each with every Session position.
func replay(args []string) error {
	fs := flag.NewFlagSet("conv-replay", flag.ExitOnError)
	in := fs.String("cases", "", "histories ({ops:[...]})")
	out := fs.String("out", "", "events")
	from := fs.Int("from", 0, "")
	to := fs.Int("to", -1, "")
	variants := fs.Bool("variants", true, "also run every clone position / form variant of the last operation")
	fs.Parse(args)
	lines, err := hx.ReadNDJSON(*in)
	if err != nil {
		return err
	}
	if *to < 0 || *to > len(lines) {
		*to = len(lines)
	}
	e, err := newEnv()
	if err != nil {
		return err
	}
	w, err := hx.NewWriter(*out)
	if err != nil {
		return err
	}
	defer w.Close()
	for i := *from; i < *to; i++ {
		var c struct {
			Ops []Op `json:"ops"`
		}
		if err := json.Unmarshal(lines[i], &c); err != nil {
			return err
		}
		if len(c.Ops) == 0 {
			continue
		}
		ev, err := e.run(i+1, c.Ops)
		if err != nil {
			return err
		}
		w.Emit(ev)
		if !*variants {
			continue
		}
		// Session / WithContext at every position of the last operation's chain, all forms
		last := c.Ops[len(c.Ops)-1]
		nsteps := 1
		if last.Op == "foi" || last.Op == "foc" {
			nsteps = 1
			if last.Attr != 0 || last.AttrA != 0 {
				nsteps++
			}
			if last.Asg != 0 {
				nsteps++
			}
		} else if last.Op == "save" && last.Omit {
			nsteps = 1
		} else if last.Op == "save" || last.Op == "savec" {
			nsteps = 0
		}
		for pos := 0; pos <= nsteps; pos++ {
			for _, how := range []string{"session", "withctx"} {
				v := append(append([]Op{}, c.Ops[:len(c.Ops)-1]...), last)
				v[len(v)-1].Sess = []int{pos}
				v[len(v)-1].How = how
				v[len(v)-1].Forms = []string{"sss", "mmm", "skk", "mks", "css", "ikk", "cmk", "imm"}[(pos+i)%8]
				ev, err := e.run(i+1, v)
				if err != nil {
					return err
				}
				w.Emit(ev)
			}
		}
	}
	return nil
}

func random(args []string) error {
	fs := flag.NewFlagSet("conv-random", flag.ExitOnError)
	out := fs.String("out", "", "events")
	n := fs.Int("n", 300, "")
	seed := fs.Int64("seed", 1, "")
	fs.Parse(args)
	r := rand.New(rand.NewSource(*seed))
	e, err := newEnv()
	if err != nil {
		return err
	}
	w, err := hx.NewWriter(*out)
	if err != nil {
		return err
	}
	defer w.Close()
	for i := 0; i < *n; i++ {
		var ops []Op
		zeroSaved := map[int64]bool{}
		nup := 0
		for k := 0; k < 1+r.Intn(5); k++ {
			o := Op{How: []string{"session", "withctx"}[r.Intn(2)], Forms: string([]byte{"smci"[r.Intn(4)], "smk"[r.Intn(3)], "smk"[r.Intn(3)]})}
			for p := 0; p <= 3; p++ {
				if r.Intn(3) == 0 {
					o.Sess = append(o.Sess, p)
				}
			}
			switch r.Intn(6) {
			case 5:
				nup++
				o.Op, o.K1, o.K2, o.A, o.B = "upsertu", 5, int64(nup), int64(1+r.Intn(3)), int64(r.Intn(4))
				o.U = []int64{11, 21, 99, 98}[r.Intn(4)]
			case 4:
				o.Op, o.K1, o.K2, o.A, o.B = "savec", int64(1+r.Intn(3)), int64(r.Intn(3)), int64(1+r.Intn(3)), int64(r.Intn(4))
				if o.K2 == 0 && zeroSaved[o.K1] {
					o.K2 = 1 // a key with a zero part is saved only while it is free
				}
				if o.K2 == 0 {
					zeroSaved[o.K1] = true
				}
			case 0:
				o.Op, o.ID, o.A, o.B = "save", int64(r.Intn(5)), int64(1+r.Intn(3)), int64(r.Intn(4))
				o.Omit = r.Intn(3) == 0
			case 1:
				o.Op, o.ID, o.A, o.B = "upsert", int64(1+r.Intn(4)), int64(1+r.Intn(3)), int64(1+r.Intn(3))
				o.Rule = []string{"nothing", "all", "ca", "cb", "cab"}[r.Intn(5)]
			default:
				o.Op = []string{"foi", "foc"}[r.Intn(2)]
				o.CA = int64(1 + r.Intn(4))
				if r.Intn(2) == 0 {
					o.Attr = int64(5 + r.Intn(2))
				}
				if r.Intn(3) == 0 {
					o.AttrA = int64(1 + r.Intn(4))
				}
				if r.Intn(2) == 0 {
					o.Asg = int64(7 + r.Intn(2))
				}
			}
			ops = append(ops, o)
		}
		ev, err := e.run(i+1, ops)
		if err != nil {
			return err
		}
		w.Emit(ev)
	}
	return nil
}
