package mig

import (
	"encoding/json"
	"flag"
	"fmt"
	"reflect"
	"sort"
	"strings"
	"sync/atomic"

	"verifharness/hx"
)

// hist: direction A -- every migration history of the Migrate state graph (sequences of AutoMigrate
// calls for models wanting subsets of {column a, column b, index ia on a, check ca on a}) is run on a
// real table; after every call the schema elements the database really has are read back (the small
// projected state), the DDL statements counted and the stored rows dumped. A row is inserted after
// every call.
type helem [2]string

func modelOfWant(want []helem) reflect.Type {
	has := map[string]bool{}
	for _, e := range want {
		has[e[0]+":"+e[1]] = true
	}
	sf := []reflect.StructField{{Name: "ID", Type: reflect.TypeOf(int64(0)), Tag: `gorm:"column:id;primaryKey"`}}
	if has["col:a"] {
		tag := "column:a"
		if has["idx:ia"] {
			tag += ";index:ia"
		}
		if has["chk:ca"] {
			tag += ";check:ca,a >= 0"
		}
		sf = append(sf, reflect.StructField{Name: "A", Type: reflect.TypeOf(int64(0)), Tag: reflect.StructTag(`gorm:"` + tag + `"`)})
	}
	if has["col:b"] {
		sf = append(sf, reflect.StructField{Name: "B", Type: reflect.TypeOf(""), Tag: `gorm:"column:b"`})
	}
	return reflect.StructOf(sf)
}

func wellFormed(want []helem) bool {
	has := map[string]bool{}
	for _, e := range want {
		has[e[0]+":"+e[1]] = true
	}
	return (!has["idx:ia"] && !has["chk:ca"]) || has["col:a"]
}

// haveOf reads the schema elements of the table back from SQLite.
func (e *env) haveOf(table string) ([][2]string, error) {
	e.rec.SetRecording(false)
	defer e.rec.SetRecording(true)
	out := [][2]string{}
	rows, err := e.sql.Query("SELECT name FROM pragma_table_info('" + table + "')")
	if err != nil {
		return nil, err
	}
	for rows.Next() {
		var n string
		rows.Scan(&n)
		if n != "id" {
			out = append(out, [2]string{"col", n})
		}
	}
	rows.Close()
	rows, err = e.sql.Query("SELECT type, name, COALESCE(sql,'') FROM sqlite_master WHERE tbl_name = ?", table)
	if err != nil {
		return nil, err
	}
	for rows.Next() {
		var typ, name, ddl string
		rows.Scan(&typ, &name, &ddl)
		if typ == "table" {
			out = append(out, [2]string{"tbl", "t"})
		}
		if typ == "index" && name == "ia" {
			out = append(out, [2]string{"idx", "ia"})
		}
		if typ == "table" && strings.Contains(ddl, "CONSTRAINT `ca` CHECK") {
			out = append(out, [2]string{"chk", "ca"})
		}
	}
	rows.Close()
	sort.Slice(out, func(i, j int) bool { return out[i][0]+out[i][1] < out[j][0]+out[j][1] })
	return out, nil
}

func (e *env) runHist(caseNo int, wants [][]helem) (hx.M, error) {
	table := fmt.Sprintf("mh%d", atomic.AddInt32(&tcount, 1))
	steps := []hx.M{}
	nrow := 0
	for _, want := range wants {
		e.rec.Reset()
		err := e.db.Table(table).AutoMigrate(reflect.New(modelOfWant(want)).Interface())
		nddl := len(e.ddl())
		es := "nil"
		if err != nil {
			es = err.Error()
		}
		have, herr := e.haveOf(table)
		if herr != nil {
			return nil, herr
		}
		// the stored rows, every column there is (NULL where a row predates the column)
		cols := []string{"id"}
		for _, h := range have {
			if h[0] == "col" {
				cols = append(cols, h[1])
			}
		}
		d, derr := e.dump(table, cols)
		if derr != nil {
			return nil, derr
		}
		if d == nil {
			d = []hx.M{}
		}
		w := [][2]string{}
		for _, x := range want {
			w = append(w, [2]string(x))
		}
		steps = append(steps, hx.M{"want": w, "have": have, "nddl": nddl, "err": es, "rows": d})
		// one more row, with every column the table has now
		nrow++
		e.rec.SetRecording(false)
		q, args := "INSERT INTO "+table+"(id", []interface{}{nrow}
		vals := "?"
		for _, c := range cols[1:] {
			q += "," + c
			vals += ",?"
			if c == "a" {
				args = append(args, 10*nrow)
			} else {
				args = append(args, fmt.Sprintf("s%d", nrow))
			}
		}
		if _, err := e.sql.Exec(q+") VALUES ("+vals+")", args...); err != nil {
			return nil, err
		}
		e.rec.SetRecording(true)
		after, derr := e.dump(table, cols)
		if derr != nil {
			return nil, derr
		}
		steps[len(steps)-1]["rows_after"] = after
	}
	// index and constraint names are per database: the next history starts from a clean one
	e.rec.SetRecording(false)
	_, derr := e.sql.Exec("DROP TABLE IF EXISTS " + table)
	e.rec.SetRecording(true)
	if derr != nil {
		return nil, derr
	}
	return hx.M{"ev": "MigH", "case": caseNo, "steps": steps}, nil
}

func histCmd(args []string) error {
	fs := flag.NewFlagSet("mig-hist", flag.ExitOnError)
	in := fs.String("cases", "", "ndjson {wants: [[[kind, name]]]}")
	out := fs.String("out", "", "events")
	fs.Parse(args)
	lines, err := hx.ReadNDJSON(*in)
	if err != nil {
		return err
	}
	db, rec, sqldb, err := hx.Open(nil)
	if err != nil {
		return err
	}
	defer sqldb.Close()
	sqldb.SetMaxOpenConns(1)
	e := &env{db, rec, sqldb}
	w, err := hx.NewWriter(*out)
	if err != nil {
		return err
	}
	defer w.Close()
	for i, l := range lines {
		var c struct {
			Wants [][]helem `json:"wants"`
		}
		if err := json.Unmarshal(l, &c); err != nil {
			return err
		}
		ok := len(c.Wants) > 0
		for _, wnt := range c.Wants {
			ok = ok && wellFormed(wnt)
		}
		if !ok {
			continue
		}
		ev, err := e.runHist(i+1, c.Wants)
		if err != nil {
			return fmt.Errorf("case %d: %v", i, err)
		}
		w.Emit(ev)
	}
	return nil
}

func init() { hx.Register("mig-hist", histCmd) }
