// Package mig drives C20: histories migrate(v1) -> insert -> migrate(v1 again) -> migrate(v2 = v1 +
// additions) -> read back over generated models; the recording driver classifies every statement.
package mig

import (
	"database/sql"
	"flag"
	"fmt"
	"math/rand"
	"reflect"
	"regexp"
	"strings"
	"sync/atomic"
	"time"

	"gorm.io/gorm"

	"verifharness/hx"
	"verifharness/recdrv"
)

type fdef struct {
	Name string
	Col  string
	Type string // go kind name
	Tags []string
	Idx  string // "" | index | uniqueIndex | composite:<name>
}

var goTypes = map[string]reflect.Type{
	"int64": reflect.TypeOf(int64(0)), "int32": reflect.TypeOf(int32(0)), "uint": reflect.TypeOf(uint(0)), "string": reflect.TypeOf(""),
	"bool": reflect.TypeOf(false), "float64": reflect.TypeOf(float64(0)), "float32": reflect.TypeOf(float32(0)), "bytes": reflect.TypeOf([]byte(nil)),
	"time": reflect.TypeOf(time.Time{}), "pstring": reflect.TypeOf((*string)(nil)), "pint": reflect.TypeOf((*int64)(nil)),
	"nullstring": reflect.TypeOf(sql.NullString{}), "deleted": reflect.TypeOf(gorm.DeletedAt{}),
}

func tagOf(f fdef) string {
	parts := []string{"column:" + f.Col}
	parts = append(parts, f.Tags...)
	switch {
	case f.Idx == "index":
		parts = append(parts, "index")
	case f.Idx == "uniqueIndex":
		parts = append(parts, "uniqueIndex")
	case strings.HasPrefix(f.Idx, "composite:"):
		parts = append(parts, "index:"+f.Idx[len("composite:"):])
	case f.Idx == "partial1":
		parts = append(parts, "index:idx_pu")
	case f.Idx == "partial2":
		// the options of a composite index declared on its SECOND member
		parts = append(parts, "index:idx_pu,unique,where:"+f.Col+" >= 0")
	}
	return `gorm:"` + strings.Join(parts, ";") + `"`
}

func structOf(fs []fdef) reflect.Type {
	sf := []reflect.StructField{{Name: "ID", Type: reflect.TypeOf(int64(0)), Tag: `gorm:"column:id;primaryKey"`}}
	for _, f := range fs {
		sf = append(sf, reflect.StructField{Name: f.Name, Type: goTypes[f.Type], Tag: reflect.StructTag(tagOf(f))})
	}
	return reflect.StructOf(sf)
}

var typeNames = []string{"int64", "int32", "uint", "string", "bool", "float64", "float32", "bytes", "time", "pstring", "pint", "nullstring"}

func randField(r *rand.Rand, i int, prefix string) fdef {
	f := fdef{Name: fmt.Sprintf("%s%d", prefix, i), Col: fmt.Sprintf("%s_c%d", strings.ToLower(prefix), i), Type: typeNames[r.Intn(len(typeNames))]}
	if r.Intn(6) == 0 {
		// renamed, mixed-case column (a name containing a space breaks the DDL parser of the external
		// SQLite migrator: every later AutoMigrate rebuilds the table and fails -- not generated)
		f.Col = fmt.Sprintf("%s_Ren_%d", prefix, i)
	}
	switch f.Type {
	case "string", "pstring", "nullstring":
		switch r.Intn(8) {
		case 0:
			f.Tags = append(f.Tags, "size:64")
		case 1:
			f.Tags = append(f.Tags, "default:abc")
		case 2:
			f.Tags = append(f.Tags, "default:'quoted value'")
		case 3:
			f.Tags = append(f.Tags, "default:''")
		case 4:
			f.Tags = append(f.Tags, "type:varchar(32)")
		case 5:
			f.Tags = append(f.Tags, "comment:a comment")
		case 6:
			f.Tags = append(f.Tags, "type:text", "default:abc")
		}
	case "int64", "int32", "uint", "pint":
		switch r.Intn(7) {
		case 0:
			f.Tags = append(f.Tags, "default:5")
		case 1:
			f.Tags = append(f.Tags, "not null", "default:0")
		case 2:
			f.Tags = append(f.Tags, "check:"+f.Col+" >= 0")
		case 3:
			f.Tags = append(f.Tags, "default:null")
		case 4:
			if f.Type != "pint" && f.Type != "uint" {
				f.Tags = append(f.Tags, "type:integer", "default:7")
			}
		}
	case "bool":
		switch r.Intn(8) {
		case 0:
			f.Tags = append(f.Tags, "default:true")
		case 1:
			f.Tags = append(f.Tags, "default:false")
		case 2:
			f.Tags = append(f.Tags, "type:boolean", "default:1")
		case 3:
			f.Tags = append(f.Tags, "type:boolean", "default:0")
		case 4:
			f.Tags = append(f.Tags, "type:boolean")
		case 5:
			f.Tags = append(f.Tags, "default:1")
		}
	case "float32":
		// defaults that are not exactly representable in binary32
		switch r.Intn(4) {
		case 0:
			f.Tags = append(f.Tags, "default:0.1")
		case 1:
			f.Tags = append(f.Tags, "default:3.14")
		case 2:
			f.Tags = append(f.Tags, "default:1.5")
		}
	case "float64":
		switch r.Intn(5) {
		case 3:
			f.Tags = append(f.Tags, "default:0.35")
		case 0:
			f.Tags = append(f.Tags, "precision:10", "scale:2")
		case 1:
			f.Tags = append(f.Tags, "default:1.5")
		case 2:
			f.Tags = append(f.Tags, "type:real", "default:2.5")
		}
	case "time":
		switch r.Intn(5) {
		case 0:
			f.Tags = append(f.Tags, "autoCreateTime")
		case 1:
			// (SQLite cannot ADD a column with a non-constant default: v1 fields only)
			if prefix == "A" {
				f.Tags = append(f.Tags, "default:CURRENT_TIMESTAMP")
			}
		case 2:
			if prefix == "A" {
				f.Tags = append(f.Tags, "type:datetime", "default:current_timestamp")
			}
		}
	}
	if f.Type != "bytes" && !strings.Contains(f.Col, " ") {
		k := r.Intn(8)
		if f.Type == "bool" && (k == 1 || k == 3) { // only two distinct values: cannot be unique over 3 rows
			k = 0
		}
		switch k {
		case 0:
			f.Idx = "index"
		case 1:
			f.Idx = "uniqueIndex"
		case 2:
			f.Idx = "composite:idx_comp"
		case 3:
			if len(f.Tags) == 0 {
				f.Tags = append(f.Tags, "unique")
			}
		}
	}
	return f
}

var tcount int32

var ddlRe = regexp.MustCompile(`(?is)^\s*(CREATE\s+(UNIQUE\s+)?INDEX|CREATE\s+TABLE|ALTER\s+TABLE|DROP\s+TABLE|DROP\s+INDEX|INSERT\s+INTO|UPDATE|DELETE)\b`)
var objRe = regexp.MustCompile("(?is)(?:INDEX|TABLE|INTO)\\s+(?:IF\\s+(?:NOT\\s+)?EXISTS\\s+)?[`\"]?([A-Za-z0-9_ ]+?)[`\"]?(?:\\s|\\(|$)")
var addColRe = regexp.MustCompile("(?is)ALTER\\s+TABLE\\s+[`\"]?\\w+[`\"]?\\s+ADD\\s+[`\"]?([^`\"]+)[`\"]?\\s")

// classify turns a statement into a DDL event (nil for reads / pragmas).
func classify(sqlText string) hx.M {
	m := ddlRe.FindStringSubmatch(sqlText)
	if m == nil {
		return nil
	}
	up := strings.ToUpper(strings.Join(strings.Fields(m[1]), " "))
	kind := ""
	obj := ""
	switch {
	case strings.HasPrefix(up, "CREATE TABLE"):
		kind = "create_table"
	case strings.Contains(up, "INDEX") && strings.HasPrefix(up, "CREATE"):
		kind = "create_index"
	case strings.HasPrefix(up, "ALTER TABLE"):
		kind = "alter_table"
		if a := addColRe.FindStringSubmatch(sqlText); a != nil {
			kind = "add_column"
			obj = a[1]
		}
	case strings.HasPrefix(up, "DROP"):
		kind = "drop"
	default:
		kind = "dml" // INSERT/UPDATE/DELETE issued by the migrator (table rebuild)
	}
	if obj == "" {
		if o := objRe.FindStringSubmatch(sqlText); o != nil {
			obj = strings.TrimSpace(o[1])
		}
	}
	return hx.M{"kind": kind, "object": obj, "sql": sqlText}
}

type env struct {
	db  *gorm.DB
	rec *recdrv.Rec
	sql *sql.DB
}

func (e *env) ddl() []hx.M {
	out := []hx.M{}
	for _, ev := range e.rec.Events() {
		if ev.K != "exec" && ev.K != "query" {
			continue
		}
		if c := classify(ev.SQL); c != nil {
			out = append(out, c)
		}
	}
	return out
}

func (e *env) dump(table string, cols []string) ([]hx.M, error) {
	e.rec.SetRecording(false)
	defer e.rec.SetRecording(true)
	q := []string{}
	for _, c := range cols {
		q = append(q, "`"+c+"`")
	}
	rows, err := e.sql.Query("SELECT " + strings.Join(q, ",") + " FROM " + table + " ORDER BY id")
	if err != nil {
		return nil, err
	}
	defer rows.Close()
	out := []hx.M{}
	for rows.Next() {
		vals := make([]interface{}, len(cols))
		ptrs := make([]interface{}, len(cols))
		for i := range vals {
			ptrs[i] = &vals[i]
		}
		if err := rows.Scan(ptrs...); err != nil {
			return nil, err
		}
		r := hx.M{}
		for i, c := range cols {
			r[c] = fmt.Sprintf("%T:%v", vals[i], vals[i])
		}
		out = append(out, r)
	}
	return out, rows.Err()
}

func setVals(v reflect.Value, fs []fdef, k int) {
	for i, f := range fs {
		fv := v.FieldByName(f.Name)
		n := int64(k*10 + i + 1)
		switch f.Type {
		case "int64", "int32":
			fv.SetInt(n)
		case "uint":
			fv.SetUint(uint64(n))
		case "string":
			fv.SetString(fmt.Sprintf("s%d'%d", k, i))
		case "bool":
			fv.SetBool(k%2 == 0)
		case "float64", "float32":
			fv.SetFloat(float64(n) + 0.5)
		case "bytes":
			fv.SetBytes([]byte{byte(n), 0, 0xff})
		case "time":
			fv.Set(reflect.ValueOf(time.Date(2020, 1, 1+k, i, 0, 0, 0, time.UTC)))
		case "pstring":
			s := fmt.Sprintf("p%d", n)
			fv.Set(reflect.ValueOf(&s))
		case "pint":
			fv.Set(reflect.ValueOf(&n))
		case "nullstring":
			fv.Set(reflect.ValueOf(sql.NullString{String: fmt.Sprintf("n%d", n), Valid: true}))
		}
	}
}

func run(r *rand.Rand, caseNo int) (hx.M, error) {
	db, rec, sqldb, err := hx.Open(nil)
	if err != nil {
		return nil, err
	}
	defer sqldb.Close()
	sqldb.SetMaxOpenConns(1)
	e := &env{db, rec, sqldb}
	table := fmt.Sprintf("mg%d", atomic.AddInt32(&tcount, 1))
	n1 := 1 + r.Intn(4)
	var v1 []fdef
	for i := 0; i < n1; i++ {
		v1 = append(v1, randField(r, i, "A"))
	}
	if r.Intn(3) == 0 {
		// a composite, unique, partial index over two integer fields
		var ints []int
		for i, f := range v1 {
			if (f.Type == "int64" || f.Type == "int32" || f.Type == "uint") && !strings.Contains(f.Col, "Ren") {
				ints = append(ints, i)
			}
		}
		if len(ints) >= 2 {
			v1[ints[0]].Idx, v1[ints[1]].Idx = "partial1", "partial2"
			// (no other tags on the members: unique / default / check would interfere with the three seeded rows)
			v1[ints[0]].Tags, v1[ints[1]].Tags = nil, nil
		}
	}
	if r.Intn(4) == 0 {
		v1 = append(v1, fdef{Name: "DeletedAt", Col: "deleted_at", Type: "deleted", Idx: "index"})
	}
	// v2 = v1 + added fields; sometimes an index added to an existing field
	v2 := append([]fdef{}, v1...)
	addedIdx := ""
	if r.Intn(3) == 0 {
		for i := range v2 {
			if v2[i].Idx == "" && v2[i].Type != "bytes" && v2[i].Type != "deleted" && !strings.Contains(v2[i].Col, " ") && len(v2[i].Tags) == 0 {
				v2[i].Idx = "index"
				addedIdx = v2[i].Col
				break
			}
		}
	}
	// sometimes a unique constraint added to an existing field (its three stored values are distinct)
	addedUniq := ""
	if addedIdx == "" && r.Intn(4) == 0 {
		for i := range v2 {
			t := v2[i].Type
			if v2[i].Idx == "" && len(v2[i].Tags) == 0 && !strings.Contains(v2[i].Col, " ") && (t == "int64" || t == "int32" || t == "uint" || t == "string") {
				v2[i].Tags = []string{"unique"}
				addedUniq = v2[i].Col
				break
			}
		}
	}
	var added []fdef
	for i := 0; i < 1+r.Intn(2); i++ {
		f := randField(r, i, "B")
		// a column added to a populated table cannot be unique unless it starts out NULL
		hasDefault := false
		for _, t := range f.Tags {
			if strings.HasPrefix(t, "default:") && t != "default:null" {
				hasDefault = true
			}
		}
		{ // SQLite cannot add a UNIQUE column with ALTER TABLE: unique constraints only on the first version
			var keep []string
			for _, t := range f.Tags {
				if t != "unique" {
					keep = append(keep, t)
				}
			}
			f.Tags = keep
		}
		if hasDefault || f.Type == "bool" || f.Type == "int64" || f.Type == "int32" || f.Type == "uint" || f.Type == "string" || f.Type == "float64" || f.Type == "float32" || f.Type == "time" {
			if f.Idx == "uniqueIndex" {
				f.Idx = "index"
			}
			var keep []string
			for _, t := range f.Tags {
				if t != "unique" {
					keep = append(keep, t)
				}
			}
			f.Tags = keep
		}
		added = append(added, f)
	}
	v2 = append(v2, added...)
	t1, t2 := structOf(v1), structOf(v2)
	steps := []hx.M{}
	v1cols := []string{"id"}
	for _, f := range v1 {
		v1cols = append(v1cols, f.Col)
	}
	step := func(name string, fn func() error) error {
		rec.Reset()
		err := fn()
		es := "nil"
		if err != nil {
			es = err.Error()
		}
		d, derr := e.dump(table, v1cols)
		if derr != nil && name != "m1" {
			d = []hx.M{{"_err": derr.Error()}}
		}
		if d == nil {
			d = []hx.M{}
		}
		steps = append(steps, hx.M{"step": name, "ddl": e.ddl(), "err": es, "dump": d})
		return err
	}
	step("m1", func() error { return db.Table(table).AutoMigrate(reflect.New(t1).Interface()) })
	step("insert", func() error {
		for k := 1; k <= 3; k++ {
			v := reflect.New(t1)
			setVals(v.Elem(), v1, k)
			if err := db.Table(table).Create(v.Interface()).Error; err != nil {
				return err
			}
		}
		return nil
	})
	step("m1again", func() error { return db.Table(table).AutoMigrate(reflect.New(t1).Interface()) })
	step("m2", func() error { return db.Table(table).AutoMigrate(reflect.New(t2).Interface()) })
	step("m2again", func() error { return db.Table(table).AutoMigrate(reflect.New(t2).Interface()) })
	// the migrated table accepts and returns records of the new model
	accept := "nil"
	{
		v := reflect.New(t2)
		setVals(v.Elem(), v2, 7)
		if err := db.Table(table).Create(v.Interface()).Error; err != nil {
			accept = "create: " + err.Error()
		} else {
			back := reflect.New(t2)
			if err := db.Table(table).Order("id desc").First(back.Interface()).Error; err != nil {
				accept = "first: " + err.Error()
			} else {
				for _, f := range v2 {
					if f.Type == "deleted" {
						continue
					}
					a, b := v.Elem().FieldByName(f.Name).Interface(), back.Elem().FieldByName(f.Name).Interface()
					if !eq(a, b) {
						accept = fmt.Sprintf("field %s read back %v, wrote %v", f.Name, b, a)
					}
				}
			}
		}
	}
	mj := func(fs []fdef) []hx.M {
		out := []hx.M{}
		for _, f := range fs {
			tg := f.Tags
			if tg == nil {
				tg = []string{}
			}
			out = append(out, hx.M{"name": f.Name, "col": f.Col, "type": f.Type, "tags": tg, "idx": f.Idx})
		}
		return out
	}
	// the named indexes of the model and what the final schema has for them
	want, final := []hx.M{}, []hx.M{}
	names := map[string]bool{}
	for _, f := range append(append([]fdef{}, v2...), added...) {
		switch {
		case f.Idx == "partial2" && !names["idx_pu"]:
			names["idx_pu"] = true
			want = append(want, hx.M{"name": "idx_pu", "unique": true, "partial": true})
		case f.Idx == "composite:idx_comp" && !names["idx_comp"]:
			names["idx_comp"] = true
			want = append(want, hx.M{"name": "idx_comp", "unique": false, "partial": false})
		}
	}
	// columns the model declares unique, and those the final schema reports as unique
	wantU, finalU := []string{}, []string{}
	for _, f := range v2 {
		for _, t := range f.Tags {
			if t == "unique" {
				wantU = append(wantU, f.Col)
			}
		}
	}
	rec.SetRecording(false)
	if cts, err := db.Table(table).Migrator().ColumnTypes(reflect.New(t2).Interface()); err == nil {
		for _, ct := range cts {
			if u, ok := ct.Unique(); ok && u {
				finalU = append(finalU, ct.Name())
			}
		}
	}
	if rows, err := sqldb.Query("SELECT name, sql FROM sqlite_master WHERE type = 'index' AND tbl_name = ? AND sql IS NOT NULL", table); err == nil {
		for rows.Next() {
			var name, ddl string
			if rows.Scan(&name, &ddl) == nil && names[name] {
				up := strings.ToUpper(ddl)
				final = append(final, hx.M{"name": name, "unique": strings.Contains(up, "UNIQUE INDEX"), "partial": strings.Contains(up, " WHERE ")})
			}
		}
		rows.Close()
	}
	return hx.M{"ev": "Mig", "case": caseNo, "table": table, "v1": mj(v1), "added": mj(added), "added_index_on": addedIdx, "steps": steps, "accept": accept,
		"want_indexes": want, "final_indexes": final, "reltables": []string{}, "fk": false,
		"added_unique_on": addedUniq, "want_unique": wantU, "final_unique": finalU}, nil
}

func eq(a, b interface{}) bool {
	switch x := a.(type) {
	case time.Time:
		return x.Equal(b.(time.Time))
	case *string:
		y := b.(*string)
		return (x == nil) == (y == nil) && (x == nil || *x == *y)
	case *int64:
		y := b.(*int64)
		return (x == nil) == (y == nil) && (x == nil || *x == *y)
	case []byte:
		return string(x) == string(b.([]byte))
	}
	return reflect.DeepEqual(a, b)
}

func init() { hx.Register("mig-random", random) }

// ---- a fixed pair of model versions whose second version adds relations (belongs to, many to many):
// AutoMigrate must also create the tables the new relations refer to, with and without
// DisableForeignKeyConstraintWhenMigrating.
type MOwner struct {
	ID   int64
	Name string
}
type MTag struct {
	ID   int64
	Name string
}
type MRelV1 struct {
	ID int64
	A  int64 `gorm:"index"`
}
type MRelV2 struct {
	ID      int64
	A       int64 `gorm:"index"`
	B       string
	OwnerID *int64
	Owner   *MOwner
	Tags    []MTag `gorm:"many2many:mrel_tags;joinForeignKey:MRelID;joinReferences:MTagID"`
}

func (MRelV1) TableName() string { return "mrel" }
func (MRelV2) TableName() string { return "mrel" }

func runRel(r *rand.Rand, caseNo int) (hx.M, error) {
	noFK := r.Intn(2) == 0
	db, rec, sqldb, err := hx.Open(&gorm.Config{DisableForeignKeyConstraintWhenMigrating: noFK})
	if err != nil {
		return nil, err
	}
	defer sqldb.Close()
	sqldb.SetMaxOpenConns(1)
	e := &env{db, rec, sqldb}
	steps := []hx.M{}
	step := func(name string, fn func() error) {
		rec.Reset()
		err := fn()
		es := "nil"
		if err != nil {
			es = err.Error()
		}
		d, derr := e.dump("mrel", []string{"id", "a"})
		if derr != nil && name != "m1" {
			d = []hx.M{{"_err": derr.Error()}}
		}
		if d == nil {
			d = []hx.M{}
		}
		steps = append(steps, hx.M{"step": name, "ddl": e.ddl(), "err": es, "dump": d})
	}
	step("m1", func() error { return db.AutoMigrate(&MRelV1{}) })
	step("insert", func() error {
		for k := 1; k <= 3; k++ {
			if err := db.Create(&MRelV1{A: int64(k)}).Error; err != nil {
				return err
			}
		}
		return nil
	})
	step("m1again", func() error { return db.AutoMigrate(&MRelV1{}) })
	step("m2", func() error { return db.AutoMigrate(&MRelV2{}) })
	step("m2again", func() error { return db.AutoMigrate(&MRelV2{}) })
	accept := "nil"
	rec.SetRecording(false)
	v := MRelV2{A: 7, B: "b", Owner: &MOwner{Name: "o"}, Tags: []MTag{{Name: "t1"}, {Name: "t2"}}}
	if err := db.Create(&v).Error; err != nil {
		accept = "create: " + err.Error()
	} else {
		var back MRelV2
		if err := db.Preload("Owner").Preload("Tags").First(&back, v.ID).Error; err != nil {
			accept = "read: " + err.Error()
		} else if back.Owner == nil || back.Owner.Name != "o" || len(back.Tags) != 2 || back.B != "b" {
			accept = fmt.Sprintf("read back %+v", back)
		}
	}
	fields := func(names ...string) []hx.M {
		out := []hx.M{}
		for _, n := range names {
			out = append(out, hx.M{"name": n, "col": n, "type": "int64", "tags": []string{}, "idx": ""})
		}
		return out
	}
	return hx.M{"ev": "Mig", "case": caseNo, "table": "mrel", "v1": fields("a"), "added": fields("b", "owner_id"), "added_index_on": "", "steps": steps, "accept": accept,
		"want_indexes": []hx.M{}, "final_indexes": []hx.M{}, "reltables": []string{"m_owners", "m_tags", "mrel_tags"}, "fk": !noFK,
		"added_unique_on": "", "want_unique": []string{}, "final_unique": []string{}}, nil
}

func random(args []string) error {
	fs := flag.NewFlagSet("mig-random", flag.ExitOnError)
	out := fs.String("out", "", "events")
	n := fs.Int("n", 100, "")
	seed := fs.Int64("seed", 1, "")
	only := fs.Int("only", 0, "")
	fs.Parse(args)
	r := rand.New(rand.NewSource(*seed))
	w, err := hx.NewWriter(*out)
	if err != nil {
		return err
	}
	defer w.Close()
	for i := 0; i < *n; i++ {
		var ev hx.M
		var err error
		if i%10 == 9 {
			ev, err = runRel(r, i+1)
		} else {
			ev, err = run(r, i+1)
		}
		if err != nil {
			return err
		}
		if *only == 0 || *only == i+1 {
			w.Emit(ev)
		}
	}
	return nil
}
