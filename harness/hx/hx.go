// Package hx holds helpers shared by all per-property drivers: opening gorm on the
// recording driver, NDJSON I/O, tagged cells, command registry.
package hx

import (
	"bufio"
	"database/sql"
	"encoding/json"
	"fmt"
	"os"
	"sort"

	"gorm.io/driver/sqlite"
	"gorm.io/gorm"
	"gorm.io/gorm/logger"

	"verifharness/recdrv"
)

// Cmd is a sub-command of vh.
type Cmd func(args []string) error

var registry = map[string]Cmd{}

func Register(name string, c Cmd)    { registry[name] = c }
func Lookup(name string) (Cmd, bool) { c, ok := registry[name]; return c, ok }
func Names() []string {
	var n []string
	for k := range registry {
		n = append(n, k)
	}
	sort.Strings(n)
	return n
}

// Open opens gorm on a fresh recording in-memory SQLite database.
func Open(cfg *gorm.Config) (*gorm.DB, *recdrv.Rec, *sql.DB, error) {
	rec := recdrv.New()
	sqldb := rec.OpenDB()
	if cfg == nil {
		cfg = &gorm.Config{}
	}
	if cfg.Logger == nil {
		cfg.Logger = logger.Discard
	}
	db, err := gorm.Open(sqlite.Dialector{Conn: sqldb}, cfg)
	return db, rec, sqldb, err
}

// StrictSP is the SQLite dialector with SavePoint/RollbackTo that REPORT the statement's error.
// The official dialectors (sqlite, postgres, mysql) execute SAVEPOINT / ROLLBACK TO and return nil
// whatever happened, so gorm's own error handling around save points is unreachable with them.
type StrictSP struct{ sqlite.Dialector }

func (d StrictSP) SavePoint(tx *gorm.DB, name string) error {
	return tx.Exec("SAVEPOINT " + name).Error
}
func (d StrictSP) RollbackTo(tx *gorm.DB, name string) error {
	return tx.Exec("ROLLBACK TO SAVEPOINT " + name).Error
}

// OpenStrict is Open with the StrictSP dialector.
func OpenStrict(cfg *gorm.Config) (*gorm.DB, *recdrv.Rec, *sql.DB, error) {
	rec := recdrv.New()
	sqldb := rec.OpenDB()
	if cfg == nil {
		cfg = &gorm.Config{}
	}
	if cfg.Logger == nil {
		cfg.Logger = logger.Discard
	}
	db, err := gorm.Open(StrictSP{sqlite.Dialector{Conn: sqldb}}, cfg)
	return db, rec, sqldb, err
}

// OpenOn opens gorm on an existing *sql.DB.
func OpenOn(sqldb gorm.ConnPool, cfg *gorm.Config) (*gorm.DB, error) {
	if cfg == nil {
		cfg = &gorm.Config{}
	}
	if cfg.Logger == nil {
		cfg.Logger = logger.Discard
	}
	return gorm.Open(sqlite.Dialector{Conn: sqldb}, cfg)
}

// Writer writes NDJSON.
type Writer struct {
	f *os.File
	w *bufio.Writer
	N int
}

func NewWriter(path string) (*Writer, error) {
	f, err := os.Create(path)
	if err != nil {
		return nil, err
	}
	return &Writer{f: f, w: bufio.NewWriterSize(f, 1<<20)}, nil
}
func (w *Writer) Emit(v interface{}) {
	b, err := json.Marshal(v)
	if err != nil {
		panic(err)
	}
	w.w.Write(b)
	w.w.WriteByte('\n')
	w.N++
}
func (w *Writer) Close() error { w.w.Flush(); return w.f.Close() }

// ReadNDJSON reads every line of path into out (slice of json.RawMessage).
func ReadNDJSON(path string) ([]json.RawMessage, error) {
	f, err := os.Open(path)
	if err != nil {
		return nil, err
	}
	defer f.Close()
	sc := bufio.NewScanner(f)
	sc.Buffer(make([]byte, 1<<20), 1<<28)
	var out []json.RawMessage
	for sc.Scan() {
		b := sc.Bytes()
		if len(b) == 0 {
			continue
		}
		c := make([]byte, len(b))
		copy(c, b)
		out = append(out, c)
	}
	return out, sc.Err()
}

// M is a JSON object.
type M = map[string]interface{}

// Cell constructors (tagged, never JSON null).
func CNull() M           { return M{"t": "n"} }
func CInt(v int64) M     { return M{"t": "i", "v": v} }
func CStr(v string) M    { return M{"t": "s", "v": v} }
func CBool(v bool) M     { return M{"t": "b", "v": v} }
func COpaque(v string) M { return M{"t": "o", "v": v} }

// CellOf canonicalises a value scanned from database/sql (raw) into a cell.
func CellOf(v interface{}) M {
	switch x := v.(type) {
	case nil:
		return CNull()
	case int64:
		return CInt(x)
	case int:
		return CInt(int64(x))
	case string:
		return CStr(x)
	case []byte:
		return CStr(string(x))
	case bool:
		return CBool(x)
	case float64:
		return COpaque(fmt.Sprintf("f:%v", x))
	default:
		return COpaque(fmt.Sprintf("%T:%v", v, v))
	}
}

// Dump reads a whole table raw (no gorm), ordered by the first column.
func Dump(q interface {
	Query(string, ...interface{}) (*sql.Rows, error)
}, table string) ([]M, error) {
	rows, err := q.Query("SELECT * FROM " + table + " ORDER BY 1")
	if err != nil {
		return nil, err
	}
	defer rows.Close()
	cols, _ := rows.Columns()
	var out []M
	for rows.Next() {
		vals := make([]interface{}, len(cols))
		ptrs := make([]interface{}, len(cols))
		for i := range vals {
			ptrs[i] = &vals[i]
		}
		if err := rows.Scan(ptrs...); err != nil {
			return nil, err
		}
		r := M{}
		for i, c := range cols {
			r[c] = CellOf(vals[i])
		}
		out = append(out, r)
	}
	return out, rows.Err()
}

// Fatalf prints and exits 2 (infrastructure failure, never a violation).
func Fatalf(f string, a ...interface{}) {
	fmt.Fprintf(os.Stderr, "HARNESS-ERROR: "+f+"\n", a...)
	os.Exit(2)
}
