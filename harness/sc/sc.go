//go:build verif

// Package sc replays behaviours of spec/SchemaCache.tla on the real schema cache
// (schema.Parse on one shared sync.Map), the verif instrumentation points of schema/schema.go
// acting as scheduler gates (C07, direction A).
package sc

import (
	"encoding/json"
	"flag"
	"fmt"
	"reflect"
	"runtime"
	"sort"
	"strconv"
	"strings"
	"sync"
	"time"
	"unsafe"

	"gorm.io/gorm/schema"

	"verifharness/hx"
)

// the model types of SchemaCacheMC.tla
type SU struct {
	ID        int64
	CompanyID *int64
	Company   *SC
	Orders    []SO `gorm:"foreignKey:UserID"`
	Profile   *SP  `gorm:"foreignKey:UserID"`
}
type SC struct {
	ID    int64
	Users []SU `gorm:"foreignKey:CompanyID"`
}
type SO struct {
	ID     int64
	UserID int64
	User   *SU
}
type SP struct {
	ID     int64
	UserID int64
}
type SS struct{ ID int64 }

var models = map[string]interface{}{"U": &SU{}, "C": &SC{}, "O": &SO{}, "P": &SP{}, "S": &SS{}}
var typeName = map[reflect.Type]string{reflect.TypeOf(SU{}): "U", reflect.TypeOf(SC{}): "C", reflect.TypeOf(SO{}): "O", reflect.TypeOf(SP{}): "P", reflect.TypeOf(SS{}): "S"}

type Step struct {
	G int    `json:"g"`
	A string `json:"a"`
	T string `json:"t"`
	// observed after the step: the types present in the cache
	C []string `json:"c"`
}

type Schedule struct {
	Plan []string `json:"plan"` // goroutine -> type
	Warm []string `json:"warm"`
	Hist []Step   `json:"hist"`
}

func goid() int {
	buf := make([]byte, 64)
	n := runtime.Stack(buf, false)
	f := strings.Fields(string(buf[:n]))
	id, _ := strconv.Atoi(f[1])
	return id
}

type gate struct {
	mu     sync.Mutex
	parked map[int]chan struct{}
	at     map[int]string
	typ    map[int]string
	open   bool
	who    map[int]int // goroutine id -> model goroutine
}

func (g *gate) park(point, t string) {
	gi := g.me()
	if gi == 0 {
		return
	}
	g.mu.Lock()
	if g.open {
		g.mu.Unlock()
		return
	}
	if point == "sc:wait!" {
		// not held back: the schema is not initialised yet, so the goroutine goes on into the real wait
		// (the point is recorded; code that does not really wait shows up at its next point too early,
		// with a schema that is not initialised)
		g.at[gi], g.typ[gi] = "sc:wait", t
		g.mu.Unlock()
		return
	}
	ch := make(chan struct{})
	g.parked[gi], g.at[gi], g.typ[gi] = ch, point, t
	g.mu.Unlock()
	<-ch
}

func (g *gate) me() int {
	id := goid()
	g.mu.Lock()
	defer g.mu.Unlock()
	return g.who[id]
}

func (g *gate) where(gi int) (string, string) {
	g.mu.Lock()
	defer g.mu.Unlock()
	return g.at[gi], g.typ[gi]
}

func (g *gate) release(gi int) {
	g.mu.Lock()
	ch := g.parked[gi]
	delete(g.parked, gi)
	delete(g.at, gi)
	delete(g.typ, gi)
	g.mu.Unlock()
	if ch != nil {
		close(ch)
	}
}

// clearWaiting: if the goroutine passed sc:wait without being held (it went into the real wait), forget
// that mark and report true -- atomically, so that a goroutine that has meanwhile parked at its next
// point is not released from there.
func (g *gate) clearWaiting(gi int) bool {
	g.mu.Lock()
	defer g.mu.Unlock()
	if g.at[gi] == "sc:wait" && g.parked[gi] == nil {
		delete(g.at, gi)
		delete(g.typ, gi)
		return true
	}
	return false
}

func (g *gate) openAll() {
	g.mu.Lock()
	g.open = true
	for gi, ch := range g.parked {
		close(ch)
		delete(g.parked, gi)
	}
	g.mu.Unlock()
}

// initialised reads the unexported initialized channel of a *schema.Schema.
func initialised(s *schema.Schema) bool {
	f := reflect.ValueOf(s).Elem().FieldByName("initialized")
	ch := reflect.NewAt(f.Type(), unsafe.Pointer(f.UnsafeAddr())).Elem()
	chosen, _, _ := reflect.Select([]reflect.SelectCase{{Dir: reflect.SelectRecv, Chan: ch}, {Dir: reflect.SelectDefault}})
	return chosen == 0
}

type Obs struct {
	Ran     int               `json:"ran"`
	Drift   string            `json:"drift"`
	Hung    bool              `json:"hung"`
	Results map[string]int    `json:"results"` // goroutine -> number of the schema object it got (objects numbered by first appearance)
	ResType map[string]string `json:"restype"`
	ResInit map[string]bool   `json:"resinit"`
	Errs    []string          `json:"errs"`
}

// expected arrival points of a step
var arrive = map[string][]string{
	"load1": {"sc:wait", "sc:miss1"}, "load2": {"sc:wait", "sc:miss2"}, "los": {"sc:wait", "sc:stored"},
	"relhit": {"sc:relhit"}, "relmiss": {"sc:relmiss"}, "init": {"sc:relparsed", "got"}, "waitdone": {"sc:relparsed", "got"},
	"usebegin": {"using"}, "useend": {"done"},
}

func Replay(s Schedule) (Obs, []Step, error) {
	store := &sync.Map{}
	namer := schema.NamingStrategy{}
	for _, t := range s.Warm {
		if _, err := schema.Parse(models[t], store, namer); err != nil {
			return Obs{}, nil, err
		}
	}
	g := &gate{parked: map[int]chan struct{}{}, at: map[int]string{}, typ: map[int]string{}, who: map[int]int{}}
	schema.VerifHook = func(point string, args ...interface{}) {
		t := typeName[args[0].(reflect.Type)]
		if t == "" || point == "sc:init" {
			return // sc:init only marks the point; close(initialized) follows at once
		}
		if point == "sc:wait" {
			if v, ok := store.Load(args[0]); ok {
				if sc, ok := v.(*schema.Schema); ok && !initialised(sc) {
					point = "sc:wait!"
				}
			}
		}
		g.park(point, t)
	}
	defer func() { schema.VerifHook = nil }()
	n := len(s.Plan)
	o := Obs{Results: map[string]int{}, ResType: map[string]string{}, ResInit: map[string]bool{}}
	got := make([]*schema.Schema, n)
	initAt := make([]bool, n)
	errs := make([]error, n)
	done := make([]chan struct{}, n)
	reg := make(chan struct{}, n)
	for i := 0; i < n; i++ {
		done[i] = make(chan struct{})
		go func(i int) {
			defer close(done[i])
			g.mu.Lock()
			g.who[goid()] = i + 1
			g.mu.Unlock()
			reg <- struct{}{}
			g.park("start", s.Plan[i])
			got[i], errs[i] = schema.Parse(models[s.Plan[i]], store, namer)
			initAt[i] = got[i] != nil && initialised(got[i]) // at the moment Parse returns
			g.park("got", s.Plan[i])
			// use: walk the schema and, through its relationships, the related schemas
			if got[i] != nil {
				cnt := 0
				for _, rel := range got[i].Relationships.Relations {
					if rel.FieldSchema != nil {
						cnt += len(rel.FieldSchema.Fields) + len(rel.FieldSchema.Relationships.Relations)
					}
				}
				_ = cnt
			}
			g.park("using", s.Plan[i])
		}(i)
	}
	for i := 0; i < n; i++ {
		<-reg
	}
	waitAt := func(gi int, d time.Duration) string {
		deadline := time.Now().Add(d)
		for time.Now().Before(deadline) {
			select {
			case <-done[gi-1]:
				return "done"
			default:
			}
			if at, _ := g.where(gi); at != "" {
				return at
			}
			time.Sleep(100 * time.Microsecond)
		}
		return ""
	}
	for i := 1; i <= n; i++ {
		if waitAt(i, 15*time.Second) != "start" {
			return o, nil, fmt.Errorf("goroutine %d did not start", i)
		}
	}
	snapshot := func() []string {
		var c []string
		store.Range(func(k, v interface{}) bool {
			if t, ok := k.(reflect.Type); ok && typeName[t] != "" {
				c = append(c, typeName[t])
			}
			return true
		})
		sort.Strings(c)
		if c == nil {
			c = []string{}
		}
		return c
	}
	hist := append([]Step{}, s.Hist...)
	for idx, st := range hist {
		if at, _ := g.where(st.G); at == "" {
			o.Drift = fmt.Sprintf("step %d: g%d is not parked", idx+1, st.G)
			break
		}
		var at string
		if st.A != "waitdone" {
			g.release(st.G)
			at = waitAt(st.G, 15*time.Second)
		} else if g.clearWaiting(st.G) {
			at = waitAt(st.G, 15*time.Second) // it is (or was) in the real wait: its next point follows
		} else {
			at, _ = g.where(st.G) // its wait was over already and it moved on to its next point by itself
			if at == "sc:wait" {  // held at the gate (the schema was initialised when it arrived)
				g.release(st.G)
				at = waitAt(st.G, 15*time.Second)
			}
		}
		ok := false
		for _, x := range arrive[st.A] {
			if x == at {
				ok = true
			}
		}
		if !ok {
			o.Drift = fmt.Sprintf("step %d: after %s(g%d, %s) arrived at %q", idx+1, st.A, st.G, st.T, at)
			break
		}
		if _, t := g.where(st.G); at != "done" && at != "got" && at != "using" && at != "sc:relparsed" && t != st.T && st.A != "init" && st.A != "waitdone" {
			o.Drift = fmt.Sprintf("step %d: %s(g%d) concerns type %s, the model says %s", idx+1, st.A, st.G, t, st.T)
			break
		}
		hist[idx].C = snapshot()
		o.Ran = idx + 1
	}
	g.openAll()
	for i := 0; i < n; i++ {
		select {
		case <-done[i]:
		case <-time.After(20 * time.Second):
			o.Hung = true
		}
	}
	ids := map[*schema.Schema]int{}
	for i := 0; i < n && !o.Hung; i++ {
		k := fmt.Sprint(i + 1)
		if errs[i] != nil {
			o.Errs = append(o.Errs, errs[i].Error())
		}
		if got[i] == nil {
			o.Results[k] = 0
			continue
		}
		if _, ok := ids[got[i]]; !ok {
			ids[got[i]] = len(ids) + 1
		}
		o.Results[k] = ids[got[i]]
		o.ResType[k] = typeName[got[i].ModelType]
		o.ResInit[k] = initAt[i]
	}
	if o.Errs == nil {
		o.Errs = []string{}
	}
	return o, hist[:o.Ran], nil
}

func init() {
	hx.Register("sc-replay", replayCmd)
}

func replayCmd(args []string) error {
	fs := flag.NewFlagSet("sc-replay", flag.ExitOnError)
	in := fs.String("cases", "", "schedules ndjson")
	out := fs.String("out", "", "events")
	fs.Parse(args)
	lines, err := hx.ReadNDJSON(*in)
	if err != nil {
		return err
	}
	w, err := hx.NewWriter(*out)
	if err != nil {
		return err
	}
	defer w.Close()
	for i, l := range lines {
		var s Schedule
		if err := json.Unmarshal(l, &s); err != nil {
			return err
		}
		o, hist, err := Replay(s)
		if err != nil {
			return fmt.Errorf("schedule %d: %v", i, err)
		}
		if s.Warm == nil {
			s.Warm = []string{}
		}
		w.Emit(hx.M{"ev": "SC", "case": i + 1, "plan": s.Plan, "warm": s.Warm, "hist": hist, "nsteps": len(s.Hist), "obs": o})
	}
	return nil
}
