// Package txn interprets transaction programs (spec/Tx.tla) on real gorm transactions.
package txn

import (
	"context"
	"database/sql"
	"encoding/json"
	"errors"
	"flag"
	"fmt"
	"math/rand"
	"sort"
	"strings"
	"time"

	"gorm.io/gorm"

	"verifharness/hx"
	"verifharness/recdrv"
)

type Act struct {
	Op  string `json:"op"`
	ID  int64  `json:"id,omitempty"`
	F   bool   `json:"f"`
	Out string `json:"out,omitempty"`
	Sw  bool   `json:"sw"`
	K   int    `json:"k,omitempty"`
	Via string `json:"via,omitempty"`
	// rendering attribute without meaning in the reference: the panic carries a nil value (recover()
	// returns nil while the block is nevertheless unwinding)
	NilV bool `json:"nilv,omitempty"`
}

func (a Act) JSON() hx.M {
	switch a.Op {
	case "enter":
		return hx.M{"op": "enter", "f": a.F}
	case "write":
		return hx.M{"op": "write", "id": a.ID, "f": a.F, "via": a.Via}
	case "exit":
		return hx.M{"op": "exit", "out": a.Out, "sw": a.Sw, "f": a.F}
	case "mrollto":
		return hx.M{"op": "mrollto", "k": a.K}
	}
	return hx.M{"op": a.Op}
}

type Cfg struct {
	Prep    bool `json:"prep"`
	NoNest  bool `json:"nonest"`
	SkipDef bool `json:"skipdef"`
}

type TxRow struct {
	ID int64 `gorm:"primaryKey"`
	V  int64
}

func (TxRow) TableName() string { return "txrows" }

var errBlock = errors.New("txn: block error #b10c")

type panicVal struct{ s string }

var thePanic = &panicVal{"txn: block panic"}

type Env struct {
	cfg Cfg
	db  *gorm.DB
	rec *recdrv.Rec
	sql *sql.DB
}

func NewEnv(c Cfg) (*Env, error) {
	db, rec, sqldb, err := hx.OpenStrict(&gorm.Config{PrepareStmt: c.Prep, DisableNestedTransaction: c.NoNest, SkipDefaultTransaction: c.SkipDef})
	if err != nil {
		return nil, err
	}
	sqldb.SetMaxOpenConns(4)
	if err := db.AutoMigrate(&TxRow{}); err != nil {
		return nil, err
	}
	return &Env{cfg: c, db: db, rec: rec, sql: sqldb}, nil
}

type interp struct {
	e     *Env
	prog  []Act
	pos   int
	reads []int64
	spn   int
}

func isClass(cls string) func(e *recdrv.Event) bool {
	return func(e *recdrv.Event) bool {
		switch cls {
		case "begin", "commit":
			return e.K == cls
		}
		return (e.K == "exec" || e.K == "query" || e.K == "prepare") && recdrv.ClassifySQL(e.SQL) == cls
	}
}

func (x *interp) arm(cls string) { x.e.rec.FailAt(1, isClass(cls), nil) }

// block runs the body of one Transaction block; x.pos points just after its "enter".
// It returns what the block's function returns.
func (x *interp) block(tx *gorm.DB) error {
	var pending error
	for x.pos < len(x.prog) {
		a := x.prog[x.pos]
		x.pos++
		switch a.Op {
		case "write":
			if a.F {
				x.arm("insert")
			}
			h := tx
			switch a.Via {
			case "prep":
				h = tx.Session(&gorm.Session{PrepareStmt: true})
			case "sess":
				h = tx.Session(&gorm.Session{})
			case "ctx":
				h = tx.WithContext(context.Background())
			}
			if err := h.Create(&TxRow{ID: a.ID, V: a.ID}).Error; err != nil {
				pending = err
			} else if a.Via == "reuse" {
				// one chained handle used for two further writes: both stay inside the transaction
				c := tx.Model(&TxRow{}).Where("id = ?", a.ID)
				for k := 1; k <= 2 && pending == nil; k++ {
					if err := c.Update("v", a.ID+int64(k)).Error; err != nil {
						pending = err
					}
				}
			}
		case "read":
			var n int64
			if err := tx.Model(&TxRow{}).Count(&n).Error; err != nil {
				pending = err
			}
			x.reads = append(x.reads, n)
		case "enter":
			if a.F {
				x.arm("savepoint")
			}
			before := x.pos
			var err error
			if x.recovers(before) {
				// the enclosing block recovers the nested block's panic and carries on
				func() {
					defer func() {
						if v := recover(); v != nil && v != interface{}(thePanic) {
							panic(v)
						}
					}()
					err = tx.Transaction(func(tx2 *gorm.DB) error { return x.block(tx2) })
				}()
				if x.pos > 0 && x.prog[x.pos-1].Op == "exit" && x.prog[x.pos-1].Out == "panic" {
					break
				}
			} else {
				err = tx.Transaction(func(tx2 *gorm.DB) error { return x.block(tx2) })
			}
			if a.F && x.pos != before {
				return fmt.Errorf("txn: function of a refused block ran")
			}
			if err != nil {
				// did the child's exit say the parent swallows?
				if x.pos > 0 && x.prog[x.pos-1].Op == "exit" && x.prog[x.pos-1].Sw {
					break
				}
				pending = err
			}
		case "exit":
			switch a.Out {
			case "nil":
				if a.F {
					x.arm("commit")
				}
				return nil
			case "err":
				if pending != nil {
					return pending
				}
				return errBlock
			case "panic":
				if a.NilV {
					panic(nil)
				}
				panic(thePanic)
			}
		default:
			panic("txn: bad op in block: " + a.Op)
		}
	}
	return fmt.Errorf("txn: program ended inside a block")
}

// recovers reports whether the block whose body starts at pos ends with a panic that its parent
// recovers (exit out=panic sw=true).
func (x *interp) recovers(pos int) bool {
	depth := 0
	for i := pos; i < len(x.prog); i++ {
		switch x.prog[i].Op {
		case "enter":
			if !x.prog[i].F {
				depth++
			}
		case "exit":
			if depth == 0 {
				return x.prog[i].Out == "panic" && x.prog[i].Sw
			}
			depth--
		}
	}
	return false
}

type Result struct {
	Res    string
	Rows   []int64
	Reads  []int64
	InUse  int
	OpenTx int
	Text   string
}

func classify(err error) string {
	switch {
	case err == nil:
		return "nil"
	case errors.Is(err, recdrv.ErrInjected) && err.Error() == recdrv.ErrInjected.Error():
		return "fault" // the driver's error, unchanged
	case errors.Is(err, recdrv.ErrInjected) || strings.Contains(err.Error(), recdrv.ErrInjected.Error()):
		return "fault_altered"
	case err == errBlock:
		return "err"
	case errors.Is(err, errBlock):
		return "err_wrapped"
	}
	return "other"
}

// Run executes one program from a clean table.
func (e *Env) Run(prog []Act) (r Result, ierr error) {
	e.rec.Reset()
	e.rec.SetRecording(false)
	if _, err := e.sql.Exec("DELETE FROM txrows"); err != nil {
		return r, err
	}
	e.rec.SetRecording(true)
	x := &interp{e: e, prog: prog}
	completed := false
	func() {
		defer func() {
			if v := recover(); v != nil {
				if v == interface{}(thePanic) {
					r.Res = "panic"
				} else {
					r.Res = "panic_other"
					r.Text = fmt.Sprint(v)
				}
			} else if !completed {
				r.Res = "panic" // a panic with a nil value reached the caller
			}
		}()
		if len(prog) == 0 {
			r.Res = "none"
			completed = true
			return
		}
		switch prog[0].Op {
		case "enter":
			x.pos = 1
			if prog[0].F {
				x.arm("begin")
			}
			err := e.db.Transaction(func(tx *gorm.DB) error { return x.block(tx) })
			r.Res = classify(err)
			if err != nil {
				r.Text = err.Error()
			}
		case "mbegin":
			r.Res = e.manual(x)
		default:
			ierr = fmt.Errorf("txn: program starts with %s", prog[0].Op)
		}
		completed = true
	}()
	e.rec.SetRecording(false)
	rows, err := e.sql.Query("SELECT id FROM txrows ORDER BY id")
	if err != nil {
		return r, err
	}
	for rows.Next() {
		var id int64
		rows.Scan(&id)
		r.Rows = append(r.Rows, id)
	}
	rows.Close()
	e.rec.SetRecording(true)
	r.Reads = x.reads
	r.InUse = e.sql.Stats().InUse
	r.OpenTx = e.rec.OpenTx()
	return r, ierr
}

func (e *Env) manual(x *interp) string {
	tx := e.db.Begin()
	if tx.Error != nil {
		return classify(tx.Error)
	}
	var names []string // save point of stack frame i+2
	x.pos = 1
	for x.pos < len(x.prog) {
		a := x.prog[x.pos]
		x.pos++
		switch a.Op {
		case "write":
			if err := tx.Create(&TxRow{ID: a.ID, V: a.ID}).Error; err != nil {
				return "other"
			}
		case "read":
			var n int64
			tx.Model(&TxRow{}).Count(&n)
			x.reads = append(x.reads, n)
		case "msave":
			x.spn++
			nm := fmt.Sprintf("sp_%d", x.spn)
			if err := tx.SavePoint(nm).Error; err != nil {
				return "other"
			}
			names = append(names, nm)
		case "mrollto":
			nm := names[a.K-2]
			if err := tx.RollbackTo(nm).Error; err != nil {
				return "other"
			}
			names = names[:a.K-1]
		case "mcommit":
			return classify(tx.Commit().Error)
		case "mrollback":
			if err := tx.Rollback().Error; err != nil {
				return "other"
			}
			return "rolledback"
		}
	}
	tx.Rollback()
	return "unfinished"
}

func nz(x []int64) []int64 {
	if x == nil {
		return []int64{}
	}
	return x
}

func Event(caseNo int, c Cfg, prog []Act, r Result) hx.M {
	pj := []hx.M{}
	for _, a := range prog {
		pj = append(pj, a.JSON())
	}
	rp, _ := json.Marshal(prog)
	return hx.M{"ev": "TxProg", "case": caseNo, "prep": c.Prep, "nonest": c.NoNest, "skipdef": c.SkipDef,
		"prog": pj, "rprog": string(rp), "result": r.Res, "rows": nz(r.Rows), "reads": nz(r.Reads),
		"inuse": r.InUse, "opentx": r.OpenTx, "text": r.Text}
}

func init() {
	hx.Register("tx-replay", replay)
	hx.Register("tx-random", random)
}

func cfgOf(s string) Cfg { // e.g. "prep,nonest"
	return Cfg{Prep: strings.Contains(s, "prep"), NoNest: strings.Contains(s, "nonest"), SkipDef: strings.Contains(s, "skipdef")}
}

// replay: direction A -- every finished program of the TLC state graph.
func replay(args []string) error {
	fs := flag.NewFlagSet("tx-replay", flag.ExitOnError)
	in := fs.String("cases", "", "programs ndjson ({prog:[...]})")
	out := fs.String("out", "", "events")
	cfgs := fs.String("cfgs", "", "semicolon separated configs, e.g. ';prep;skipdef'")
	from := fs.Int("from", 0, "")
	to := fs.Int("to", -1, "")
	fs.Parse(args)
	lines, err := hx.ReadNDJSON(*in)
	if err != nil {
		return err
	}
	if *to < 0 || *to > len(lines) {
		*to = len(lines)
	}
	w, err := hx.NewWriter(*out)
	if err != nil {
		return err
	}
	defer w.Close()
	var envs []*Env
	for _, cs := range strings.Split(*cfgs, ";") {
		e, err := NewEnv(cfgOf(cs))
		if err != nil {
			return err
		}
		envs = append(envs, e)
	}
	for i := *from; i < *to; i++ {
		var c struct {
			Prog []Act `json:"prog"`
		}
		if err := json.Unmarshal(lines[i], &c); err != nil {
			return err
		}
		progs := [][]Act{c.Prog}
		if v, ok := nilPanicVariant(c.Prog); ok {
			progs = append(progs, v)
		}
		for _, prog := range progs {
			for k, e := range envs {
				r, err, fresh := runGuarded(e, prog)
				if err != nil {
					return fmt.Errorf("case %d: %v", i, err)
				}
				w.Emit(Event(i+1, e.cfg, prog, r))
				if fresh {
					if envs[k], err = NewEnv(e.cfg); err != nil {
						return err
					}
				}
			}
		}
	}
	return nil
}

// nilPanicVariant: the same program with every panic carrying a nil value (the reference does not
// distinguish the two).
func nilPanicVariant(prog []Act) ([]Act, bool) {
	out := append([]Act{}, prog...)
	any := false
	for i := range out {
		if out[i].Op == "exit" && out[i].Out == "panic" && !out[i].NilV {
			out[i].NilV = true
			any = true
		}
	}
	return out, any
}

// runGuarded runs one program under a watchdog. A program that does not return within 30 s is
// reported with result "hang" (a transaction or connection it leaked blocks the database); after a
// hang or a leak (connection still checked out, transaction still open) the environment is poisoned
// and the caller continues on a fresh one.
func runGuarded(e *Env, prog []Act) (Result, error, bool) {
	type out struct {
		r   Result
		err error
	}
	ch := make(chan out, 1)
	go func() {
		r, err := e.Run(prog)
		ch <- out{r, err}
	}()
	select {
	case o := <-ch:
		return o.r, o.err, o.r.InUse != 0 || o.r.OpenTx != 0
	case <-time.After(30 * time.Second):
		return Result{Res: "hang", Text: "the program did not return within 30 s", InUse: e.sql.Stats().InUse, OpenTx: e.rec.OpenTx()}, nil, true
	}
}

// random: direction B -- deeper random programs, all 8 configurations.
func random(args []string) error {
	fs := flag.NewFlagSet("tx-random", flag.ExitOnError)
	out := fs.String("out", "", "events")
	n := fs.Int("n", 300, "")
	seed := fs.Int64("seed", 1, "")
	fs.Parse(args)
	rng := rand.New(rand.NewSource(*seed))
	w, err := hx.NewWriter(*out)
	if err != nil {
		return err
	}
	defer w.Close()
	var envs []*Env
	for i := 0; i < 8; i++ {
		e, err := NewEnv(Cfg{Prep: i&1 != 0, NoNest: i&2 != 0, SkipDef: i&4 != 0})
		if err != nil {
			return err
		}
		envs = append(envs, e)
	}
	for i := 0; i < *n; i++ {
		k := rng.Intn(8)
		e := envs[k]
		var prog []Act
		if rng.Intn(5) == 0 {
			prog = randManual(rng)
		} else {
			prog = randBlocks(rng, !e.cfg.NoNest)
		}
		r, err, fresh := runGuarded(e, prog)
		if err != nil {
			return fmt.Errorf("case %d: %v", i, err)
		}
		w.Emit(Event(i+1, e.cfg, prog, r))
		if fresh {
			if envs[k], err = NewEnv(e.cfg); err != nil {
				return err
			}
		}
	}
	return nil
}

// randBlocks builds a well-formed block program to depth 4 following the discipline of
// Tx.tla's Enabled (errors of refused save points propagate; one fault at most).
func randBlocks(r *rand.Rand, nested bool) []Act {
	var prog []Act
	nw := int64(0)
	faulted, poison := false, false
	wantFault := r.Intn(3) == 0
	var gen func(depth int) (string, bool) // returns (how the block ended seen from the parent: nil|err|panic, swallowed)
	gen = func(depth int) (string, bool) {
		mode := "run"
		items := r.Intn(5)
		for k := 0; k < items && mode == "run"; k++ {
			switch c := r.Intn(10); {
			case c < 5:
				nw++
				f := wantFault && !faulted && r.Intn(4) == 0
				prog = append(prog, Act{Op: "write", ID: nw, F: f, Via: []string{"", "", "prep", "sess", "ctx", "reuse"}[r.Intn(6)]})
				if f {
					faulted = true
					mode = "fail"
				}
			case c < 6:
				prog = append(prog, Act{Op: "read"})
			case depth < 4:
				f := wantFault && !faulted && nested && r.Intn(5) == 0
				prog = append(prog, Act{Op: "enter", F: f})
				if f {
					faulted, poison = true, true
					mode = "fail"
					continue
				}
				out, sw := gen(depth + 1)
				switch {
				case out == "panic":
					mode = "panic"
				case out == "err" && !sw:
					mode = "fail"
				}
			}
		}
		switch mode {
		case "panic":
			prog = append(prog, Act{Op: "exit", Out: "panic"})
			return "panic", false
		case "fail":
			sw := depth > 1 && !poison && r.Intn(2) == 0
			prog = append(prog, Act{Op: "exit", Out: "err", Sw: sw})
			return "err", sw
		}
		switch c := r.Intn(6); {
		case c < 3:
			f := depth == 1 && wantFault && !faulted && r.Intn(3) == 0
			if f {
				faulted = true
			}
			prog = append(prog, Act{Op: "exit", Out: "nil", F: f})
			return "nil", false
		case c < 5:
			sw := depth > 1 && r.Intn(2) == 0
			prog = append(prog, Act{Op: "exit", Out: "err", Sw: sw})
			return "err", sw
		}
		if depth > 1 && r.Intn(2) == 0 { // the parent recovers it
			prog = append(prog, Act{Op: "exit", Out: "panic", Sw: true})
			return "nil", false
		}
		prog = append(prog, Act{Op: "exit", Out: "panic"})
		return "panic", false
	}
	f0 := wantFault && r.Intn(8) == 0
	prog = append(prog, Act{Op: "enter", F: f0})
	if f0 {
		return prog
	}
	gen(1)
	return prog
}

func randManual(r *rand.Rand) []Act {
	prog := []Act{{Op: "mbegin"}}
	nw := int64(0)
	depth := 1
	n := 2 + r.Intn(8)
	for i := 0; i < n; i++ {
		switch c := r.Intn(10); {
		case c < 5:
			nw++
			prog = append(prog, Act{Op: "write", ID: nw})
		case c < 6:
			prog = append(prog, Act{Op: "read"})
		case c < 8 && depth < 5:
			prog = append(prog, Act{Op: "msave"})
			depth++
		case depth > 1:
			k := 2 + r.Intn(depth-1)
			prog = append(prog, Act{Op: "mrollto", K: k})
			depth = k
		}
	}
	if r.Intn(3) == 0 {
		prog = append(prog, Act{Op: "mrollback"})
	} else {
		prog = append(prog, Act{Op: "mcommit"})
	}
	return prog
}

var _ = sort.Ints

// Events exposes the driver log of the last run (debugging).
func (e *Env) Events() []recdrv.Event { return e.rec.Events() }
