package ops

import (
	"context"
	"errors"

	"gorm.io/gorm"
	"gorm.io/gorm/clause"

	"verifharness/fam"
)

func ex(model, kind string, recs ...string) []Expect {
	var out []Expect
	for _, r := range recs {
		out = append(out, Expect{Model: model, Rec: r, Kind: kind})
	}
	return out
}

func cat(xs ...[]Expect) []Expect {
	var out []Expect
	for _, x := range xs {
		out = append(out, x...)
	}
	return out
}

func newGraph(name string) *fam.User {
	return &fam.User{Name: name, Age: 40,
		Company: &fam.Company{Name: name + "-co"},
		Profile: &fam.Profile{Name: name + "-pr"},
		Pets:    []fam.Pet{{Name: name + "-petA", Toys: []fam.Toy{{Name: name + "-toy"}}}, {Name: name + "-petB"}},
		Langs:   []fam.Lang{{Code: "go", Name: "go"}, {Code: "zz", Name: name + "-zz"}},
	}
}

func graphExpect(name string) []Expect {
	return cat(ex("User", "create", name), ex("Company", "create", name+"-co"), ex("Profile", "create", name+"-pr"),
		ex("Pet", "create", name+"-petA", name+"-petB"), ex("Toy", "create", name+"-toy"), ex("Lang", "create", "go", name+"-zz"))
}

// Catalogue returns every operation the pipeline drivers exercise.
func Catalogue() []Op {
	var ops []Op
	mm := map[string]string{"users": "User", "pets": "Pet", "langs": "Lang", "profiles": "Profile", "memos": "Memo", "drafts": "Draft", "stamps": "Stamp"}
	add := func(o Op) { o.MainModel = mm[o.Main]; ops = append(ops, o) }

	// ---- create ---------------------------------------------------------------------------
	add(Op{Name: "create_graph", Kind: "create", Write: true, Main: "users", Expect: graphExpect("n1"),
		TagChecks: []TagCheck{{"users", "n1", "bc:n1"}, {"pets", "n1-petA", "bc:n1-petA"}},
		Run:       func(db *gorm.DB) error { return db.Create(newGraph("n1")).Error }})
	add(Op{Name: "create_plain", Kind: "create", Write: true, Main: "users", Expect: ex("User", "create", "n1"),
		TagChecks: []TagCheck{{"users", "n1", "bc:n1"}},
		Run:       func(db *gorm.DB) error { return db.Create(&fam.User{Name: "n1"}).Error }})
	add(Op{Name: "create_slice", Kind: "create", Write: true, Main: "users",
		Expect: cat(ex("User", "create", "n1", "n2", "n3"), ex("Pet", "create", "n1-p"), ex("Company", "create", "n2-co")),
		Run: func(db *gorm.DB) error {
			us := []fam.User{{Name: "n1", Pets: []fam.Pet{{Name: "n1-p"}}}, {Name: "n2", Company: &fam.Company{Name: "n2-co"}}, {Name: "n3"}}
			return db.Create(&us).Error
		}})
	add(Op{Name: "create_ptr_slice", Kind: "create", Write: true, Main: "users", Expect: ex("User", "create", "n1", "n2"),
		Run: func(db *gorm.DB) error {
			us := []*fam.User{{Name: "n1"}, {Name: "n2"}}
			return db.Create(&us).Error
		}})
	add(Op{Name: "create_value_slice_arg", Kind: "create", Write: true, Main: "users", Expect: ex("User", "create", "n1", "n2"),
		Run: func(db *gorm.DB) error {
			us := []fam.User{{Name: "n1"}, {Name: "n2"}}
			return db.Create(us).Error
		}})
	add(Op{Name: "create_empty_slice", Kind: "create", Write: true, Main: "users", Expect: nil,
		Run: func(db *gorm.DB) error {
			us := []fam.User{}
			return db.Create(&us).Error
		}})
	add(Op{Name: "create_in_batches", Kind: "create", Write: true, Main: "users",
		Expect: cat(ex("User", "create", "n1", "n2", "n3", "n4", "n5"), ex("Pet", "create", "n1-p", "n2-p", "n3-p", "n4-p", "n5-p")),
		Run: func(db *gorm.DB) error {
			var us []fam.User
			for _, n := range []string{"n1", "n2", "n3", "n4", "n5"} {
				us = append(us, fam.User{Name: n, Pets: []fam.Pet{{Name: n + "-p"}}})
			}
			return db.CreateInBatches(&us, 2).Error
		}})
	add(Op{Name: "create_map", Kind: "create", Write: true, Main: "users", Expect: nil,
		Run: func(db *gorm.DB) error {
			return db.Model(&fam.User{}).Create(map[string]interface{}{"name": "n1", "age": 3}).Error
		}})
	add(Op{Name: "create_skiphooks", Kind: "create", Write: true, Main: "users", NoHooks: true,
		Run: func(db *gorm.DB) error {
			return db.Session(&gorm.Session{SkipHooks: true}).Create(&fam.User{Name: "n1", Pets: []fam.Pet{{Name: "n1-p"}}}).Error
		}})
	add(Op{Name: "create_upsert", Kind: "create", Write: true, Main: "langs", Expect: ex("Lang", "create", "go2", "new"),
		Run: func(db *gorm.DB) error {
			ls := []fam.Lang{{Code: "go", Name: "go2"}, {Code: "nw", Name: "new"}}
			return db.Clauses(clause.OnConflict{UpdateAll: true}).Create(&ls).Error
		}})

	// ---- save / update --------------------------------------------------------------------
	add(Op{Name: "save_full_assoc", Kind: "update", Write: true, Main: "users",
		Expect: cat(ex("User", "update", "u1x"), ex("Company", "create", "c1x"), ex("Profile", "create", "pr1x"), ex("Pet", "create", "pet1x", "petN"), ex("Lang", "create", "gox")),
		Run: func(db *gorm.DB) error {
			u := fam.User{ID: 1, Name: "u1x", Age: 11, CompanyID: ip(1), Company: &fam.Company{ID: 1, Name: "c1x"},
				Profile: &fam.Profile{ID: 1, UserID: 1, Name: "pr1x"},
				Pets:    []fam.Pet{{ID: 1, UserID: ip(1), Name: "pet1x"}, {Name: "petN"}},
				Langs:   []fam.Lang{{Code: "go", Name: "gox"}}}
			return db.Session(&gorm.Session{FullSaveAssociations: true}).Save(&u).Error
		}})
	add(Op{Name: "save_existing", Kind: "update", Write: true, Main: "users", Expect: ex("User", "update", "u2x"),
		TagChecks: []TagCheck{{"users", "u2x", "bu:u2x"}},
		Run: func(db *gorm.DB) error {
			return db.Save(&fam.User{ID: 2, Name: "u2x", Age: 21, CompanyID: ip(2)}).Error
		}})
	add(Op{Name: "save_missing_key", Kind: "update", Write: true, Main: "users", Expect: ex("User", "update", "n99"), SeqTx: true,
		Run: func(db *gorm.DB) error { return db.Save(&fam.User{ID: 99, Name: "n99", Age: 9}).Error }})
	add(Op{Name: "save_new", Kind: "create", Write: true, Main: "users", Expect: ex("User", "create", "n1"),
		Run: func(db *gorm.DB) error { return db.Save(&fam.User{Name: "n1"}).Error }})
	add(Op{Name: "updates_struct", Kind: "update", Write: true, Main: "users", Expect: ex("User", "update", "u1"),
		TagChecks: []TagCheck{{"users", "u1", "bu:u1"}},
		Run: func(db *gorm.DB) error {
			u := fam.User{ID: 1, Name: "u1"}
			return db.Model(&u).Updates(fam.User{Age: 12}).Error
		}})
	add(Op{Name: "updates_map", Kind: "update", Write: true, Main: "users", Expect: ex("User", "update", "u1"),
		Run: func(db *gorm.DB) error {
			u := fam.User{ID: 1, Name: "u1"}
			return db.Model(&u).Updates(map[string]interface{}{"age": 0}).Error
		}})
	add(Op{Name: "update_single", Kind: "update", Write: true, Main: "users", Expect: ex("User", "update", "u2"),
		Run: func(db *gorm.DB) error { return db.Model(&fam.User{ID: 2, Name: "u2"}).Update("age", 99).Error }})
	add(Op{Name: "update_where_nomodel_key", Kind: "update", Write: true, Main: "users", Expect: ex("User", "update", ""),
		Run: func(db *gorm.DB) error { return db.Model(&fam.User{}).Where("age > ?", 15).Update("age", 77).Error }})
	add(Op{Name: "update_column", Kind: "update", Write: true, Main: "users", NoHooks: true,
		Run: func(db *gorm.DB) error { return db.Model(&fam.User{ID: 2, Name: "u2"}).UpdateColumn("age", 98).Error }})
	add(Op{Name: "update_columns", Kind: "update", Write: true, Main: "users", NoHooks: true,
		Run: func(db *gorm.DB) error {
			return db.Model(&fam.User{ID: 2, Name: "u2"}).UpdateColumns(fam.User{Age: 97, Name: "u2c"}).Error
		}})
	add(Op{Name: "update_skiphooks", Kind: "update", Write: true, Main: "users", NoHooks: true,
		Run: func(db *gorm.DB) error {
			return db.Session(&gorm.Session{SkipHooks: true}).Model(&fam.User{ID: 2, Name: "u2"}).Update("age", 96).Error
		}})

	// ---- delete ---------------------------------------------------------------------------
	add(Op{Name: "delete_plain", Kind: "delete", Write: true, Main: "users", Expect: ex("User", "delete", "u3"),
		Run: func(db *gorm.DB) error { return db.Delete(&fam.User{ID: 3, Name: "u3"}).Error }})
	add(Op{Name: "delete_missing", Kind: "delete", Write: true, Main: "users", Expect: ex("User", "delete", "gone"),
		Run: func(db *gorm.DB) error { return db.Delete(&fam.User{ID: 999, Name: "gone"}).Error }})
	add(Op{Name: "delete_slice_missing", Kind: "delete", Write: true, Main: "users", Expect: ex("User", "delete", "goneA", "goneB"),
		Run: func(db *gorm.DB) error {
			us := []fam.User{{ID: 998, Name: "goneA"}, {ID: 999, Name: "goneB"}}
			return db.Delete(&us).Error
		}})
	add(Op{Name: "delete_select_assoc", Kind: "delete", Write: true, Main: "users",
		Expect: cat(ex("User", "delete", "u1"), ex("Pet", "delete", ""), ex("Profile", "delete", "")),
		Run: func(db *gorm.DB) error {
			return db.Select("Pets", "Profile", "Langs").Delete(&fam.User{ID: 1, Name: "u1"}).Error
		}})
	add(Op{Name: "delete_select_all_assoc", Kind: "delete", Write: true, Main: "users",
		Expect: cat(ex("User", "delete", "u2"), ex("Pet", "delete", ""), ex("Profile", "delete", "")),
		Run: func(db *gorm.DB) error {
			return db.Select(clause.Associations).Delete(&fam.User{ID: 2, Name: "u2"}).Error
		}})
	add(Op{Name: "delete_slice", Kind: "delete", Write: true, Main: "users", Expect: ex("User", "delete", "u2", "u3"),
		Run: func(db *gorm.DB) error {
			us := []fam.User{{ID: 2, Name: "u2"}, {ID: 3, Name: "u3"}}
			return db.Delete(&us).Error
		}})
	add(Op{Name: "delete_where", Kind: "delete", Write: true, Main: "pets", Expect: ex("Pet", "delete", ""),
		Run: func(db *gorm.DB) error { return db.Where("user_id = ?", 1).Delete(&fam.Pet{}).Error }})
	add(Op{Name: "delete_skiphooks", Kind: "delete", Write: true, Main: "users", NoHooks: true,
		Run: func(db *gorm.DB) error {
			return db.Session(&gorm.Session{SkipHooks: true}).Delete(&fam.User{ID: 3, Name: "u3"}).Error
		}})

	// ---- models with only After* / only Before* hooks ------------------------------------------
	add(Op{Name: "memo_create", Kind: "create", Write: true, Main: "memos", Expect: ex("Memo", "create", "mN"),
		Run: func(db *gorm.DB) error { return db.Create(&fam.Memo{Name: "mN"}).Error }})
	add(Op{Name: "memo_update", Kind: "update", Write: true, Main: "memos", Expect: ex("Memo", "update", "m1"),
		Run: func(db *gorm.DB) error { return db.Model(&fam.Memo{ID: 1, Name: "m1"}).Update("v", 7).Error }})
	add(Op{Name: "memo_delete", Kind: "delete", Write: true, Main: "memos", Expect: ex("Memo", "delete", "m2"),
		Run: func(db *gorm.DB) error { return db.Delete(&fam.Memo{ID: 2, Name: "m2"}).Error }})
	add(Op{Name: "memo_delete_slice", Kind: "delete", Write: true, Main: "memos", Expect: ex("Memo", "delete", "m1", "m2"),
		Run: func(db *gorm.DB) error {
			ms := []fam.Memo{{ID: 1, Name: "m1"}, {ID: 2, Name: "m2"}}
			return db.Delete(&ms).Error
		}})
	add(Op{Name: "stamp_create", Kind: "create", Write: true, Main: "stamps", Expect: ex("Stamp", "create", "sN"),
		Run: func(db *gorm.DB) error { return db.Create(&fam.Stamp{Name: "sN"}).Error }})
	add(Op{Name: "stamp_create_slice", Kind: "create", Write: true, Main: "stamps", Expect: ex("Stamp", "create", "sA", "sB"),
		Run: func(db *gorm.DB) error { return db.Create(&[]fam.Stamp{{Name: "sA"}, {Name: "sB"}}).Error }})
	add(Op{Name: "stamp_update", Kind: "update", Write: true, Main: "stamps", Expect: ex("Stamp", "update", "s1"),
		Run: func(db *gorm.DB) error { return db.Model(&fam.Stamp{ID: 1, Name: "s1"}).Update("v", 7).Error }})
	add(Op{Name: "draft_create", Kind: "create", Write: true, Main: "drafts", Expect: ex("Draft", "create", "dN"),
		Run: func(db *gorm.DB) error { return db.Create(&fam.Draft{Name: "dN"}).Error }})
	add(Op{Name: "draft_update", Kind: "update", Write: true, Main: "drafts", Expect: ex("Draft", "update", "d1"),
		Run: func(db *gorm.DB) error { return db.Model(&fam.Draft{ID: 1, Name: "d1"}).Update("v", 7).Error }})
	add(Op{Name: "draft_delete", Kind: "delete", Write: true, Main: "drafts", Expect: ex("Draft", "delete", "d2"),
		Run: func(db *gorm.DB) error { return db.Delete(&fam.Draft{ID: 2, Name: "d2"}).Error }})

	// ---- association mode (writes) --------------------------------------------------------
	add(Op{Name: "assoc_append_many", Kind: "assoc", Write: true, Main: "pets", Expect: cat(ex("Pet", "create", "petN"), ex("User", "update", "u1")),
		Run: func(db *gorm.DB) error {
			u := fam.User{ID: 1, Name: "u1"}
			return db.Model(&u).Association("Pets").Append(&fam.Pet{Name: "petN"})
		}})
	add(Op{Name: "assoc_replace_many", Kind: "assoc", Write: true, Main: "pets",
		Run: func(db *gorm.DB) error {
			u := fam.User{ID: 1, Name: "u1"}
			return db.Model(&u).Association("Pets").Replace(&fam.Pet{ID: 3, Name: "pet3"}, &fam.Pet{Name: "petN"})
		}})
	add(Op{Name: "assoc_delete_many", Kind: "assoc", Write: true, Main: "pets",
		Run: func(db *gorm.DB) error {
			u := fam.User{ID: 1, Name: "u1"}
			return db.Model(&u).Association("Pets").Delete(&fam.Pet{ID: 1})
		}})
	add(Op{Name: "assoc_clear_m2m", Kind: "assoc", Write: true, Main: "user_langs",
		Run: func(db *gorm.DB) error {
			u := fam.User{ID: 1, Name: "u1"}
			return db.Model(&u).Association("Langs").Clear()
		}})
	add(Op{Name: "assoc_append_m2m", Kind: "assoc", Write: true, Main: "user_langs",
		Run: func(db *gorm.DB) error {
			u := fam.User{ID: 2, Name: "u2"}
			return db.Model(&u).Association("Langs").Append(&fam.Lang{Code: "py", Name: "py"}, &fam.Lang{Code: "kt", Name: "kt"})
		}})
	add(Op{Name: "assoc_replace_belongs", Kind: "assoc", Write: true, Main: "users",
		Run: func(db *gorm.DB) error {
			u := fam.User{ID: 1, Name: "u1", CompanyID: ip(1)}
			return db.Model(&u).Association("Company").Replace(&fam.Company{Name: "cN"})
		}})
	add(Op{Name: "assoc_replace_hasone", Kind: "assoc", Write: true, Main: "profiles",
		Run: func(db *gorm.DB) error {
			u := fam.User{ID: 1, Name: "u1"}
			return db.Model(&u).Association("Profile").Replace(&fam.Profile{Name: "prN"})
		}})

	// ---- reads ----------------------------------------------------------------------------
	add(Op{Name: "find_all", Kind: "query", Main: "users", Expect: ex("User", "find", "u1", "u2", "u3"),
		Run: func(db *gorm.DB) error { var us []fam.User; return db.Find(&us).Error }})
	add(Op{Name: "first", Kind: "query", Main: "users", Expect: ex("User", "find", "u1"),
		Run: func(db *gorm.DB) error { var u fam.User; return db.First(&u).Error }})
	add(Op{Name: "find_ptr_slice", Kind: "query", Main: "users", Expect: ex("User", "find", "u1", "u2", "u3"),
		Run: func(db *gorm.DB) error { var us []*fam.User; return db.Find(&us).Error }})
	add(Op{Name: "find_none", Kind: "query", Main: "users", Expect: nil,
		Run: func(db *gorm.DB) error { var us []fam.User; return db.Where("age > 1000").Find(&us).Error }})
	add(Op{Name: "preload_nested", Kind: "query", Main: "users",
		Expect: cat(ex("User", "find", "u1", "u2", "u3"), ex("Pet", "find", "pet1", "pet2", "pet3"), ex("Toy", "find", "toy1", "toy2"),
			ex("Company", "find", "c1", "c2"), ex("Profile", "find", "pr1", "pr2"), ex("Lang", "find", "go", "rs")),
		Run: func(db *gorm.DB) error {
			var us []fam.User
			return db.Preload("Pets.Toys").Preload("Company").Preload("Profile").Preload("Langs").Find(&us).Error
		}})
	add(Op{Name: "joins_company", Kind: "query", Main: "users", Expect: ex("User", "find", "u1", "u2", "u3"),
		Run: func(db *gorm.DB) error { var us []fam.User; return db.Joins("Company").Find(&us).Error }})
	add(Op{Name: "find_in_batches", Kind: "query", Main: "users", Expect: ex("User", "find", "u1", "u2", "u3"),
		Run: func(db *gorm.DB) error {
			var us []fam.User
			return db.FindInBatches(&us, 2, func(tx *gorm.DB, batch int) error { return nil }).Error
		}})
	add(Op{Name: "count_pluck_rows", Kind: "query", Main: "users", NoHooks: true,
		Run: func(db *gorm.DB) error {
			var n int64
			if err := db.Model(&fam.User{}).Count(&n).Error; err != nil {
				return err
			}
			var names []string
			if err := db.Model(&fam.User{}).Pluck("name", &names).Error; err != nil {
				return err
			}
			rows, err := db.Model(&fam.User{}).Rows()
			if err != nil {
				return err
			}
			return rows.Close()
		}})
	add(Op{Name: "assoc_find_count", Kind: "query", Main: "pets", Expect: ex("Pet", "find", "pet1", "pet2"),
		Run: func(db *gorm.DB) error {
			u := fam.User{ID: 1, Name: "u1"}
			var ps []fam.Pet
			if err := db.Model(&u).Association("Pets").Find(&ps); err != nil {
				return err
			}
			a := db.Model(&u).Association("Langs")
			_ = a.Count()
			return a.Error
		}})
	add(Op{Name: "first_or_create_existing", Kind: "query", Main: "users", Expect: ex("User", "find", "u1"),
		Run: func(db *gorm.DB) error { var u fam.User; return db.Where(fam.User{Name: "u1"}).FirstOrCreate(&u).Error }})
	add(Op{Name: "raw_exec_scan", Kind: "query", Main: "users", NoHooks: true,
		Run: func(db *gorm.DB) error {
			var n int
			if err := db.Raw("SELECT count(*) FROM users WHERE age > ?", 5).Scan(&n).Error; err != nil {
				return err
			}
			return db.Exec("UPDATE users SET age = age WHERE id = ?", 1).Error
		}})

	// ---- a chain value derived again with another context must not change the original's context
	add(Op{Name: "ctx_derived_sibling", Kind: "update", Write: true, Main: "users", Expect: ex("User", "update", ""),
		Run: func(db *gorm.DB) error {
			q := db.Model(&fam.User{}).Where("id = ?", 1)
			other := context.WithValue(context.Background(), ctxKey{}, "foreign-context")
			_ = q.WithContext(other)
			_ = q.Session(&gorm.Session{Context: other})
			return q.Update("age", 55).Error
		}})
	add(Op{Name: "ctx_derived_sibling_read", Kind: "query", Main: "users", Expect: ex("User", "find", "u1"),
		Run: func(db *gorm.DB) error {
			q := db.Where("id = ?", 1)
			_ = q.WithContext(context.WithValue(context.Background(), ctxKey{}, "foreign-context"))
			var us []fam.User
			return q.Find(&us).Error
		}})

	// ---- handles derived from the caller's handle with their own context and other session options
	add(Op{Name: "ctx_session_options_read", Kind: "query", Main: "users", Expect: cat(ex("User", "find", "u1"), ex("Pet", "find", "pet1", "pet2")),
		Run: func(db *gorm.DB) error {
			other := context.WithValue(context.Background(), ctxKey{}, "foreign-context")
			_ = db.Session(&gorm.Session{NewDB: true, Context: other})
			_ = db.Session(&gorm.Session{NewDB: true, Context: other, SkipHooks: true})
			_ = db.Session(&gorm.Session{Context: other, PrepareStmt: true})
			var us []fam.User
			return db.Preload("Pets").Where("id = ?", 1).Find(&us).Error
		}})
	add(Op{Name: "ctx_session_options_write", Kind: "update", Write: true, Main: "users", Expect: ex("User", "update", ""),
		Run: func(db *gorm.DB) error {
			other := context.WithValue(context.Background(), ctxKey{}, "foreign-context")
			_ = db.Session(&gorm.Session{NewDB: true, Context: other})
			_ = db.Session(&gorm.Session{NewDB: true, Context: other, SkipDefaultTransaction: true})
			return db.Model(&fam.User{}).Where("id = ?", 1).Update("age", 56).Error
		}})

	// ---- a single-row read through Row(), and a session that brings its own context together with PrepareStmt
	add(Op{Name: "row_scan", Kind: "query", Main: "users", NoHooks: true,
		Run: func(db *gorm.DB) error {
			var name string
			return db.Model(&fam.User{}).Select("name").Where("id = ?", 1).Row().Scan(&name)
		}})
	add(Op{Name: "ctx_session_prepare_own_context", Kind: "query", Main: "users", Expect: ex("User", "find", "u1"),
		Run: func(db *gorm.DB) error {
			foreign := db.WithContext(context.WithValue(context.Background(), ctxKey{}, "foreign-context"))
			h := foreign.Session(&gorm.Session{PrepareStmt: true, Context: db.Statement.Context})
			var us []fam.User
			return h.Where("id = ?", 1).Find(&us).Error
		}})

	// ---- explicit transactions (C18: context at any nesting) ------------------------------
	add(Op{Name: "tx_nested_create", Kind: "tx", Write: true, Main: "users",
		Expect: cat(ex("User", "create", "n1"), ex("Pet", "create", "petN")),
		Run: func(db *gorm.DB) error {
			return db.Transaction(func(tx *gorm.DB) error {
				if err := tx.Create(&fam.User{Name: "n1"}).Error; err != nil {
					return err
				}
				return tx.Transaction(func(tx2 *gorm.DB) error { return tx2.Create(&fam.Pet{Name: "petN"}).Error })
			})
		}})
	// a nested block whose handle's context is cancelled while the block runs and which then fails: the
	// ROLLBACK TO of the block belongs to the operation (it carries its context or does not run at all)
	add(Op{Name: "tx_nested_cancel_inside", Kind: "assoc", Main: "memos",
		Run: func(db *gorm.DB) error {
			tx := db.Begin()
			if tx.Error != nil {
				return tx.Error
			}
			ctx2, cancel := context.WithCancel(db.Statement.Context)
			defer cancel()
			errBlock := errors.New("the block fails after its context was cancelled")
			var cerr error
			terr := tx.WithContext(ctx2).Transaction(func(tx2 *gorm.DB) error {
				cerr = tx2.Create(&fam.Memo{Name: "mD"}).Error
				cancel()
				return errBlock
			})
			if cerr != nil || terr != errBlock { // an injected failure is the operation's result
				tx.Rollback()
				if cerr != nil {
					return cerr
				}
				return terr
			}
			return tx.Rollback().Error
		}})
	return ops
}
