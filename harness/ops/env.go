// Package ops runs single gorm operations over the model family with a fault injected at every
// driver call and every hook invocation, and logs one trace per run for spec/Trace_Pipeline.tla
// (C05 all-or-nothing, C13 hooks, C18 context).
package ops

import (
	"context"
	"crypto/sha1"
	"database/sql"
	"encoding/hex"
	"errors"
	"fmt"
	"regexp"
	"strings"

	"gorm.io/gorm"

	"verifharness/fam"
	"verifharness/hx"
	"verifharness/recdrv"
)

type Env struct {
	DB   *gorm.DB
	Rec  *recdrv.Rec
	SQL  *sql.DB
	HR   *fam.Recorder
	Prep bool
}

func NewEnv(prep bool) (*Env, error) {
	db, rec, sqldb, err := hx.OpenStrict(&gorm.Config{PrepareStmt: prep})
	if err != nil {
		return nil, err
	}
	sqldb.SetMaxOpenConns(4)
	fam.Cur = nil
	if err := db.AutoMigrate(fam.AllModels...); err != nil {
		return nil, err
	}
	return &Env{DB: db, Rec: rec, SQL: sqldb, HR: &fam.Recorder{Rec: rec, Probe: true, Mutate: true, Audit: true}, Prep: prep}, nil
}

func ip(v int64) *int64 { return &v }

// Seed wipes every table and loads the fixed pre-state raw: two users with full graphs.
func (e *Env) Seed() error {
	e.Rec.SetRecording(false)
	defer e.Rec.SetRecording(true)
	tx, err := e.SQL.Begin()
	if err != nil {
		return err
	}
	defer tx.Rollback()
	for _, t := range fam.AllTables {
		if _, err := tx.Exec("DELETE FROM " + t); err != nil {
			return err
		}
	}
	if _, err := tx.Exec("DELETE FROM sqlite_sequence"); err != nil && !strings.Contains(err.Error(), "no such table") {
		return err
	}
	stmts := []string{
		`INSERT INTO companies(id,name) VALUES (1,'c1'),(2,'c2')`,
		`INSERT INTO users(id,name,age,tag,company_id) VALUES (1,'u1',10,'',1),(2,'u2',20,'',2),(3,'u3',30,'',NULL)`,
		`INSERT INTO profiles(id,user_id,name) VALUES (1,1,'pr1'),(2,2,'pr2')`,
		`INSERT INTO pets(id,user_id,name,tag) VALUES (1,1,'pet1',''),(2,1,'pet2',''),(3,2,'pet3',''),(4,NULL,'pet4','')`,
		`INSERT INTO toys(id,owner_id,owner_type,name) VALUES (1,1,'pets','toy1'),(2,3,'pets','toy2')`,
		`INSERT INTO langs(code,name) VALUES ('go','go'),('rs','rs'),('py','py')`,
		`INSERT INTO user_langs(user_id,lang_code) VALUES (1,'go'),(1,'rs'),(2,'go')`,
		`INSERT INTO memos(id,name,v) VALUES (1,'m1',0),(2,'m2',0)`,
		`INSERT INTO drafts(id,name,v) VALUES (1,'d1',0),(2,'d2',0)`,
		`INSERT INTO stamps(id,name,v) VALUES (1,'s1',0)`,
	}
	for _, s := range stmts {
		if _, err := tx.Exec(s); err != nil {
			return fmt.Errorf("%s: %v", s, err)
		}
	}
	return tx.Commit()
}

// DumpHash returns a hash over every table's raw contents plus the row count.
func (e *Env) DumpHash() (string, int, error) {
	e.Rec.SetRecording(false)
	defer e.Rec.SetRecording(true)
	h := sha1.New()
	n := 0
	for _, t := range fam.AllTables {
		rows, err := hx.Dump(e.SQL, t)
		if err != nil {
			return "", 0, err
		}
		fmt.Fprintf(h, "#%s\n", t)
		for _, r := range rows {
			keys := make([]string, 0, len(r))
			for k := range r {
				keys = append(keys, k)
			}
			sortStrings(keys)
			for _, k := range keys {
				fmt.Fprintf(h, "%s=%v;", k, r[k])
			}
			fmt.Fprintln(h)
			n++
		}
	}
	return hex.EncodeToString(h.Sum(nil))[:16], n, nil
}

func sortStrings(s []string) {
	for i := 1; i < len(s); i++ {
		for j := i; j > 0 && s[j] < s[j-1]; j-- {
			s[j], s[j-1] = s[j-1], s[j]
		}
	}
}

var tableRe = regexp.MustCompile("(?i)(?:INTO|UPDATE|FROM)\\s+[`\"]?([a-z_]+)[`\"]?")

func tableOf(sqlText string) string {
	m := tableRe.FindStringSubmatch(sqlText)
	if m == nil {
		return ""
	}
	return strings.ToLower(m[1])
}

// Expect describes which hooks an operation must fire for one record.
type Expect struct {
	Model string `json:"model"`
	Rec   string `json:"rec"`
	Kind  string `json:"kind"` // create update delete find
}

// Op is one catalogue entry.
type Op struct {
	Name      string
	Kind      string // create update delete query assoc
	Write     bool
	Main      string // main table
	MainModel string
	SeqTx     bool     // the operation legitimately runs several transactions one after the other (Save falling back to insert)
	Expect    []Expect // hook expectations when it succeeds
	NoHooks   bool     // SkipHooks session / column-update methods
	Run       func(db *gorm.DB) error
	TagChecks []TagCheck
}

// TagCheck: after success the Tag column of (table, name) must be the value a before-hook set.
type TagCheck struct {
	Table string
	Name  string
	Want  string
}

type ctxKey = recdrv.CtxKey

func errClass(err error) string {
	switch {
	case err == nil:
		return "nil"
	case errors.Is(err, recdrv.ErrInjected) || strings.Contains(err.Error(), recdrv.ErrInjected.Error()):
		return "sentinel"
	case errors.Is(err, fam.ErrHook) || strings.Contains(err.Error(), fam.ErrHook.Error()):
		return "hook_sentinel"
	case errors.Is(err, context.Canceled):
		return "canceled"
	case errors.Is(err, gorm.ErrEmptySlice):
		return "empty_slice"
	case errors.Is(err, gorm.ErrRecordNotFound):
		return "not_found"
	}
	return "other"
}

// the acceptor knows one kind of driver fault; "late" says how it was delivered
func faultName(m string) string {
	if m == "drvlate" {
		return "drv"
	}
	return m
}

// Fault selects what to break in a run.
type Fault struct {
	Mode string `json:"mode"` // none drv drvlate (a query's fault shows when its rows are read) hook cancel
	K    int    `json:"k"`
}

// RunTrace executes op once under the given fault and returns the events of the run.
func (e *Env) RunTrace(caseNo int, op Op, f Fault, ctxTag string, baselinePost string) ([]hx.M, string, int, int, error) {
	if err := e.Seed(); err != nil {
		return nil, "", 0, 0, err
	}
	pre, _, err := e.DumpHash()
	if err != nil {
		return nil, "", 0, 0, err
	}
	e.Rec.Reset()
	e.HR.Reset()
	fam.Cur = e.HR
	defer func() { fam.Cur = nil }()
	switch f.Mode {
	case "drv":
		e.Rec.FailAt(f.K, nil, nil)
	case "drvlate":
		e.Rec.FailLateAt(f.K, nil, nil)
	case "hook":
		e.Rec.CountOnly(nil)
		e.HR.FailAt = f.K
	default:
		e.Rec.CountOnly(nil)
	}
	ctx := context.WithValue(context.Background(), ctxKey{}, ctxTag)
	var cancel context.CancelFunc
	if f.Mode == "cancel" {
		// K = 0: a cold statement cache (under a cancelled context not even a preparation may reach the
		// driver); K = 1: the cache as the earlier runs left it (a cached statement must not run either)
		if pdb, ok := e.DB.ConnPool.(*gorm.PreparedStmtDB); ok && f.K == 0 {
			pdb.Reset()
		}
		ctx, cancel = context.WithCancel(ctx)
		cancel()
	}
	db := e.DB.WithContext(ctx)
	var opErr error
	panicked := ""
	func() {
		defer func() {
			if v := recover(); v != nil {
				panicked = fmt.Sprint(v)
			}
		}()
		opErr = op.Run(db)
	}()
	ndrv := e.Rec.Counted()
	nhook := e.HR.Count
	evs := e.Rec.Events()
	hooks := e.HR.Log
	e.Rec.CountOnly(nil)
	post, _, err := e.DumpHash()
	if err != nil {
		return nil, "", 0, 0, err
	}
	state := "other"
	switch {
	case post == pre:
		state = "pre"
	case baselinePost != "" && post == baselinePost:
		state = "post"
	case baselinePost == "" && f.Mode == "none":
		state = "post"
	}
	// with a warm prepared-statement cache a run issues fewer driver calls than the baseline did:
	// a fault index that was never reached is a fault-free run
	if ((f.Mode == "drv" || f.Mode == "drvlate") && ndrv < f.K) || (f.Mode == "hook" && nhook < f.K) {
		f = Fault{Mode: "none"}
	}
	expect := []hx.M{}
	for _, x := range op.Expect {
		expect = append(expect, hx.M{"model": x.Model, "rec": x.Rec, "kind": x.Kind})
	}
	out := []hx.M{{"ev": "OpStart", "case": caseNo, "op": op.Name, "kind": op.Kind, "write": op.Write, "main": op.Main, "mainmodel": op.MainModel, "seqtx": op.SeqTx, "checkhooks": op.Kind != "assoc" || len(op.Expect) > 0,
		"nohooks": op.NoHooks, "expect": expect, "fault": faultName(f.Mode), "late": f.Mode == "drvlate", "k": f.K, "ctx": ctxTag, "prep": e.Prep}}
	hi := 0
	for _, ev := range evs {
		if ev.K == "probe" {
			if hi < len(hooks) {
				h := hooks[hi]
				hi++
				out = append(out, hx.M{"ev": "hook", "case": caseNo, "name": h.Hook, "model": h.Model, "rec": h.Rec, "tx": h.Tx, "ctx": h.Ctx, "res": h.Res})
			}
			continue
		}
		if ev.K == "stmt_close" {
			continue
		}
		cls := ev.Class()
		out = append(out, hx.M{"ev": "drv", "case": caseNo, "k": ev.K, "cls": cls, "table": tableOf(ev.SQL), "tx": ev.Tx, "conn": ev.Conn,
			"ctx": ev.Ctx, "res": ev.Res, "prepared": ev.Prepared})
	}
	tags := []hx.M{}
	if opErr == nil && panicked == "" {
		e.Rec.SetRecording(false)
		for _, tc := range op.TagChecks {
			var tag sql.NullString
			e.SQL.QueryRow("SELECT tag FROM "+tc.Table+" WHERE name = ?", tc.Name).Scan(&tag)
			tags = append(tags, hx.M{"table": tc.Table, "rec": tc.Name, "want": tc.Want, "tag": tag.String})
		}
		e.Rec.SetRecording(true)
	}
	ec := errClass(opErr)
	if panicked != "" {
		ec = "panic"
	}
	et := ""
	if opErr != nil {
		et = opErr.Error()
	}
	out = append(out, hx.M{"ev": "OpEnd", "case": caseNo, "err": ec, "errtext": et + panicked, "state": state, "inuse": e.SQL.Stats().InUse,
		"opentx": e.Rec.OpenTx(), "tags": tags, "nhooklog": len(hooks), "nprobe": hi})
	return out, post, ndrv, nhook, nil
}
