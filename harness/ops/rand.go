package ops

import (
	"fmt"
	"math/rand"

	"gorm.io/gorm"

	"verifharness/fam"
)

// RandomOps generates n write operations over random record graphs (C05 quantifier: "generated
// record graphs: belongs-to, has-one, has-many, many-to-many, polymorphic children; slices; batches;
// FullSaveAssociations; Select-ed association deletes").
func RandomOps(n int, seed int64) []Op {
	r := rand.New(rand.NewSource(seed))
	var out []Op
	for i := 0; i < n; i++ {
		pfx := fmt.Sprintf("r%d_", i)
		nu := 1 + r.Intn(3)
		type spec struct {
			name             string
			company, profile bool
			existingCo       bool
			pets             []int // toys per pet
			langs            []string
		}
		var specs []spec
		var expect []Expect
		usedGo, usedC1 := false, false // in-memory records of one operation have distinct keys
		for u := 0; u < nu; u++ {
			s := spec{name: fmt.Sprintf("%su%d", pfx, u)}
			expect = append(expect, Expect{"User", s.name, "create"})
			if r.Intn(2) == 0 {
				s.company = true
				s.existingCo = r.Intn(3) == 0 && !usedC1
				usedC1 = usedC1 || s.existingCo
				if s.existingCo {
					expect = append(expect, Expect{"Company", "c1", "create"})
				} else {
					expect = append(expect, Expect{"Company", s.name + "-co", "create"})
				}
			}
			if r.Intn(2) == 0 {
				s.profile = true
				expect = append(expect, Expect{"Profile", s.name + "-pr", "create"})
			}
			np := r.Intn(4)
			for p := 0; p < np; p++ {
				nt := r.Intn(3)
				s.pets = append(s.pets, nt)
				pn := fmt.Sprintf("%s-p%d", s.name, p)
				expect = append(expect, Expect{"Pet", pn, "create"})
				for t := 0; t < nt; t++ {
					expect = append(expect, Expect{"Toy", fmt.Sprintf("%s-t%d", pn, t), "create"})
				}
			}
			nl := r.Intn(3)
			for l := 0; l < nl; l++ {
				if r.Intn(2) == 0 && !usedGo {
					usedGo = true
					s.langs = append(s.langs, "go")
					expect = append(expect, Expect{"Lang", "go", "create"})
				} else {
					code := fmt.Sprintf("%c%c", 'a'+byte(u), 'a'+byte(l))
					s.langs = append(s.langs, code)
					expect = append(expect, Expect{"Lang", s.name + "-" + code, "create"})
				}
			}
			specs = append(specs, s)
		}
		build := func() []fam.User {
			var us []fam.User
			for _, s := range specs {
				u := fam.User{Name: s.name, Age: 1}
				if s.company {
					if s.existingCo {
						u.Company = &fam.Company{ID: 1, Name: "c1"}
					} else {
						u.Company = &fam.Company{Name: s.name + "-co"}
					}
				}
				if s.profile {
					u.Profile = &fam.Profile{Name: s.name + "-pr"}
				}
				for p, nt := range s.pets {
					pet := fam.Pet{Name: fmt.Sprintf("%s-p%d", s.name, p)}
					for t := 0; t < nt; t++ {
						pet.Toys = append(pet.Toys, fam.Toy{Name: fmt.Sprintf("%s-t%d", pet.Name, t)})
					}
					u.Pets = append(u.Pets, pet)
				}
				for _, c := range s.langs {
					if c == "go" {
						u.Langs = append(u.Langs, fam.Lang{Code: "go", Name: "go"})
					} else {
						u.Langs = append(u.Langs, fam.Lang{Code: c, Name: s.name + "-" + c})
					}
				}
				us = append(us, u)
			}
			return us
		}
		variant := r.Intn(4)
		bs := 1 + r.Intn(3)
		name := fmt.Sprintf("rand_%d_%d_v%d", seed, i, variant)
		op := Op{Name: name, Kind: "create", Write: true, Main: "users", MainModel: "User", Expect: expect}
		switch variant {
		case 0:
			op.Run = func(db *gorm.DB) error { us := build(); return db.Create(&us).Error }
		case 1:
			op.Run = func(db *gorm.DB) error { us := build(); return db.CreateInBatches(&us, bs).Error }
		case 2:
			op.Run = func(db *gorm.DB) error {
				us := build()
				ps := make([]*fam.User, len(us))
				for i := range us {
					ps[i] = &us[i]
				}
				return db.Session(&gorm.Session{FullSaveAssociations: true}).Create(&ps).Error
			}
		case 3:
			op.Run = func(db *gorm.DB) error {
				us := build()
				return db.Session(&gorm.Session{FullSaveAssociations: true}).Save(&us[0]).Error
			}
			// only the first user is saved
			var ex1 []Expect
			first := specs[0].name
			for _, x := range expect {
				if len(x.Rec) >= len(first) && x.Rec[:len(first)] == first || (x.Model == "Company" && x.Rec == "c1" && specs[0].existingCo) || (x.Model == "Lang" && x.Rec == "go") {
					ex1 = append(ex1, x)
				}
			}
			// recount shared labels for the first user only
			ex1 = nil
			ex1 = append(ex1, Expect{"User", first, "create"})
			s := specs[0]
			if s.company {
				if s.existingCo {
					ex1 = append(ex1, Expect{"Company", "c1", "create"})
				} else {
					ex1 = append(ex1, Expect{"Company", first + "-co", "create"})
				}
			}
			if s.profile {
				ex1 = append(ex1, Expect{"Profile", first + "-pr", "create"})
			}
			for p, nt := range s.pets {
				pn := fmt.Sprintf("%s-p%d", first, p)
				ex1 = append(ex1, Expect{"Pet", pn, "create"})
				for t := 0; t < nt; t++ {
					ex1 = append(ex1, Expect{"Toy", fmt.Sprintf("%s-t%d", pn, t), "create"})
				}
			}
			for _, c := range s.langs {
				if c == "go" {
					ex1 = append(ex1, Expect{"Lang", "go", "create"})
				} else {
					ex1 = append(ex1, Expect{"Lang", first + "-" + c, "create"})
				}
			}
			op.Expect = ex1
		}
		out = append(out, op)
	}
	return out
}
