package ops

import (
	"flag"
	"fmt"
	"strings"

	"verifharness/hx"
	"verifharness/recdrv"
)

func init() {
	hx.Register("ops-run", run)
	hx.Register("ops-list", list)
}

func list(args []string) error {
	for _, o := range Catalogue() {
		fmt.Println(o.Name, o.Kind, o.Write)
	}
	return nil
}

// run: for each selected operation a fault-free baseline, then one run per driver call index
// and one per hook invocation index (exhaustive fault enumeration), plus a cancelled-context run.
func run(args []string) error {
	fs := flag.NewFlagSet("ops-run", flag.ExitOnError)
	out := fs.String("out", "", "events ndjson")
	sel := fs.String("ops", "", "comma separated op names (default all)")
	prep := fs.Bool("prep", false, "PrepareStmt")
	faults := fs.Bool("faults", true, "enumerate faults")
	only := fs.String("only", "", "single run: mode:k e.g. drv:3 | hook:2 | none:0 | cancel:0")
	nrand := fs.Int("rand", 0, "number of random graph operations to add")
	seed := fs.Int64("seed", 1, "seed for -rand")
	norand := fs.Bool("nocat", false, "skip the fixed catalogue")
	fs.Parse(args)
	w, err := hx.NewWriter(*out)
	if err != nil {
		return err
	}
	defer w.Close()
	e, err := NewEnv(*prep)
	if err != nil {
		return err
	}
	want := map[string]bool{}
	for _, n := range strings.Split(*sel, ",") {
		if n != "" {
			want[n] = true
		}
	}
	caseNo := 0
	emit := func(evs []hx.M) {
		for _, ev := range evs {
			w.Emit(ev)
		}
	}
	all := Catalogue()
	if *norand {
		all = nil
	}
	all = append(all, RandomOps(*nrand, *seed)...)
	for _, op := range all {
		if len(want) > 0 && !want[op.Name] {
			continue
		}
		caseNo++
		tag := fmt.Sprintf("ctx-%s-%d", op.Name, caseNo)
		evs, post, ndrv, nhook, err := e.RunTrace(caseNo, op, Fault{Mode: "none"}, tag, "")
		if err != nil {
			return fmt.Errorf("%s: %v", op.Name, err)
		}
		if *only != "" {
			var f Fault
			parts := strings.SplitN(*only, ":", 2)
			f.Mode = parts[0]
			fmt.Sscan(parts[1], &f.K)
			if f.Mode != "none" {
				evs, _, _, _, err = e.RunTrace(caseNo, op, f, tag, post)
				if err != nil {
					return err
				}
			}
			emit(evs)
			continue
		}
		emit(evs)
		if !*faults {
			continue
		}
		for k := 1; k <= ndrv; k++ {
			caseNo++
			evs, _, _, _, err := e.RunTrace(caseNo, op, Fault{Mode: "drv", K: k}, fmt.Sprintf("ctx-%s-%d", op.Name, caseNo), post)
			if err != nil {
				return fmt.Errorf("%s drv %d: %v", op.Name, k, err)
			}
			emit(evs)
		}
		// a failing query (INSERT / UPDATE / DELETE ... RETURNING) may report its error only while the
		// rows are read: the same fault positions, delivered late
		qk := 0
		for _, ev := range evs {
			if ev["ev"] != "drv" {
				continue
			}
			if k, _ := ev["k"].(string); recdrv.DefaultCounted(&recdrv.Event{K: k}) {
				qk++
				if k == "query" && op.Write {
					caseNo++
					evs2, _, _, _, err := e.RunTrace(caseNo, op, Fault{Mode: "drvlate", K: qk}, fmt.Sprintf("ctx-%s-%d", op.Name, caseNo), post)
					if err != nil {
						return fmt.Errorf("%s drvlate %d: %v", op.Name, qk, err)
					}
					emit(evs2)
				}
			}
		}
		for h := 1; h <= nhook; h++ {
			caseNo++
			evs, _, _, _, err := e.RunTrace(caseNo, op, Fault{Mode: "hook", K: h}, fmt.Sprintf("ctx-%s-%d", op.Name, caseNo), post)
			if err != nil {
				return fmt.Errorf("%s hook %d: %v", op.Name, h, err)
			}
			emit(evs)
		}
		for k := 0; k <= 1; k++ {
			if k == 1 && !e.Prep {
				break
			}
			caseNo++
			evs, _, _, _, err = e.RunTrace(caseNo, op, Fault{Mode: "cancel", K: k}, fmt.Sprintf("ctx-%s-%d", op.Name, caseNo), post)
			if err != nil {
				return err
			}
			emit(evs)
		}
	}
	return nil
}
