// Package cc drives C07: G goroutines run random programs of Create / Find / Preload / Joins /
// Update / Delete / Transaction / Association calls on their own rows through ONE shared *gorm.DB
// whose schema cache is cold or warm, with and without PrepareStmt.  Every goroutine's results and
// the final rows are compared with a serial run of the same programs on a fresh database
// (spec/Trace_SchemaCache.tla judges the events); the race-detector build reports data races.
package cc

import (
	"context"
	"database/sql"
	"encoding/json"
	"flag"
	"fmt"
	"math/rand"
	"os"
	"reflect"
	"runtime"
	"sort"
	"strings"
	"sync"
	"time"

	"gorm.io/gorm"
	"gorm.io/gorm/clause"
	"gorm.io/gorm/schema"

	"verifharness/hx"
	"verifharness/recdrv"
)

// related models (cycle User <-> Company, has-many, has-one, belongs-to, many2many, polymorphic)
type CUser struct {
	ID        int64
	G         int
	Name      string
	CompanyID *int64
	Company   *CCompany
	Orders    []COrder  `gorm:"foreignKey:UserID"`
	Profile   *CProfile `gorm:"foreignKey:UserID"`
	Tags      []CTag    `gorm:"many2many:c_user_tags"`
	Notes     []CNote   `gorm:"polymorphic:Owner"`
	DeletedAt gorm.DeletedAt
}

type CCompany struct {
	ID    int64
	G     int
	Name  string
	Users []CUser `gorm:"foreignKey:CompanyID"`
	Notes []CNote `gorm:"polymorphic:Owner"`
}

type COrder struct {
	ID     int64
	G      int
	UserID int64
	User   *CUser
	Amount int64
	Items  []CItem `gorm:"foreignKey:OrderID"`
}

type CItem struct {
	ID      int64
	G       int
	OrderID int64
	Sku     string
}

type CProfile struct {
	ID     int64
	G      int
	UserID int64
	Bio    string
}

type CTag struct {
	ID   int64
	G    int
	Name string
}

type CNote struct {
	ID        int64
	G         int
	OwnerID   int64
	OwnerType string
	Text      string
}

// unrelated model
type CSolo struct {
	ID    int64
	G     int
	V     int64
	Badge CBadge
}

// CBadge serializes itself (declared by value); its Scan yields, as a scanner doing any real work may.
type CBadge string

func (b *CBadge) Scan(ctx context.Context, field *schema.Field, dst reflect.Value, dbValue interface{}) error {
	runtime.Gosched()
	switch v := dbValue.(type) {
	case nil:
		*b = ""
	case []byte:
		*b = CBadge(strings.TrimPrefix(string(v), "badge:"))
	case string:
		*b = CBadge(strings.TrimPrefix(v, "badge:"))
	default:
		return fmt.Errorf("CBadge: %T", dbValue)
	}
	return nil
}

func (b CBadge) Value(ctx context.Context, field *schema.Field, dst reflect.Value, fieldValue interface{}) (interface{}, error) {
	return "badge:" + string(b), nil
}

// shared holds reusable handles that already carry chained state; every goroutine derives from them.
type shared struct {
	hj *gorm.DB // three joins (a slice with spare capacity behind it)
	hw *gorm.DB // three conditions
	ho *gorm.DB // three order columns
	ro bool     // read-only run: totals over all goroutines' rows are stable
}

var sharedOf sync.Map // root *gorm.DB -> *shared

func sharedHandles(db *gorm.DB) *shared {
	if v, ok := sharedOf.Load(db); ok {
		return v.(*shared)
	}
	return nil
}

var allModels = []interface{}{&CUser{}, &CCompany{}, &COrder{}, &CItem{}, &CProfile{}, &CTag{}, &CNote{}, &CSolo{}}
var tables = []string{"c_users", "c_companies", "c_orders", "c_items", "c_profiles", "c_tags", "c_notes", "c_solos", "c_user_tags"}

type Op struct {
	K string `json:"k"`
	A int    `json:"a"`
}

type Config struct {
	Warm    bool   `json:"warm"`
	Prepare bool   `json:"prepare"`
	RO      bool   `json:"ro"` // read-only programs on pre-populated rows, 16 pooled connections
	Progs   [][]Op `json:"progs"`
}

var roKinds = []string{"find_users", "first_user", "preload", "preload_all", "joins", "order_preload_user", "count", "company_users", "notes", "assoc_count",
	"solo_find", "bad_column", "scan_rows", "pluck", "find_map", "h_joins", "h_where", "h_order", "h_order", "h_count", "solo_find"}

var opKinds = []string{"bad_column", "scan_rows", "pluck", "find_map", "h_joins", "h_where", "h_order", "h_count", "create_user", "find_users", "preload", "preload_all", "joins", "update", "delete_order", "tx", "assoc_append", "assoc_count",
	"solo_create", "solo_find", "order_preload_user", "count", "company_users", "notes", "first_user", "save_user", "item_create"}

func id(g, n int) int64 { return int64(g*100000 + n) }

func errTok(err error) string {
	if err == nil {
		return "nil"
	}
	return err.Error()
}

// run executes one operation of goroutine g; the token describes everything it returned.
func run(db *gorm.DB, g int, o Op, st *gstate) string {
	switch o.K {
	case "create_user":
		st.users++
		n := st.users
		cid := id(g, 9000+n)
		u := CUser{ID: id(g, n), G: g, Name: fmt.Sprintf("u%d-%d", g, n),
			Company: &CCompany{ID: cid, G: g, Name: fmt.Sprintf("c%d-%d", g, n)},
			Orders:  []COrder{{ID: id(g, n*10+1), G: g, Amount: int64(n)}, {ID: id(g, n*10+2), G: g, Amount: int64(n * 2)}},
			Profile: &CProfile{ID: id(g, n), G: g, Bio: "bio"},
			Tags:    []CTag{{ID: id(g, n), G: g, Name: fmt.Sprintf("t%d-%d", g, n)}},
			Notes:   []CNote{{ID: id(g, n), G: g, Text: "note"}}}
		r := db.Create(&u)
		return fmt.Sprintf("create_user %s ra=%d id=%d orders=%d", errTok(r.Error), r.RowsAffected, u.ID, len(u.Orders))
	case "find_users":
		var us []CUser
		r := db.Where("g = ?", g).Order("id").Find(&us)
		return fmt.Sprintf("find_users %s %s", errTok(r.Error), userToks(us))
	case "h_count":
		// Count through the shared ordered handle (it drops and restores ORDER BY on its own statement)
		sh := sharedHandles(db)
		if sh == nil {
			return o.K + " no-handle"
		}
		var n int64
		r := sh.ho.Count(&n) // directly on the handle
		if !sh.ro {
			n = -1 // other goroutines are creating users: the total is not comparable
		}
		return fmt.Sprintf("h_count %s %d", errTok(r.Error), n)
	case "h_joins", "h_where", "h_order":
		// a chain derived from a shared handle that already carries three joins / conditions / orderings
		sh := sharedHandles(db)
		if sh == nil {
			return o.K + " no-handle"
		}
		var us []CUser
		var r *gorm.DB
		switch o.K {
		case "h_joins":
			r = sh.hj.Joins("JOIN (SELECT ? AS gg) AS mine ON mine.gg = c_users.g", g).Order("c_users.id").Find(&us)
		case "h_where":
			r = sh.hw.Where("c_users.g = ?", g).Order("c_users.id").Find(&us)
		default:
			r = sh.ho.Where("c_users.g = ?", g).Find(&us) // ordered by the handle: id descending
		}
		return fmt.Sprintf("%s %s %s", o.K, errTok(r.Error), userToks(us))
	case "bad_column":
		// a statement the database rejects: every goroutine must get the error, as when run alone
		var us []CUser
		r := db.Where("no_such_column = ?", g).Find(&us)
		return fmt.Sprintf("bad_column %s %d", errTok(r.Error), len(us))
	case "scan_rows":
		rows, err := db.Model(&CUser{}).Where("g = ?", g).Order("id").Rows()
		if err != nil {
			return "scan_rows " + errTok(err)
		}
		var toks []string
		for rows.Next() {
			var u CUser
			if err := db.ScanRows(rows, &u); err != nil {
				toks = append(toks, errTok(err))
				break
			}
			toks = append(toks, fmt.Sprintf("%d:%s", u.ID, u.Name))
		}
		rows.Close()
		return fmt.Sprintf("scan_rows %v", toks)
	case "pluck":
		var names []string
		var ids []int64
		e1 := db.Model(&CUser{}).Where("g = ?", g).Order("id").Pluck("name", &names).Error
		e2 := db.Model(&COrder{}).Where("g = ?", g).Order("id").Pluck("id", &ids).Error
		return fmt.Sprintf("pluck %s %s %v %v", errTok(e1), errTok(e2), names, ids)
	case "find_map":
		var ms []map[string]interface{}
		r := db.Model(&CUser{}).Select("id", "name", "g").Where("g = ?", g).Order("id").Find(&ms)
		toks := []string{}
		for _, m := range ms {
			toks = append(toks, fmt.Sprintf("%v:%v:%v", m["id"], m["name"], m["g"]))
		}
		return fmt.Sprintf("find_map %s %v", errTok(r.Error), toks)
	case "first_user":
		var u CUser
		r := db.Where("g = ?", g).First(&u)
		return fmt.Sprintf("first_user %s %d %s", errTok(r.Error), u.ID, u.Name)
	case "preload":
		var us []CUser
		r := db.Preload("Orders", func(d *gorm.DB) *gorm.DB { return d.Order("c_orders.id") }).Preload("Orders.Items").Preload("Tags").Preload("Company").Preload("Profile").
			Where("g = ?", g).Order("id").Find(&us)
		return fmt.Sprintf("preload %s %s", errTok(r.Error), userToks(us))
	case "preload_all":
		var us []CUser
		r := db.Preload(clause.Associations).Where("g = ?", g).Order("id").Find(&us)
		return fmt.Sprintf("preload_all %s %s", errTok(r.Error), userToks(us))
	case "joins":
		var us []CUser
		r := db.Joins("Company").Where("c_users.g = ?", g).Order("c_users.id").Find(&us)
		return fmt.Sprintf("joins %s %s", errTok(r.Error), userToks(us))
	case "update":
		r := db.Model(&CUser{}).Where("g = ? AND id = ?", g, id(g, 1+o.A%3)).Update("name", fmt.Sprintf("upd%d-%d", g, o.A))
		return fmt.Sprintf("update %s ra=%d", errTok(r.Error), r.RowsAffected)
	case "save_user":
		var u CUser
		if err := db.Where("g = ?", g).Order("id").First(&u).Error; err != nil {
			return "save_user none " + errTok(err)
		}
		u.Name = fmt.Sprintf("sav%d-%d", g, o.A)
		r := db.Save(&u)
		return fmt.Sprintf("save_user %s ra=%d", errTok(r.Error), r.RowsAffected)
	case "delete_order":
		r := db.Where("g = ? AND id = ?", g, id(g, (1+o.A%3)*10+1)).Delete(&COrder{})
		return fmt.Sprintf("delete_order %s ra=%d", errTok(r.Error), r.RowsAffected)
	case "tx":
		st.solos++
		n := st.solos
		var got []CSolo
		err := db.Transaction(func(tx *gorm.DB) error {
			if err := tx.Create(&CSolo{ID: id(g, 5000+n), G: g, V: int64(n), Badge: CBadge(fmt.Sprintf("b%d-%d", g, n))}).Error; err != nil {
				return err
			}
			if err := tx.Model(&CSolo{}).Where("id = ?", id(g, 5000+n)).Update("v", n*100).Error; err != nil {
				return err
			}
			if o.A%4 == 0 {
				return fmt.Errorf("rollback on purpose")
			}
			return tx.Where("g = ?", g).Order("id").Find(&got).Error
		})
		return fmt.Sprintf("tx %s %v", errTok(err), got)
	case "assoc_append":
		st.extra++
		u := CUser{ID: id(g, 1)}
		err := db.Model(&u).Association("Orders").Append(&COrder{ID: id(g, 7000+st.extra), G: g, Amount: 7})
		return "assoc_append " + errTok(err)
	case "assoc_count":
		u := CUser{ID: id(g, 1)}
		n := db.Model(&u).Association("Orders").Count()
		m := db.Model(&u).Association("Tags").Count()
		return fmt.Sprintf("assoc_count %d %d", n, m)
	case "solo_create":
		st.solos++
		r := db.Create(&CSolo{ID: id(g, 5000+st.solos), G: g, V: int64(o.A), Badge: CBadge(fmt.Sprintf("b%d-%d", g, st.solos))})
		return fmt.Sprintf("solo_create %s ra=%d", errTok(r.Error), r.RowsAffected)
	case "solo_find":
		var ss []CSolo
		r := db.Where("g = ?", g).Order("id").Find(&ss)
		return fmt.Sprintf("solo_find %s %v", errTok(r.Error), ss)
	case "order_preload_user":
		var os []COrder
		r := db.Preload("User").Preload("Items").Where("g = ?", g).Order("id").Find(&os)
		toks := []string{}
		for _, x := range os {
			un := "-"
			if x.User != nil {
				un = x.User.Name
			}
			toks = append(toks, fmt.Sprintf("%d:%d:%s:%d", x.ID, x.Amount, un, len(x.Items)))
		}
		return fmt.Sprintf("order_preload_user %s %v", errTok(r.Error), toks)
	case "item_create":
		st.items++
		r := db.Create(&CItem{ID: id(g, 3000+st.items), G: g, OrderID: id(g, 12), Sku: fmt.Sprint("sku", o.A)})
		return fmt.Sprintf("item_create %s ra=%d", errTok(r.Error), r.RowsAffected)
	case "count":
		var n, m int64
		e1 := db.Model(&CUser{}).Where("g = ?", g).Count(&n).Error
		e2 := db.Model(&COrder{}).Where("g = ?", g).Count(&m).Error
		return fmt.Sprintf("count %s %s %d %d", errTok(e1), errTok(e2), n, m)
	case "company_users":
		var cs []CCompany
		r := db.Preload("Users").Preload("Notes").Where("g = ?", g).Order("id").Find(&cs)
		toks := []string{}
		for _, c := range cs {
			toks = append(toks, fmt.Sprintf("%d:%s:%d:%d", c.ID, c.Name, len(c.Users), len(c.Notes)))
		}
		return fmt.Sprintf("company_users %s %v", errTok(r.Error), toks)
	case "notes":
		var us []CUser
		r := db.Preload("Notes").Where("g = ?", g).Order("id").Find(&us)
		toks := []string{}
		for _, u := range us {
			toks = append(toks, fmt.Sprintf("%d:%d", u.ID, len(u.Notes)))
		}
		return fmt.Sprintf("notes %s %v", errTok(r.Error), toks)
	}
	panic("op " + o.K)
}

type gstate struct{ users, solos, extra, items int }

func userToks(us []CUser) string {
	toks := []string{}
	for _, u := range us {
		c := "-"
		if u.Company != nil {
			c = u.Company.Name
		}
		p := "-"
		if u.Profile != nil {
			p = u.Profile.Bio
		}
		os := []string{}
		for _, o := range u.Orders {
			os = append(os, fmt.Sprintf("%d/%d/%d", o.ID, o.Amount, len(o.Items)))
		}
		ts := []string{}
		for _, t := range u.Tags {
			ts = append(ts, t.Name)
		}
		sort.Strings(ts)
		toks = append(toks, fmt.Sprintf("%d:%s:c=%s:p=%s:o=%v:t=%v:n=%d", u.ID, u.Name, c, p, os, ts, len(u.Notes)))
	}
	return strings.Join(toks, " ")
}

type world struct {
	sqldb *sql.DB
	db    *gorm.DB
}

// newWorld: tables are created through a separate handle, so that the handle under test starts cold.
func newWorld(cfg Config) (*world, error) {
	rec := recdrv.New()
	rec.SetRecording(false)
	sqldb := rec.OpenDB()
	// one connection: SQLite's locking is not the subject; gorm-level state is shared all the same
	sqldb.SetMaxOpenConns(1)
	setup, err := hx.OpenOn(sqldb, nil)
	if err != nil {
		return nil, err
	}
	if err := setup.AutoMigrate(allModels...); err != nil {
		return nil, err
	}
	if cfg.RO {
		// rows for every goroutine, written through the setup handle; readers then share 16 connections
		for g := 1; g <= len(cfg.Progs); g++ {
			st := &gstate{}
			for k := 0; k < 3; k++ {
				if tok := run(setup, g, Op{K: "create_user"}, st); !strings.Contains(tok, "create_user nil") {
					return nil, fmt.Errorf("setup: %s", tok)
				}
			}
			run(setup, g, Op{K: "item_create", A: g}, st)
			run(setup, g, Op{K: "solo_create", A: g}, st)
		}
		sqldb.SetMaxOpenConns(16)
	}
	db, err := hx.OpenOn(sqldb, &gorm.Config{PrepareStmt: cfg.Prepare})
	if err != nil {
		return nil, err
	}
	if cfg.Warm {
		for _, m := range allModels {
			stmt := &gorm.Statement{DB: db}
			if err := stmt.Parse(m); err != nil {
				return nil, err
			}
		}
	}
	one := clause.Expr{SQL: "1 = 1"}
	sharedOf.Store(db, &shared{
		ro: cfg.RO,
		hj: db.Model(&CUser{}).Joins("LEFT JOIN c_profiles p1 ON p1.user_id = c_users.id").Joins("LEFT JOIN c_profiles p2 ON p2.id = p1.id").
			Joins("LEFT JOIN c_profiles p3 ON p3.id = p1.id").Session(&gorm.Session{}),
		hw: db.Model(&CUser{}).Where(one).Where(one).Where(one).Session(&gorm.Session{}),
		ho: db.Model(&CUser{}).Order("c_users.g").Order("c_users.id DESC").Order("c_users.name").Session(&gorm.Session{}),
	})
	return &world{sqldb, db}, nil
}

func (w *world) dump() (map[string][]hx.M, error) {
	out := map[string][]hx.M{}
	for _, t := range tables {
		rows, err := hx.Dump(w.sqldb, t)
		if err != nil {
			return nil, err
		}
		if rows == nil {
			rows = []hx.M{}
		}
		// order-insensitive: sort by rendered row
		sort.Slice(rows, func(i, j int) bool { return fmt.Sprint(rows[i]) < fmt.Sprint(rows[j]) })
		out[t] = rows
	}
	return out, nil
}

func progOf(cfg Config, g int) ([]string, func(db *gorm.DB)) {
	res := make([]string, len(cfg.Progs[g]))
	return res, func(db *gorm.DB) {
		st := &gstate{}
		for i, o := range cfg.Progs[g] {
			func() {
				defer func() {
					if r := recover(); r != nil {
						res[i] = fmt.Sprintf("%s PANIC %v", o.K, r)
					}
				}()
				res[i] = run(db, g+1, o, st)
			}()
		}
	}
}

// Execute runs cfg concurrently and serially; returns the event.
func Execute(caseNo int, cfg Config) (hx.M, error) {
	// concurrent
	w, err := newWorld(cfg)
	if err != nil {
		return nil, err
	}
	n := len(cfg.Progs)
	conc := make([][]string, n)
	var wg sync.WaitGroup
	start := make(chan struct{})
	for g := 0; g < n; g++ {
		res, f := progOf(cfg, g)
		conc[g] = res
		wg.Add(1)
		go func() {
			defer wg.Done()
			<-start
			f(w.db)
		}()
	}
	close(start)
	fin := make(chan struct{})
	go func() { wg.Wait(); close(fin) }()
	hung := false
	stacks := ""
	select {
	case <-fin:
	case <-time.After(20 * time.Second):
		hung = true
		buf := make([]byte, 1<<20)
		stacks = string(buf[:runtime.Stack(buf, true)])
	}
	var cdump map[string][]hx.M
	if !hung {
		if cdump, err = w.dump(); err != nil {
			return nil, err
		}
		w.sqldb.Close()
	}
	// serial: one program after another on a fresh database and handle
	ws, err := newWorld(cfg)
	if err != nil {
		return nil, err
	}
	ser := make([][]string, n)
	for g := 0; g < n; g++ {
		res, f := progOf(cfg, g)
		ser[g] = res
		f(ws.db)
	}
	sdump, err := ws.dump()
	if err != nil {
		return nil, err
	}
	ws.sqldb.Close()
	diffs := []hx.M{}
	for g := 0; g < n && !hung; g++ {
		for i := range conc[g] {
			if conc[g][i] != ser[g][i] {
				diffs = append(diffs, hx.M{"g": g + 1, "i": i + 1, "op": cfg.Progs[g][i].K, "conc": conc[g][i], "ser": ser[g][i]})
			}
		}
	}
	rowsEqual := !hung && fmt.Sprint(cdump) == fmt.Sprint(sdump)
	nops := 0
	for _, p := range cfg.Progs {
		nops += len(p)
	}
	return hx.M{"ev": "Conc", "case": caseNo, "warm": cfg.Warm, "prepare": cfg.Prepare, "ro": cfg.RO, "g": n, "nops": nops, "hung": hung, "diffs": diffs, "rows_equal": rowsEqual, "sample": ser[0], "stacks": stacks}, nil
}

func randConfig(r *rand.Rand, maxG int) Config {
	cfg := Config{Warm: r.Intn(3) == 0, Prepare: r.Intn(2) == 0, RO: r.Intn(3) == 0}
	n := 2 + r.Intn(maxG-1)
	// sometimes every goroutine starts with the same statement, one the database rejects
	sameFirst := r.Intn(4) == 0
	for g := 0; g < n; g++ {
		var p []Op
		if sameFirst {
			p = append(p, Op{K: "bad_column"})
		}
		if cfg.RO {
			for k := 0; k < 4+r.Intn(8); k++ {
				p = append(p, Op{K: roKinds[r.Intn(len(roKinds))], A: r.Intn(8)})
			}
			cfg.Progs = append(cfg.Progs, p)
			continue
		}
		// different goroutines start with different models, so that first uses collide
		first := []string{"create_user", "order_preload_user", "company_users", "solo_create", "preload_all", "joins", "notes", "item_create", "count"}[r.Intn(9)]
		p = append(p, Op{K: first, A: r.Intn(8)})
		for k := 0; k < 2+r.Intn(6); k++ {
			p = append(p, Op{K: opKinds[r.Intn(len(opKinds))], A: r.Intn(8)})
		}
		cfg.Progs = append(cfg.Progs, p)
	}
	return cfg
}

func init() {
	hx.Register("cc-storm", storm)
}

func storm(args []string) error {
	fs := flag.NewFlagSet("cc-storm", flag.ExitOnError)
	out := fs.String("out", "", "events")
	n := fs.Int("n", 50, "")
	seed := fs.Int64("seed", 1, "")
	maxG := fs.Int("maxg", 8, "")
	fixed := fs.String("config", "", "json file with one Config: run it n times")
	fs.Parse(args)
	r := rand.New(rand.NewSource(*seed))
	w, err := hx.NewWriter(*out)
	if err != nil {
		return err
	}
	defer w.Close()
	var fx *Config
	if *fixed != "" {
		b, err := os.ReadFile(*fixed)
		if err != nil {
			return err
		}
		fx = &Config{}
		if err := json.Unmarshal(b, fx); err != nil {
			return err
		}
	}
	for i := 0; i < *n; i++ {
		cfg := randConfig(r, *maxG)
		if fx != nil {
			cfg = *fx
		}
		ev, err := Execute(i+1, cfg)
		if err != nil {
			return err
		}
		cj, _ := json.Marshal(cfg)
		ev["config"] = string(cj)
		w.Emit(ev)
	}
	return nil
}
