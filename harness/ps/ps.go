//go:build verif

// Package ps replays schedules of the prepared-statement cache protocol (spec/PrepStmt.tla) on the
// real gorm.PreparedStmtDB, using the verif instrumentation points as scheduler gates, and runs
// free-running goroutine storms (C14).
package ps

import (
	"context"
	"database/sql"
	"database/sql/driver"
	"encoding/json"
	"errors"
	"flag"
	"fmt"
	"math/rand"
	"os"
	"reflect"
	"strings"
	"sync"
	"sync/atomic"
	"time"

	"gorm.io/gorm"

	"verifharness/hx"
	"verifharness/recdrv"
)

type Plan struct {
	Q    string `json:"q"`
	Tx   bool   `json:"tx"`
	Prep string `json:"prep"` // ok | fail
	Use  string `json:"use"`  // ok | badconn
}

type Step struct {
	G int    `json:"g"`
	A string `json:"a"`
	// observed after the step: cached entry per text (0 = none; entries numbered in insertion order)
	M  map[string]int `json:"m,omitempty"`
	Cl bool           `json:"cl"` // the map is nil (cache closed)
}

type Schedule struct {
	Plan  []Plan `json:"plan"`
	Admin string `json:"admin"`
	Conns int    `json:"conns"` // size of the connection pool (0 = unlimited)
	Hist  []Step `json:"hist"`
}

type gidKey struct{}

// q1 goes through QueryContext, q2 through ExecContext (direct and in a transaction: all four
// eviction sites of prepare_stmt.go)
// q3 (storms only) goes through QueryRowContext
var texts = map[string]string{"q1": "SELECT v FROM ps WHERE id = ?", "q2": "SELECT id FROM ps WHERE v = ?", "q3": "SELECT v + 1 FROM ps WHERE id = ?"}

// gate is the scheduler: goroutines park at instrumentation points until released.
type gate struct {
	mu      sync.Mutex
	parked  map[string]chan struct{} // who -> release channel
	at      map[string]string        // who -> point
	arrived chan string
	open    bool
	ents    []interface{} // entry pointers in insertion order
}

func newGate() *gate {
	return &gate{parked: map[string]chan struct{}{}, at: map[string]string{}, arrived: make(chan string, 256)}
}

func (g *gate) park(who, point string) {
	g.mu.Lock()
	if g.open {
		g.mu.Unlock()
		return
	}
	ch := make(chan struct{})
	g.parked[who] = ch
	g.at[who] = point
	g.mu.Unlock()
	g.arrived <- who
	<-ch
}

func (g *gate) release(who string) bool {
	g.mu.Lock()
	ch, ok := g.parked[who]
	delete(g.parked, who)
	delete(g.at, who)
	g.mu.Unlock()
	if ok {
		close(ch)
	}
	return ok
}

func (g *gate) openAll() {
	g.mu.Lock()
	g.open = true
	for who, ch := range g.parked {
		close(ch)
		delete(g.parked, who)
	}
	g.mu.Unlock()
}

func (g *gate) where(who string) string {
	g.mu.Lock()
	defer g.mu.Unlock()
	return g.at[who]
}

// entryID numbers the cache entries of this replay in insertion order (registered at "ps:inserted").
func (g *gate) entryID(p interface{}) int {
	g.mu.Lock()
	defer g.mu.Unlock()
	for i, e := range g.ents {
		if e == p {
			return i + 1
		}
	}
	g.ents = append(g.ents, p)
	return len(g.ents)
}

// knownID is entryID without registering: 0 for an entry of another replay (a closer goroutine of the
// previous schedule may still be on its way when the next replay has installed its hook).
func (g *gate) knownID(p interface{}) int {
	g.mu.Lock()
	defer g.mu.Unlock()
	for i, e := range g.ents {
		if e == p {
			return i + 1
		}
	}
	return 0
}

func classify(err error) string {
	switch {
	case err == nil:
		return "ok"
	case errors.Is(err, recdrv.ErrInjected):
		return "prep_err"
	case errors.Is(err, driver.ErrBadConn):
		return "badconn"
	case errors.Is(err, gorm.ErrInvalidDB):
		return "invalid_db"
	case strings.Contains(err.Error(), "statement is closed"):
		return "stmt_closed"
	}
	return "other:" + err.Error()
}

type world struct {
	rec    *recdrv.Rec
	sqldb  *sql.DB
	pool   *countPool
	pdb    *gorm.PreparedStmtDB
	keep   *sql.Conn
	plans  []Plan
	mu     sync.Mutex
	inPrep map[int]bool // goroutine is inside the cache's own PrepareContext call
	gate   *gate        // replay only: the driver call of a use parks at "drv:use"
	inUse  map[int]bool // goroutine's driver call was already gated (database/sql retries ErrBadConn)
}

// countPool is the ConnPool the cache sits on: it counts the cache's pool-level PrepareContext calls.
type countPool struct {
	*sql.DB
	mu  sync.Mutex
	ok  map[string]int
	all []*sql.Stmt // every statement the cache prepared on the pool
}

func (p *countPool) PrepareContext(ctx context.Context, q string) (*sql.Stmt, error) {
	st, err := p.DB.PrepareContext(ctx, q)
	if err == nil {
		p.mu.Lock()
		p.ok[q]++
		p.all = append(p.all, st)
		p.mu.Unlock()
	}
	return st, err
}

// track keeps the in-prepare flag from the instrumentation points (no gating).
func (w *world) track(point string, args ...interface{}) {
	if point != "ps:inserted" && point != "ps:prepared" && point != "ps:prepfail" && point != "ps:txdirect" && point != "ps:use" {
		return
	}
	ctx, _ := args[0].(context.Context)
	gi, _ := ctx.Value(gidKey{}).(int)
	w.mu.Lock()
	w.inPrep[gi] = point == "ps:inserted" || point == "ps:txdirect"
	w.mu.Unlock()
}

// snapshot reads the cache's map: text name -> entry number.
func (w *world) snapshot(g *gate) (map[string]int, bool) {
	w.pdb.Mux.RLock()
	defer w.pdb.Mux.RUnlock()
	m := map[string]int{"q1": 0, "q2": 0}
	for name, t := range texts {
		if e, ok := w.pdb.Stmts[t]; ok {
			m[name] = g.knownID(e)
		}
	}
	return m, w.pdb.Stmts == nil
}

// stmtClosed reads database/sql's closed flag of a *sql.Stmt (replay only; all goroutines are parked).
func stmtClosed(st *sql.Stmt) bool {
	if st == nil {
		return true
	}
	return reflect.ValueOf(st).Elem().FieldByName("closed").Bool()
}

// closePending: a Close call holds or waits for the statement's close lock (a sync.RWMutex shows a
// writer, waiting or active, as a negative reader count), or has finished.
func closePending(st *sql.Stmt) bool {
	if stmtClosed(st) {
		return true
	}
	return reflect.ValueOf(st).Elem().FieldByName("closemu").FieldByName("readerCount").FieldByName("v").Int() < 0
}

// replay: no idle connections are kept, so that closing a statement never has to wait for a
// connection on which another (parked) call is in flight -- every call gets a connection of its own.
func newWorld(plans []Plan, replay bool, conns int) (*world, error) {
	rec := recdrv.New()
	sqldb := rec.OpenDB()
	if conns > 0 {
		sqldb.SetMaxOpenConns(conns + 1) // + the pinned connection below
	} else {
		sqldb.SetMaxOpenConns(12)
	}
	if replay {
		sqldb.SetMaxIdleConns(0)
	}
	w := &world{rec: rec, sqldb: sqldb, plans: plans, inPrep: map[int]bool{}, inUse: map[int]bool{}}
	var err error
	// one pinned connection keeps the shared in-memory database alive while bad connections are dropped
	if w.keep, err = sqldb.Conn(context.Background()); err != nil {
		return nil, err
	}
	for _, q := range []string{"CREATE TABLE ps(id integer primary key, v integer)", "INSERT INTO ps(id,v) VALUES (1,10),(2,20)"} {
		if _, err := w.keep.ExecContext(context.Background(), q); err != nil {
			return nil, err
		}
	}
	w.pool = &countPool{DB: sqldb, ok: map[string]int{}}
	w.pdb = gorm.NewPreparedStmtDB(w.pool)
	failed := map[string]bool{}
	var mu sync.Mutex
	rec.Decide = func(e *recdrv.Event) error {
		gi := 0
		fmt.Sscanf(e.Ctx, "g%d", &gi)
		if gi < 1 || gi > len(plans) {
			return nil
		}
		p := plans[gi-1]
		mu.Lock()
		defer mu.Unlock()
		w.mu.Lock()
		own := w.inPrep[gi]
		w.mu.Unlock()
		// only the cache's own PrepareContext fails; database/sql's re-preparations on other connections do not
		if e.K == "prepare" && own && p.Prep == "fail" && !failed[e.Ctx] {
			failed[e.Ctx] = true
			return recdrv.ErrInjected
		}
		if (e.K == "query" || e.K == "exec") && e.Prepared {
			if w.gate != nil && !w.inUse[gi] {
				w.inUse[gi] = true
				mu.Unlock()
				w.gate.park(fmt.Sprintf("g%d", gi), "drv:use") // the call is in flight
				mu.Lock()
			}
			if p.Use == "badconn" {
				return driver.ErrBadConn
			}
		}
		return nil
	}
	return w, nil
}

// op runs goroutine gi's operation and returns its result class.
func (w *world) op(gi int) (res string) {
	defer func() {
		if r := recover(); r != nil {
			res = fmt.Sprintf("panic:%v", r)
		}
	}()
	p := w.plans[gi-1]
	ctx := context.WithValue(context.Background(), gidKey{}, gi)
	ctx = context.WithValue(ctx, recdrv.CtxKey{}, fmt.Sprintf("g%d", gi))
	if p.Tx {
		cp, err := w.pdb.BeginTx(ctx, nil)
		if err != nil {
			return "other:begin " + err.Error()
		}
		tx := cp.(*gorm.PreparedStmtTX)
		if w.gate != nil {
			w.gate.park(fmt.Sprintf("g%d", gi), "tx:begun")
		}
		if p.Q == "q3" {
			var v int64
			err = tx.QueryRowContext(ctx, texts[p.Q], 1).Scan(&v)
			if err == nil && v != 11 {
				tx.Rollback()
				return fmt.Sprintf("wrongrow:%d", v)
			}
		} else if p.Q == "q2" {
			_, err = tx.ExecContext(ctx, texts[p.Q], 1)
		} else {
			var rows *sql.Rows
			rows, err = tx.QueryContext(ctx, texts[p.Q], 1)
			if rows != nil {
				for rows.Next() {
				}
				rows.Close()
			}
		}
		res := classify(err)
		if err != nil {
			tx.Rollback()
		} else {
			tx.Commit()
		}
		return res
	}
	if p.Q == "q2" {
		_, err := w.pdb.ExecContext(ctx, texts[p.Q], 1)
		return classify(err)
	}
	if p.Q == "q3" {
		var v int64
		err := w.pdb.QueryRowContext(ctx, texts[p.Q], 1).Scan(&v)
		if err == nil && v != 11 {
			return fmt.Sprintf("wrongrow:%d", v)
		}
		return classify(err)
	}
	rows, err := w.pdb.QueryContext(ctx, texts[p.Q], 1)
	if rows != nil {
		for rows.Next() {
		}
		rows.Close()
	}
	return classify(err)
}

type Obs struct {
	Res      []string       `json:"res"`
	Prepares map[string]int `json:"prepares"` // the cache's successful pool-level (non-transaction) PrepareContext calls per text
	Ran      int            `json:"ran"`      // schedule steps carried out
	Leaked   int            `json:"leaked"`
	Deadlock bool           `json:"deadlock"`
	Drift    string         `json:"drift"`
}

var nextGate = map[string][]string{
	"begin":      {"tx:begun"},
	"direct":     {"ps:txdirect"},
	"txprep":     {"ps:use", "done"},
	"lookup":     {"ps:miss", "ps:hit"},
	"lockcheck":  {"ps:hit", "ps:inserted", "done"},
	"driverprep": {"ps:prepared", "ps:prepfail"},
	"publish":    {"ps:use"},
	"faildelete": {"done"},
	"wait":       {"ps:use", "done"},
	"use":        {"drv:use", "done"},
	"useend":     {"ps:badconn", "done"},
	"evict":      {"done"},
}
var fromGate = map[string]string{"begin": "start", "direct": "ps:hit", "txprep": "ps:txdirect", "lookup": "start", "lockcheck": "ps:miss", "driverprep": "ps:inserted", "publish": "ps:prepared",
	"faildelete": "ps:prepfail", "wait": "ps:hit", "use": "ps:use", "useend": "drv:use", "evict": "ps:badconn"}

// Replay steps the real cache through a schedule.
func Replay(s Schedule) (Obs, error) {
	w, err := newWorld(s.Plan, true, s.Conns)
	if err != nil {
		return Obs{}, err
	}
	defer w.sqldb.Close()
	g := newGate()
	w.gate = g
	var hmu sync.Mutex
	entOf := map[int]int{}         // goroutine -> entry it holds
	useStmt := map[int]*sql.Stmt{} // entry -> the *sql.Stmt its holders use
	gorm.VerifHook = func(point string, args ...interface{}) {
		if point == "ps:closer" {
			id := g.knownID(args[0])
			if id == 0 {
				return
			}
			hmu.Lock()
			useStmt[id] = args[0].(*gorm.Stmt).Stmt
			hmu.Unlock()
			g.park(fmt.Sprintf("c%d", id), point)
			return
		}
		w.track(point, args...)
		ctx, _ := args[0].(context.Context)
		gi, _ := ctx.Value(gidKey{}).(int)
		if gi == 0 {
			return
		}
		switch point {
		case "ps:inserted", "ps:hit":
			id := g.knownID(args[1])
			if point == "ps:inserted" {
				id = g.entryID(args[1])
			}
			hmu.Lock()
			entOf[gi] = id
			hmu.Unlock()
		case "ps:txdirect":
			hmu.Lock()
			entOf[gi] = 0
			hmu.Unlock()
		case "ps:use":
			hmu.Lock()
			if entOf[gi] != 0 {
				useStmt[entOf[gi]] = args[1].(*gorm.Stmt).Stmt
			}
			hmu.Unlock()
		}
		g.park(fmt.Sprintf("g%d", gi), point)
	}
	defer func() { gorm.VerifHook = nil }()
	n := len(s.Plan)
	o := Obs{Res: make([]string, n), Prepares: map[string]int{"q1": 0, "q2": 0}}
	done := make([]chan struct{}, n)
	for i := 0; i < n; i++ {
		done[i] = make(chan struct{})
		o.Res[i] = "none"
		go func(i int) {
			g.park(fmt.Sprintf("g%d", i+1), "start")
			o.Res[i] = w.op(i + 1)
			close(done[i])
		}(i)
	}
	// wait until all goroutines are parked at "start"
	waitParked := func(who string, d time.Duration) string {
		deadline := time.After(d)
		for {
			if at := g.where(who); at != "" {
				return at
			}
			select {
			case <-g.arrived:
			case <-deadline:
				return ""
			case <-time.After(2 * time.Millisecond):
			}
		}
	}
	for i := 1; i <= n; i++ {
		if waitParked(fmt.Sprintf("g%d", i), 15*time.Second) != "start" {
			return o, fmt.Errorf("goroutine %d did not start", i)
		}
	}
	isDone := func(i int) bool {
		select {
		case <-done[i-1]:
			return true
		default:
			return false
		}
	}
	drift := func(f string, a ...interface{}) {
		if o.Drift == "" {
			o.Drift = fmt.Sprintf(f, a...)
		}
	}
steps:
	for idx, st := range s.Hist {
		switch {
		case st.A == "reset":
			w.pdb.Reset()
		case st.A == "close":
			w.pdb.Close()
		case st.A == "closer":
			// a closer spawned by Reset/Close parks at "ps:closer" once the entry's preparation is over;
			// released, it calls Close, which waits for the calls in flight
			who := fmt.Sprintf("c%d", -st.G)
			if waitParked(who, 15*time.Second) == "" {
				drift("step %d: closer of entry %d did not arrive", idx+1, -st.G)
				break steps
			}
			g.release(who)
			fallthrough
		case st.A == "estart":
			// the eviction's "go stmt.Close()" has no instrumentation point: wait until it is under way
			hmu.Lock()
			sq := useStmt[-st.G]
			hmu.Unlock()
			for k := 0; sq != nil && k < 15000 && !closePending(sq); k++ {
				time.Sleep(time.Millisecond)
			}
			if sq != nil && !closePending(sq) {
				drift("step %d: no Close call on the statement of entry %d", idx+1, -st.G)
				break steps
			}
		case st.A == "closed":
			hmu.Lock()
			sq := useStmt[-st.G]
			hmu.Unlock()
			for k := 0; sq != nil && k < 15000 && !stmtClosed(sq); k++ {
				time.Sleep(time.Millisecond)
			}
			if sq != nil && !stmtClosed(sq) {
				drift("step %d: statement of entry %d was not closed", idx+1, -st.G)
				break steps
			}
		default:
			who := fmt.Sprintf("g%d", st.G)
			want := fromGate[st.A]
			if st.A == "lookup" && s.Plan[st.G-1].Tx {
				want = "tx:begun"
			}
			if at := g.where(who); at != want {
				drift("step %d: %s expected at %s, is at %q", idx+1, who, want, at)
				break steps
			}
			// a direct call on a statement whose Close has begun fails with "statement is closed", but only
			// after that Close has finished -- which may wait for a connection another parked call occupies
			// (database/sql closes the driver statements under the connection locks): do not wait for it
			lateClosed := false
			if st.A == "use" && !s.Plan[st.G-1].Tx {
				hmu.Lock()
				lateClosed = stmtClosed(useStmt[entOf[st.G]])
				hmu.Unlock()
			}
			g.release(who)
			// wait until the goroutine parks again or finishes
			deadline := time.Now().Add(15 * time.Second)
			if lateClosed {
				deadline = time.Now().Add(20 * time.Millisecond)
			}
			arrived := ""
			for time.Now().Before(deadline) {
				if isDone(st.G) {
					arrived = "done"
					break
				}
				if at := g.where(who); at != "" {
					arrived = at
					break
				}
				time.Sleep(200 * time.Microsecond)
			}
			ok := false
			for _, x := range nextGate[st.A] {
				if x == arrived {
					ok = true
				}
			}
			if !ok && lateClosed && arrived == "" {
				ok = true
			}
			if !ok {
				drift("step %d: after %s(%s) arrived at %q", idx+1, st.A, who, arrived)
				break steps
			}
		}
		s.Hist[idx].M, s.Hist[idx].Cl = w.snapshot(g)
		o.Ran = idx + 1
	}
	// let everything run to completion
	g.openAll()
	for i := 0; i < n; i++ {
		select {
		case <-done[i]:
		case <-time.After(20 * time.Second):
			o.Deadlock = true
		}
	}
	for name, t := range texts {
		o.Prepares[name] = w.pool.ok[t]
	}
	// leak check: after Close every statement the cache prepared must get closed
	w.pdb.Close()
	unclosed := func() int {
		w.pool.mu.Lock()
		defer w.pool.mu.Unlock()
		n := 0
		for _, st := range w.pool.all {
			if !stmtClosed(st) {
				n++
			}
		}
		return n
	}
	for k := 0; k < 1000 && unclosed() > 0; k++ {
		time.Sleep(time.Millisecond)
	}
	o.Leaked = unclosed()
	w.keep.Close()
	return o, nil
}

func init() {
	hx.Register("ps-replay", replayCmd)
	hx.Register("ps-storm", stormCmd)
}

func replayCmd(args []string) error {
	fs := flag.NewFlagSet("ps-replay", flag.ExitOnError)
	in := fs.String("cases", "", "schedules ndjson")
	out := fs.String("out", "", "events")
	fs.Parse(args)
	lines, err := hx.ReadNDJSON(*in)
	if err != nil {
		return err
	}
	w, err := hx.NewWriter(*out)
	if err != nil {
		return err
	}
	defer w.Close()
	for i, l := range lines {
		var s Schedule
		if err := json.Unmarshal(l, &s); err != nil {
			return err
		}
		o, err := Replay(s)
		if err != nil {
			return fmt.Errorf("schedule %d: %v", i, err)
		}
		w.Emit(hx.M{"ev": "PS", "case": i + 1, "plan": s.Plan, "admin": s.Admin, "conns": s.Conns, "hist": s.Hist[:o.Ran], "obs": o})
	}
	return nil
}

// stormCmd: direction B -- free-running goroutines, Reset/Close storms, no gates.
func stormCmd(args []string) error {
	fs := flag.NewFlagSet("ps-storm", flag.ExitOnError)
	out := fs.String("out", "", "events")
	n := fs.Int("n", 50, "runs")
	seed := fs.Int64("seed", 1, "")
	fixed := fs.String("plan", "", "json file {plan, admin}: run this configuration n times")
	fs.Parse(args)
	r := rand.New(rand.NewSource(*seed))
	var fx *Schedule
	if *fixed != "" {
		b, err := os.ReadFile(*fixed)
		if err != nil {
			return err
		}
		fx = &Schedule{}
		if err := json.Unmarshal(b, fx); err != nil {
			return err
		}
	}
	wr, err := hx.NewWriter(*out)
	if err != nil {
		return err
	}
	defer wr.Close()
	var cur atomic.Pointer[world]
	gorm.VerifHook = func(point string, args ...interface{}) {
		if w := cur.Load(); w != nil {
			w.track(point, args...)
		}
	}
	ndead := 0
	for i := 0; i < *n; i++ {
		ng := 2 + r.Intn(7)
		plans := make([]Plan, ng)
		for k := range plans {
			plans[k] = Plan{Q: []string{"q1", "q2", "q3"}[r.Intn(3)], Tx: r.Intn(3) == 0, Prep: "ok", Use: "ok"}
			if r.Intn(6) == 0 {
				plans[k].Prep = "fail"
			}
			if r.Intn(8) == 0 {
				plans[k].Use = "badconn"
			}
		}
		admin := []string{"none", "reset", "close", "reset"}[r.Intn(4)]
		conns := []int{0, 1, 1, 2, 3}[r.Intn(5)]
		if fx != nil {
			plans, admin, ng, conns = fx.Plan, fx.Admin, len(fx.Plan), fx.Conns
		}
		w, err := newWorld(plans, false, conns)
		if err != nil {
			return err
		}
		cur.Store(w)
		// half of the storms start with a warm cache: every text was used once outside a transaction
		if r.Intn(2) == 0 {
			for _, name := range []string{"q1", "q2", "q3"} {
				if rows, err := w.pdb.QueryContext(context.Background(), texts[name], 1); err == nil {
					rows.Close()
				}
			}
		}
		res := make([]string, ng)
		var wg sync.WaitGroup
		start := make(chan struct{})
		for k := 0; k < ng; k++ {
			wg.Add(1)
			go func(k int) {
				defer wg.Done()
				<-start
				res[k] = w.op(k + 1)
			}(k)
		}
		close(start)
		resets := 0
		if admin == "reset" {
			for j := 0; j < 1+r.Intn(3); j++ {
				time.Sleep(time.Duration(r.Intn(200)) * time.Microsecond)
				w.pdb.Reset()
				resets++
			}
		} else if admin == "close" {
			time.Sleep(time.Duration(r.Intn(300)) * time.Microsecond)
			w.pdb.Close()
		}
		fin := make(chan struct{})
		go func() { wg.Wait(); close(fin) }()
		deadlock := false
		select {
		case <-fin:
		case <-time.After(10 * time.Second):
			deadlock = true
		}
		w.pdb.Close()
		for k := 0; k < 1000 && w.rec.OpenStmts() > 0; k++ {
			time.Sleep(time.Millisecond)
		}
		leaked := w.rec.OpenStmts()
		w.keep.Close()
		w.sqldb.Close()
		w.pool.mu.Lock()
		prepares := map[string]int{"q1": w.pool.ok[texts["q1"]], "q2": w.pool.ok[texts["q2"]]}
		w.pool.mu.Unlock()
		if fx != nil && (deadlock || leaked > 0) {
			*n = i // a fixed configuration is re-run to reproduce: one failing run is enough
		}
		if deadlock {
			if ndead++; ndead >= 3 {
				*n = i // three deadlocked runs (10 s each) say enough
			}
		}
		wr.Emit(hx.M{"ev": "Storm", "case": i + 1, "plan": plans, "admin": admin, "conns": conns, "resets": resets, "res": res, "prepares": prepares,
			"leaked": leaked, "deadlock": deadlock})
	}
	return nil
}
