package assoc

import (
	"encoding/json"
	"flag"
	"fmt"
	"math/rand"
	"reflect"
	"sort"

	"gorm.io/gorm"

	"verifharness/fam"
	"verifharness/hx"
)

// Association mode (C12). Parents are users 1,2 (pets 1,2 for the polymorphic has-many relation,
// kennels 1,2 for the polymorphic has-one relation); targets carry integer indices 1..n, mapped per
// relation kind to rows of the target table. An operation with P = 0 is issued on the slice of
// both parents (Delete only).

type AOp struct {
	Op string `json:"op"`
	P  int64  `json:"p"`
	Ts []int  `json:"ts"`
}

type aobs struct {
	Links [][2]int64
	Alive []int64
	Count int64
	Found []int64
	Mem   []int64
	Mems  []hx.M
	Err   string
}

type modeEnv struct {
	e        *Env
	kind     string
	unscoped bool
	single   bool
	parents  map[int64]interface{} // in-memory parent structs (mode single)
}

func langCode(i int64) string { return fmt.Sprintf("l%d", i) }
func langIdx(code string) int64 {
	var i int64
	fmt.Sscanf(code, "l%d", &i)
	return i
}

var modeTables = []string{"companies", "profiles", "toys", "pets", "langs", "users", "user_langs", "kennels"}

func (m *modeEnv) seed(links [][2]int64) error {
	sq := m.e.SQL
	for _, t := range modeTables {
		if _, err := sq.Exec("DELETE FROM " + t); err != nil {
			return err
		}
	}
	sq.Exec("DELETE FROM sqlite_sequence")
	ex := func(q string, a ...interface{}) error { _, err := sq.Exec(q, a...); return err }
	if err := ex("INSERT INTO users(id,name,age,tag) VALUES (1,'u1',1,''),(2,'u2',2,'')"); err != nil {
		return err
	}
	parentOf := func(t int64) interface{} {
		for _, l := range links {
			if l[1] == t {
				return l[0]
			}
		}
		return nil
	}
	switch m.kind {
	case "has_many":
		for t := int64(1); t <= 3; t++ {
			if err := ex("INSERT INTO pets(id,user_id,name,tag) VALUES (?,?,?,'')", t, parentOf(t), fmt.Sprint("pet", t)); err != nil {
				return err
			}
		}
	case "has_one":
		for t := int64(1); t <= 3; t++ {
			p := parentOf(t)
			if p == nil {
				p = int64(0)
			}
			if err := ex("INSERT INTO profiles(id,user_id,name) VALUES (?,?,?)", t, p, fmt.Sprint("pr", t)); err != nil {
				return err
			}
		}
	case "belongs_to":
		for t := int64(1); t <= 3; t++ {
			if err := ex("INSERT INTO companies(id,name) VALUES (?,?)", t, fmt.Sprint("c", t)); err != nil {
				return err
			}
		}
		for _, l := range links {
			if err := ex("UPDATE users SET company_id = ? WHERE id = ?", l[1], l[0]); err != nil {
				return err
			}
		}
	case "many2many":
		for t := int64(1); t <= 3; t++ {
			if err := ex("INSERT INTO langs(code,name) VALUES (?,?)", langCode(t), langCode(t)); err != nil {
				return err
			}
		}
		for _, l := range links {
			if err := ex("INSERT INTO user_langs(user_id,lang_code) VALUES (?,?)", l[0], langCode(l[1])); err != nil {
				return err
			}
		}
	case "poly":
		if err := ex("INSERT INTO pets(id,user_id,name,tag) VALUES (1,1,'pet1',''),(2,1,'pet2','')"); err != nil {
			return err
		}
		for t := int64(1); t <= 3; t++ {
			p := parentOf(t)
			otype := "pets"
			if p == nil {
				// an unlinked toy currently belongs to an owner of ANOTHER kind with the same key
				p, otype = int64(1), "users"
			}
			if err := ex("INSERT INTO toys(id,owner_id,owner_type,name) VALUES (?,?,?,?)", t, p, otype, fmt.Sprint("toy", t)); err != nil {
				return err
			}
		}
		// a toy of another owner type sharing the id space must never be touched
		if err := ex("INSERT INTO toys(id,owner_id,owner_type,name) VALUES (-5,1,'users','foreign')"); err != nil {
			return err
		}
	case "polyone":
		if err := ex("INSERT INTO kennels(id,name) VALUES (1,'k1'),(2,'k2')"); err != nil {
			return err
		}
		for t := int64(1); t <= 3; t++ {
			p := parentOf(t)
			otype := "kennels"
			if p == nil {
				// an unlinked toy belongs to an owner of another kind (toy 2) or to nobody (toy 3)
				p, otype = int64(1), "users"
				if t == 3 {
					p, otype = int64(0), ""
				}
			}
			if err := ex("INSERT INTO toys(id,owner_id,owner_type,name) VALUES (?,?,?,?)", t, p, otype, fmt.Sprint("toy", t)); err != nil {
				return err
			}
		}
		if err := ex("INSERT INTO toys(id,owner_id,owner_type,name) VALUES (-5,1,'users','foreign')"); err != nil {
			return err
		}
	}
	m.parents = map[int64]interface{}{}
	return nil
}

func (m *modeEnv) rel() string {
	switch m.kind {
	case "has_many":
		return "Pets"
	case "has_one":
		return "Profile"
	case "belongs_to":
		return "Company"
	case "many2many":
		return "Langs"
	case "polyone":
		return "Toy"
	}
	return "Toys"
}

// parent returns the struct the operation is issued on: kept across operations in mode single,
// freshly loaded from the database otherwise.
func (m *modeEnv) parent(p int64) (interface{}, error) {
	if m.single {
		if v, ok := m.parents[p]; ok {
			return v, nil
		}
	}
	var v interface{}
	var err error
	q := m.e.DB.Session(&gorm.Session{})
	if m.single { // the in-memory field starts out agreeing with the stored links
		q = q.Preload(m.rel())
	}
	if m.kind == "poly" {
		x := &fam.Pet{}
		err = q.First(x, p).Error
		v = x
	} else if m.kind == "polyone" {
		x := &fam.Kennel{}
		err = q.First(x, p).Error
		v = x
	} else {
		x := &fam.User{}
		err = q.First(x, p).Error
		v = x
	}
	if m.single {
		m.parents[p] = v
	}
	return v, err
}

// target builds the value handed to Append/Replace/Delete for target index t (0 = new record).
func (m *modeEnv) target(t int, newN *int) interface{} {
	id := int64(t)
	switch m.kind {
	case "has_many":
		if t == 0 {
			*newN++
			return &fam.Pet{Name: fmt.Sprint("newpet", *newN)}
		}
		return &fam.Pet{ID: id, Name: fmt.Sprint("pet", id)}
	case "has_one":
		if t == 0 {
			*newN++
			return &fam.Profile{Name: fmt.Sprint("newpr", *newN)}
		}
		return &fam.Profile{ID: id, Name: fmt.Sprint("pr", id)}
	case "belongs_to":
		if t == 0 {
			*newN++
			return &fam.Company{Name: fmt.Sprint("newc", *newN)}
		}
		return &fam.Company{ID: id, Name: fmt.Sprint("c", id)}
	case "many2many":
		if t == 0 {
			*newN++
			return &fam.Lang{Code: "", Name: "x"} // replaced by caller with the next code
		}
		return &fam.Lang{Code: langCode(id), Name: langCode(id)}
	}
	if t == 0 {
		*newN++
		return &fam.Toy{Name: fmt.Sprint("newtoy", *newN)}
	}
	return &fam.Toy{ID: id, Name: fmt.Sprint("toy", id)}
}

func sorted(x []int64) []int64 {
	sort.Slice(x, func(i, j int) bool { return x[i] < x[j] })
	if x == nil {
		return []int64{}
	}
	return x
}

func (m *modeEnv) rawLinks() ([][2]int64, []int64, error) {
	sq := m.e.SQL
	links := [][2]int64{}
	var alive []int64
	q2 := func(q string, pair bool) error {
		rows, err := sq.Query(q)
		if err != nil {
			return err
		}
		defer rows.Close()
		for rows.Next() {
			if pair {
				var a, b int64
				if err := rows.Scan(&a, &b); err != nil {
					return err
				}
				links = append(links, [2]int64{a, b})
			} else {
				var a int64
				if err := rows.Scan(&a); err != nil {
					return err
				}
				alive = append(alive, a)
			}
		}
		return rows.Err()
	}
	var err error
	switch m.kind {
	case "has_many":
		err = q2("SELECT user_id, id FROM pets WHERE user_id IS NOT NULL AND user_id <> 0 ORDER BY 1,2", true)
		if err == nil {
			err = q2("SELECT id FROM pets ORDER BY 1", false)
		}
	case "has_one":
		err = q2("SELECT user_id, id FROM profiles WHERE user_id IS NOT NULL AND user_id <> 0 ORDER BY 1,2", true)
		if err == nil {
			err = q2("SELECT id FROM profiles ORDER BY 1", false)
		}
	case "belongs_to":
		err = q2("SELECT id, company_id FROM users WHERE company_id IS NOT NULL ORDER BY 1,2", true)
		if err == nil {
			err = q2("SELECT id FROM companies ORDER BY 1", false)
		}
	case "many2many":
		err = q2("SELECT user_id, CAST(substr(lang_code,2) AS INTEGER) FROM user_langs ORDER BY 1,2", true)
		if err == nil {
			err = q2("SELECT CAST(substr(code,2) AS INTEGER) FROM langs ORDER BY 1", false)
		}
	case "polyone":
		err = q2("SELECT owner_id, id FROM toys WHERE owner_type = 'kennels' AND owner_id IS NOT NULL AND owner_id <> 0 ORDER BY 1,2", true)
		if err == nil {
			err = q2("SELECT id FROM toys WHERE id > 0 ORDER BY 1", false)
		}
	case "poly":
		err = q2("SELECT owner_id, id FROM toys WHERE owner_type = 'pets' AND owner_id IS NOT NULL AND owner_id <> 0 ORDER BY 1,2", true)
		if err == nil {
			err = q2("SELECT id FROM toys WHERE id > 0 ORDER BY 1", false)
		}
	}
	return links, sorted(alive), err
}

func (m *modeEnv) memOf(parent interface{}) []int64 {
	set := map[int64]bool{}
	switch m.kind {
	case "has_many":
		for _, x := range parent.(*fam.User).Pets {
			set[x.ID] = true
		}
	case "has_one":
		if x := parent.(*fam.User).Profile; x != nil && x.ID != 0 {
			set[x.ID] = true
		}
	case "belongs_to":
		if x := parent.(*fam.User).Company; x != nil && x.ID != 0 {
			set[x.ID] = true
		}
	case "many2many":
		for _, x := range parent.(*fam.User).Langs {
			set[langIdx(x.Code)] = true
		}
	case "poly":
		for _, x := range parent.(*fam.Pet).Toys {
			set[x.ID] = true
		}
	case "polyone":
		if x := parent.(*fam.Kennel).Toy; x != nil && x.ID != 0 {
			set[x.ID] = true
		}
	}
	var out []int64
	for k := range set {
		out = append(out, k)
	}
	return sorted(out)
}

func (m *modeEnv) findIDs(parent interface{}) ([]int64, int64, error) {
	as := m.e.DB.Model(parent).Association(m.rel())
	var ids []int64
	var err error
	switch m.kind {
	case "has_many":
		var xs []fam.Pet
		err = as.Find(&xs)
		for _, x := range xs {
			ids = append(ids, x.ID)
		}
	case "has_one":
		var xs []fam.Profile
		err = as.Find(&xs)
		for _, x := range xs {
			ids = append(ids, x.ID)
		}
	case "belongs_to":
		var xs []fam.Company
		err = as.Find(&xs)
		for _, x := range xs {
			ids = append(ids, x.ID)
		}
	case "many2many":
		var xs []fam.Lang
		err = as.Find(&xs)
		for _, x := range xs {
			ids = append(ids, langIdx(x.Code))
		}
	case "poly", "polyone":
		var xs []fam.Toy
		err = as.Find(&xs)
		for _, x := range xs {
			ids = append(ids, x.ID)
		}
	}
	cnt := m.e.DB.Model(parent).Association(m.rel()).Count()
	return sorted(ids), cnt, err
}

// run executes one history and returns the event.
func (m *modeEnv) run(caseNo int, links [][2]int64, ops []AOp) (hx.M, error) {
	if err := m.seed(links); err != nil {
		return nil, err
	}
	fam.Cur = nil
	next := int64(4)
	newN := 0
	opsJ := []hx.M{}
	for _, a := range ops {
		qp := a.P
		if qp == 0 {
			qp = 1
		}
		parent, err := m.parent(qp)
		if err != nil {
			return nil, err
		}
		var model interface{} = parent
		var other interface{}
		if a.P == 0 {
			// the second parent is loaded for this operation only (with its relation field in mode
			// single); the order of the two in the slice depends on the targets named
			saved := m.parents
			m.parents = map[int64]interface{}{}
			other, err = m.parent(2)
			m.parents = saved
			if err != nil {
				return nil, err
			}
			sum := 0
			for _, t := range a.Ts {
				sum += t
			}
			if sum%2 == 0 {
				model = m.slice(other, parent)
			} else {
				model = m.slice(parent, other)
			}
		}
		var vals []interface{}
		for _, t := range a.Ts {
			v := m.target(t, &newN)
			if t == 0 && m.kind == "many2many" {
				v = &fam.Lang{Code: langCode(next), Name: langCode(next)}
			}
			if t == 0 {
				next++
			}
			vals = append(vals, v)
		}
		if len(vals) >= 3 {
			// three or more targets: the first as a single value, the others together as one slice argument
			tail := reflect.MakeSlice(reflect.SliceOf(reflect.TypeOf(vals[1])), 0, len(vals)-1)
			for _, v := range vals[1:] {
				tail = reflect.Append(tail, reflect.ValueOf(v))
			}
			vals = []interface{}{vals[0], tail.Interface()}
		}
		// a fresh association handle per operation (it mutates its own statement)
		as := m.e.DB.Model(model).Association(m.rel())
		if m.unscoped {
			as = as.Unscoped()
		}
		var opErr error
		switch a.Op {
		case "append":
			opErr = as.Append(vals...)
		case "replace":
			opErr = as.Replace(vals...)
		case "delete":
			opErr = as.Delete(vals...)
		case "clear":
			opErr = as.Clear()
		}
		var o aobs
		o.Err = errText(opErr)
		if o.Links, o.Alive, err = m.rawLinks(); err != nil {
			return nil, err
		}
		obsParent := parent
		if !m.single {
			if obsParent, err = m.reload(qp); err != nil {
				return nil, err
			}
		}
		found, cnt, ferr := m.findIDs(obsParent)
		if ferr != nil && o.Err == "nil" {
			o.Err = "find: " + ferr.Error()
		}
		o.Found, o.Count = found, cnt
		o.Mem = m.memOf(parent)
		o.Mems = []hx.M{}
		if m.single {
			o.Mems = append(o.Mems, hx.M{"p": qp, "mem": o.Mem})
			if other != nil {
				o.Mems = append(o.Mems, hx.M{"p": 2, "mem": m.memOf(other)})
			}
		}
		ts := a.Ts
		if ts == nil {
			ts = []int{}
		}
		opsJ = append(opsJ, hx.M{"op": a.Op, "p": a.P, "ts": ts, "obs": hx.M{"links": o.Links, "alive": o.Alive,
			"count": o.Count, "found": o.Found, "mem": o.Mem, "mems": o.Mems, "err": o.Err}})
	}
	mode := "multi"
	if m.single {
		mode = "single"
	}
	rops, _ := json.Marshal(ops)
	return hx.M{"ev": "AHist", "case": caseNo, "kind": m.kind, "unscoped": m.unscoped, "mode": mode,
		"init": hx.M{"links": links, "alive": []int64{1, 2, 3}, "next": 4}, "ops": opsJ, "rops": string(rops)}, nil
}

// slice builds the slice-of-parents model value for an operation on all parents.
func (m *modeEnv) slice(a, b interface{}) interface{} {
	switch m.kind {
	case "poly":
		return &[]*fam.Pet{a.(*fam.Pet), b.(*fam.Pet)}
	case "polyone":
		return &[]*fam.Kennel{a.(*fam.Kennel), b.(*fam.Kennel)}
	}
	return &[]*fam.User{a.(*fam.User), b.(*fam.User)}
}

func (m *modeEnv) reload(p int64) (interface{}, error) {
	if m.kind == "polyone" {
		x := &fam.Kennel{}
		return x, m.e.DB.First(x, p).Error
	}
	if m.kind == "poly" {
		x := &fam.Pet{}
		return x, m.e.DB.First(x, p).Error
	}
	x := &fam.User{}
	return x, m.e.DB.First(x, p).Error
}

func newModeEnv() (*Env, error) {
	db, rec, sqldb, err := hx.Open(nil)
	if err != nil {
		return nil, err
	}
	sqldb.SetMaxOpenConns(1)
	fam.Cur = nil
	if err := db.AutoMigrate(fam.AllModels...); err != nil {
		return nil, err
	}
	if err := db.AutoMigrate(&fam.Kennel{}); err != nil {
		return nil, err
	}
	return &Env{DB: db, Rec: rec, SQL: sqldb}, nil
}

func initLinks(kind string) [][2]int64 {
	if kind == "has_one" || kind == "belongs_to" || kind == "polyone" {
		return [][2]int64{{1, 1}}
	}
	return [][2]int64{{1, 1}, {1, 2}}
}

func init() {
	hx.Register("amode-replay", modeReplay)
	hx.Register("amode-random", modeRandom)
}

// modeReplay: direction A -- every history of the TLC state graph for one relation kind.
func modeReplay(args []string) error {
	fs := flag.NewFlagSet("amode-replay", flag.ExitOnError)
	in := fs.String("cases", "", "histories ndjson ({ops:[...]})")
	out := fs.String("out", "", "events")
	kind := fs.String("kind", "has_many", "")
	unscoped := fs.Bool("unscoped", false, "")
	single := fs.Bool("single", false, "one in-memory struct per parent receives every operation")
	from := fs.Int("from", 0, "")
	to := fs.Int("to", -1, "")
	fs.Parse(args)
	lines, err := hx.ReadNDJSON(*in)
	if err != nil {
		return err
	}
	if *to < 0 || *to > len(lines) {
		*to = len(lines)
	}
	e, err := newModeEnv()
	if err != nil {
		return err
	}
	w, err := hx.NewWriter(*out)
	if err != nil {
		return err
	}
	defer w.Close()
	m := &modeEnv{e: e, kind: *kind, unscoped: *unscoped, single: *single}
	for i := *from; i < *to; i++ {
		var c struct {
			Ops   []AOp      `json:"ops"`
			Links [][2]int64 `json:"links"`
		}
		if err := json.Unmarshal(lines[i], &c); err != nil {
			return err
		}
		if m.single && !singleOK(c.Ops) {
			continue
		}
		if c.Links == nil {
			c.Links = initLinks(*kind)
		}
		ev, err := m.run(i+1, c.Links, c.Ops)
		if err != nil {
			return fmt.Errorf("case %d: %v", i, err)
		}
		w.Emit(ev)
	}
	return nil
}

// singleOK: the in-memory value is only specified for a record that received every operation:
// histories on one parent only.
func singleOK(ops []AOp) bool {
	for _, a := range ops {
		if a.P != 1 && a.P != 0 {
			return false
		}
	}
	return true
}

// modeRandom: direction B -- sequences of up to 8 operations, every kind, scoped and Unscoped.
func modeRandom(args []string) error {
	fs := flag.NewFlagSet("amode-random", flag.ExitOnError)
	out := fs.String("out", "", "events")
	n := fs.Int("n", 200, "")
	seed := fs.Int64("seed", 1, "")
	fs.Parse(args)
	r := rand.New(rand.NewSource(*seed))
	e, err := newModeEnv()
	if err != nil {
		return err
	}
	w, err := hx.NewWriter(*out)
	if err != nil {
		return err
	}
	defer w.Close()
	kinds := []string{"has_many", "has_one", "belongs_to", "many2many", "poly", "polyone"}
	for i := 0; i < *n; i++ {
		m := &modeEnv{e: e, kind: kinds[r.Intn(len(kinds))], unscoped: r.Intn(4) == 0, single: r.Intn(2) == 0}
		functional := m.kind == "has_one" || m.kind == "belongs_to" || m.kind == "polyone"
		ln := 1 + r.Intn(8)
		var ops []AOp
		known := 3
		for k := 0; k < ln; k++ {
			a := AOp{P: 1}
			if !m.single && r.Intn(2) == 0 {
				a.P = 2
			}
			a.Op = []string{"append", "append", "replace", "delete", "clear"}[r.Intn(5)]
			if a.Op == "delete" && r.Intn(3) == 0 {
				a.P = 0 // Delete issued on the slice of both parents
			}
			nt := 1 + r.Intn(3)
			if functional {
				nt = 1
			}
			if a.Op == "clear" {
				nt = 0
			}
			for j := 0; j < nt; j++ {
				t := 1 + r.Intn(known)
				if a.Op != "delete" && r.Intn(4) == 0 {
					t = 0
				}
				a.Ts = append(a.Ts, t)
			}
			for _, t := range a.Ts {
				if t == 0 {
					known++
				}
			}
			if a.Ts == nil {
				a.Ts = []int{}
			}
			ops = append(ops, a)
		}
		links := initLinks(m.kind)
		if r.Intn(2) == 0 { // the second parent starts out with a target of its own
			links = append(links, [2]int64{2, 3})
		}
		ev, err := m.run(i+1, links, ops)
		if err != nil {
			return fmt.Errorf("case %d: %v", i, err)
		}
		w.Emit(ev)
	}
	return nil
}

var _ = gorm.ErrRecordNotFound
