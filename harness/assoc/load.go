// Package assoc drives eager loading (C11; join/preload/association part of C08) and
// association mode (C12) over families of related models with adversarial keys.
package assoc

import (
	"database/sql"
	"flag"
	"fmt"
	"math/rand"
	"sort"
	"strconv"

	"gorm.io/gorm"
	"gorm.io/gorm/clause"

	"verifharness/hx"
	"verifharness/recdrv"
)

// ---- family 1: soft-delete chain, integer keys ---------------------------------------------
// Note is declared first and is nullable: a joined row whose first column is NULL still exists.
type SC struct {
	Note      *string
	ID        int64
	Name      string
	V         int
	DeletedAt gorm.DeletedAt
}
type SB struct {
	Note      *string
	ID        int64
	Name      string
	V         int
	SCID      *int64
	SC        *SC
	DeletedAt gorm.DeletedAt
}
type SKid struct {
	ID        int64
	SAID      *int64
	Name      string
	V         int
	DeletedAt gorm.DeletedAt
}
type SOne struct {
	Note      *string
	ID        int64
	SAID      *int64
	Name      string
	V         int
	DeletedAt gorm.DeletedAt
}
type SA struct {
	ID        int64
	Name      string
	SBID      *int64
	SB        *SB
	Kids      []SKid
	One       *SOne
	DeletedAt gorm.DeletedAt
}

// ---- family 2: composite string keys --------------------------------------------------------
type CT struct {
	X    string `gorm:"primaryKey"`
	Y    string `gorm:"primaryKey"`
	Name string
}
type CK struct {
	ID        int64
	PA        *string
	PB        *string
	Name      string
	V         int
	Parent    *CP `gorm:"foreignKey:PA,PB;references:A,B"`
	DeletedAt gorm.DeletedAt
}
type CO struct {
	ID   int64
	PA   *string
	PB   *string
	Name string
}
type CP struct {
	A    string `gorm:"primaryKey"`
	B    string `gorm:"primaryKey"`
	Name string
	Kids []CK `gorm:"foreignKey:PA,PB;references:A,B"`
	One  *CO  `gorm:"foreignKey:PA,PB;references:A,B"`
	Tags []CT `gorm:"many2many:cp_cts;foreignKey:A,B;joinForeignKey:CpA,CpB;references:X,Y;joinReferences:CtX,CtY"`
}

// ---- family 3: self-referential + polymorphic, integer keys ---------------------------------
type Toy2 struct {
	ID        int64
	OwnerID   int64
	OwnerType string
	Name      string
}
type Node struct {
	ID       int64
	Name     string
	ParentID *int64
	Parent   *Node
	Children []Node `gorm:"foreignKey:ParentID"`
	Toys     []Toy2 `gorm:"polymorphic:Owner"`
}
type Box struct { // a second polymorphic owner type sharing ids with Node
	ID   int64
	Name string
	Toys []Toy2 `gorm:"polymorphic:Owner"`
}

var models = []interface{}{&SC{}, &SB{}, &SKid{}, &SOne{}, &SA{}, &CT{}, &CK{}, &CO{}, &CP{}, &Toy2{}, &Node{}, &Box{}}
var tables = []string{"scs", "sbs", "s_kids", "s_ones", "sas", "cts", "cks", "cos", "cps", "cp_cts", "toy2", "nodes", "boxes", "dup2"}

type Env struct {
	DB  *gorm.DB
	Rec *recdrv.Rec
	SQL *sql.DB
}

func NewEnv() (*Env, error) {
	db, rec, sqldb, err := hx.Open(nil)
	if err != nil {
		return nil, err
	}
	sqldb.SetMaxOpenConns(1)
	if err := db.AutoMigrate(models...); err != nil {
		return nil, err
	}
	if _, err := sqldb.Exec("CREATE TABLE dup2(n integer)"); err != nil {
		return nil, err
	}
	return &Env{DB: db, Rec: rec, SQL: sqldb}, nil
}

func (e *Env) wipe() {
	for _, t := range tables {
		e.SQL.Exec("DELETE FROM " + t)
	}
	e.SQL.Exec("INSERT INTO dup2(n) VALUES (1),(2)")
}

// ---- abstract rows --------------------------------------------------------------------------
type row struct {
	ID    []string
	FK    []string
	BFK   []string
	PType string
	Del   bool
	V     int
}

func (r row) JSON() hx.M {
	nn := func(x []string) []string {
		if x == nil {
			return []string{"null"}
		}
		return x
	}
	return hx.M{"id": nn(r.ID), "fk": nn(r.FK), "bfk": nn(r.BFK), "ptype": r.PType, "del": r.Del, "v": r.V}
}
func rowsJ(rs []row) []hx.M {
	out := []hx.M{}
	for _, r := range rs {
		out = append(out, r.JSON())
	}
	return out
}

type hop struct {
	Kind  string
	PType string
	Links [][2][]string
}

func (h hop) JSON() hx.M {
	ls := [][][]string{}
	for _, l := range h.Links {
		ls = append(ls, [][]string{l[0], l[1]})
	}
	return hx.M{"kind": h.Kind, "ptype": h.PType, "links": ls}
}

// res is a node of the observed result tree.
type res struct {
	ID   []string
	Kids []res
}

func (r res) JSON() hx.M {
	ks := []hx.M{}
	for _, k := range r.Kids {
		ks = append(ks, k.JSON())
	}
	return hx.M{"id": r.ID, "kids": ks}
}

func ik(v int64) []string { return []string{"i:" + strconv.FormatInt(v, 10)} }
func ikp(v *int64) []string {
	if v == nil {
		return []string{"null"}
	}
	return ik(*v)
}
func sk(parts ...*string) []string {
	out := []string{}
	for _, p := range parts {
		if p == nil {
			out = append(out, "null")
		} else {
			out = append(out, "s:"+*p)
		}
	}
	return out
}
func sp(s string) *string { return &s }

var stamp = "2020-01-02 03:04:05"

// note: the first declared column of the joined models is NULL for odd ids
func note(id int64) interface{} {
	if id%2 == 1 {
		return nil
	}
	return "n"
}

func del(b bool) interface{} {
	if b {
		return stamp
	}
	return nil
}

type load struct {
	Fam      string
	Op       string // preload joins innerjoins find
	Path     string
	Unscoped bool
	Dup      bool
	CondOn   bool
	CondGt   int
	CondEq   int // 0: no second alternative; else "... OR v = CondEq-1"
	CondNe   int // 0: none; else a second condition "v <> CondNe-1" given for the relation itself
	Shape    string // struct slice ptrslice
	Levels   [][]row
	Hops     []hop
	Result   []res
	Count    int64
	Err      string
}

func (l load) Event(caseNo int) hx.M {
	lv := [][]hx.M{}
	for _, x := range l.Levels {
		lv = append(lv, rowsJ(x))
	}
	hs := []hx.M{}
	for _, h := range l.Hops {
		hs = append(hs, h.JSON())
	}
	rs := []hx.M{}
	for _, r := range l.Result {
		rs = append(rs, r.JSON())
	}
	return hx.M{"ev": "Load", "case": caseNo, "fam": l.Fam, "op": l.Op, "path": l.Path, "unscoped": l.Unscoped, "dup": l.Dup,
		"cond": hx.M{"on": l.CondOn, "gt": l.CondGt, "eq": l.CondEq - 1, "ne": l.CondNe - 1}, "shape": l.Shape, "levels": lv, "hops": hs, "result": rs, "count": l.Count, "err": l.Err}
}

// ---------------------------------------------------------------------------------------------
// family 1 driver
type f1data struct {
	cs                           []SC
	bs                           []SB
	as                           []SA
	kids                         []SKid
	ones                         []SOne
	cdel, bdel, adel, kdel, odel map[int64]bool
}

func genF1(r *rand.Rand) *f1data {
	d := &f1data{cdel: map[int64]bool{}, bdel: map[int64]bool{}, adel: map[int64]bool{}, kdel: map[int64]bool{}, odel: map[int64]bool{}}
	nc, nb, na := 2+r.Intn(3), 2+r.Intn(4), 2+r.Intn(4)
	for i := 1; i <= nc; i++ {
		d.cs = append(d.cs, SC{ID: int64(i), Name: fmt.Sprint("c", i), V: r.Intn(5)})
		d.cdel[int64(i)] = r.Intn(3) == 0
	}
	for i := 1; i <= nb; i++ {
		b := SB{ID: int64(i), Name: fmt.Sprint("b", i), V: r.Intn(5)}
		if r.Intn(5) != 0 {
			v := int64(1 + r.Intn(nc+1)) // may dangle
			b.SCID = &v
		}
		d.bs = append(d.bs, b)
		d.bdel[int64(i)] = r.Intn(3) == 0
	}
	kid, one := int64(1), int64(1)
	for i := 1; i <= na; i++ {
		a := SA{ID: int64(i), Name: fmt.Sprint("a", i)}
		if r.Intn(5) != 0 {
			v := int64(1 + r.Intn(nb+1))
			a.SBID = &v
		}
		d.as = append(d.as, a)
		d.adel[int64(i)] = r.Intn(4) == 0
		for k := 0; k < r.Intn(4); k++ {
			id := int64(i)
			d.kids = append(d.kids, SKid{ID: kid, SAID: &id, Name: fmt.Sprint("k", kid), V: r.Intn(5)})
			d.kdel[kid] = r.Intn(3) == 0
			kid++
		}
		if r.Intn(3) != 0 {
			id := int64(i)
			d.ones = append(d.ones, SOne{ID: one, SAID: &id, Name: fmt.Sprint("o", one), V: r.Intn(5)})
			d.odel[one] = r.Intn(3) == 0
			one++
		}
	}
	// orphans with NULL foreign key
	d.kids = append(d.kids, SKid{ID: kid, Name: "orphan", V: 1})
	return d
}

func (e *Env) loadF1(d *f1data) error {
	e.wipe()
	for _, c := range d.cs {
		if _, err := e.SQL.Exec("INSERT INTO scs(id,name,v,deleted_at,note) VALUES(?,?,?,?,?)", c.ID, c.Name, c.V, del(d.cdel[c.ID]), note(c.ID)); err != nil {
			return err
		}
	}
	for _, b := range d.bs {
		if _, err := e.SQL.Exec("INSERT INTO sbs(id,name,v,sc_id,deleted_at,note) VALUES(?,?,?,?,?,?)", b.ID, b.Name, b.V, b.SCID, del(d.bdel[b.ID]), note(b.ID)); err != nil {
			return err
		}
	}
	for _, a := range d.as {
		if _, err := e.SQL.Exec("INSERT INTO sas(id,name,sb_id,deleted_at) VALUES(?,?,?,?)", a.ID, a.Name, a.SBID, del(d.adel[a.ID])); err != nil {
			return err
		}
	}
	for _, k := range d.kids {
		if _, err := e.SQL.Exec("INSERT INTO s_kids(id,sa_id,name,v,deleted_at) VALUES(?,?,?,?,?)", k.ID, k.SAID, k.Name, k.V, del(d.kdel[k.ID])); err != nil {
			return err
		}
	}
	for _, o := range d.ones {
		if _, err := e.SQL.Exec("INSERT INTO s_ones(id,sa_id,name,v,deleted_at,note) VALUES(?,?,?,?,?,?)", o.ID, o.SAID, o.Name, o.V, del(d.odel[o.ID]), note(o.ID)); err != nil {
			return err
		}
	}
	return nil
}

func (d *f1data) levelA() []row {
	var out []row
	for _, a := range d.as {
		out = append(out, row{ID: ik(a.ID), BFK: ikp(a.SBID), Del: d.adel[a.ID]})
	}
	return out
}
func (d *f1data) levelB() []row {
	var out []row
	for _, b := range d.bs {
		out = append(out, row{ID: ik(b.ID), BFK: ikp(b.SCID), Del: d.bdel[b.ID], V: b.V})
	}
	return out
}
func (d *f1data) levelC() []row {
	var out []row
	for _, c := range d.cs {
		out = append(out, row{ID: ik(c.ID), Del: d.cdel[c.ID], V: c.V})
	}
	return out
}
func (d *f1data) levelKids() []row {
	var out []row
	for _, k := range d.kids {
		out = append(out, row{ID: ik(k.ID), FK: ikp(k.SAID), Del: d.kdel[k.ID], V: k.V})
	}
	return out
}
func (d *f1data) levelOnes() []row {
	var out []row
	for _, o := range d.ones {
		out = append(out, row{ID: ik(o.ID), FK: ikp(o.SAID), Del: d.odel[o.ID], V: o.V})
	}
	return out
}

func resA(a SA, path string) res {
	r := res{ID: ik(a.ID)}
	switch path {
	case "SB", "SB.SC":
		if a.SB != nil {
			b := res{ID: ik(a.SB.ID)}
			if path == "SB.SC" && a.SB.SC != nil {
				b.Kids = append(b.Kids, res{ID: ik(a.SB.SC.ID)})
			}
			r.Kids = append(r.Kids, b)
		}
	case "Kids":
		for _, k := range a.Kids {
			r.Kids = append(r.Kids, res{ID: ik(k.ID)})
		}
	case "One":
		if a.One != nil {
			r.Kids = append(r.Kids, res{ID: ik(a.One.ID)})
		}
	}
	return r
}

func errText(err error) string {
	if err == nil {
		return "nil"
	}
	return err.Error()
}

// runF1 executes one load on family 1.
func (e *Env) runF1(r *rand.Rand, d *f1data) load {
	ops := []struct{ op, path string }{
		{"preload", "SB"}, {"preload", "SB.SC"}, {"preload", "Kids"}, {"preload", "One"},
		{"joins", "SB"}, {"joins", "SB.SC"}, {"joins", "One"}, {"innerjoins", "SB"}, {"find", "Kids"},
		{"joinpre", "SB.SC"}, // the first hop by Joins, the second by a nested Preload on the joined records
	}
	o := ops[r.Intn(len(ops))]
	l := load{Fam: "soft", Op: o.op, Path: o.path, Unscoped: r.Intn(3) == 0, Shape: []string{"slice", "ptrslice", "struct"}[r.Intn(3)]}
	switch o.path {
	case "SB":
		l.Levels = [][]row{d.levelA(), d.levelB()}
		l.Hops = []hop{{Kind: "belongs"}}
	case "SB.SC":
		l.Levels = [][]row{d.levelA(), d.levelB(), d.levelC()}
		l.Hops = []hop{{Kind: "belongs"}, {Kind: "belongs"}}
	case "Kids":
		l.Levels = [][]row{d.levelA(), d.levelKids()}
		l.Hops = []hop{{Kind: "has"}}
	case "One":
		l.Levels = [][]row{d.levelA(), d.levelOnes()}
		l.Hops = []hop{{Kind: "has"}}
	}
	tx := e.DB.Session(&gorm.Session{})
	if l.Unscoped {
		tx = tx.Unscoped()
	}
	var joinConds []interface{}
	if o.op == "find" {
		// association mode on one live parent
		var live []SA
		for _, a := range d.as {
			if !d.adel[a.ID] {
				live = append(live, a)
			}
		}
		if len(live) == 0 {
			l.Op = "skip"
			return l
		}
		a := live[r.Intn(len(live))]
		l.Unscoped = false
		var ks []SKid
		as := e.DB.Model(&SA{ID: a.ID}).Association("Kids")
		err := as.Find(&ks)
		l.Err = errText(err)
		l.Count = e.DB.Model(&SA{ID: a.ID}).Association("Kids").Count()
		l.Levels[0] = []row{{ID: ik(a.ID), BFK: ikp(a.SBID)}}
		rr := res{ID: ik(a.ID)}
		for _, k := range ks {
			rr.Kids = append(rr.Kids, res{ID: ik(k.ID)})
		}
		l.Result = []res{rr}
		return l
	}
	if o.op == "preload" {
		if o.path == "Kids" && r.Intn(3) == 0 {
			l.CondOn, l.CondGt = true, r.Intn(4)
			gt, eq := l.CondGt, -1
			if r.Intn(2) == 0 {
				eq = r.Intn(4)
			}
			l.CondEq = eq + 1
			switch {
			case eq < 0 && r.Intn(3) == 0:
				// conditions for every direct relation, plus conditions of the relation's own: both apply
				l.CondNe = 1 + r.Intn(4)
				ne := l.CondNe - 1
				if r.Intn(2) == 0 {
					tx = tx.Preload(clause.Associations, func(db *gorm.DB) *gorm.DB { return db.Where("v > ?", gt) }).Preload("Kids", "v <> ?", ne)
				} else {
					tx = tx.Preload("Kids", "v <> ?", ne).Preload(clause.Associations, func(db *gorm.DB) *gorm.DB { return db.Where("v > ?", gt) })
				}
			case eq >= 0 && r.Intn(2) == 0:
				tx = tx.Preload("Kids", "v > ? OR v = ?", gt, eq)
			case eq >= 0:
				tx = tx.Preload("Kids", func(db *gorm.DB) *gorm.DB { return db.Where("v > ?", gt).Or("v = ?", eq) })
			case r.Intn(2) == 0:
				tx = tx.Preload("Kids", "v > ?", gt)
			default:
				tx = tx.Preload("Kids", func(db *gorm.DB) *gorm.DB { return db.Where("v > ?", gt) })
			}
		} else if r.Intn(4) == 0 && (o.path == "SB" || o.path == "Kids" || o.path == "One") {
			// clause.Associations loads every direct relation; only the chosen one is compared
			tx = tx.Preload(clause.Associations)
		} else {
			tx = tx.Preload(o.path)
		}
		if r.Intn(4) == 0 {
			l.Dup = true
			tx = tx.Joins("JOIN dup2 ON 1 = 1")
		}
	} else {
		// a join by relation name may carry conditions on the joined rows (ON clause)
		var conds []interface{}
		if (o.path == "SB" || o.path == "One") && r.Intn(3) == 0 {
			l.CondOn, l.CondGt, l.CondEq = true, r.Intn(4), 0
			q := e.DB.Where("v > ?", l.CondGt)
			if r.Intn(2) == 0 {
				l.CondEq = 1 + r.Intn(4)
				q = q.Or("v = ?", l.CondEq-1)
			}
			conds = []interface{}{q}
		}
		joinConds = conds
		switch o.op {
		case "joins":
			tx = tx.Joins(o.path, conds...)
		case "joinpre":
			tx = tx.Joins("SB").Preload("SB.SC")
		default:
			tx = tx.InnerJoins(o.path, conds...)
		}
	}
	var err error
	switch l.Shape {
	case "slice":
		var as []SA
		err = tx.Order("sas.id").Find(&as).Error
		for _, a := range as {
			l.Result = append(l.Result, resA(a, o.path))
		}
	case "ptrslice":
		var as []*SA
		err = tx.Order("sas.id").Find(&as).Error
		for _, a := range as {
			l.Result = append(l.Result, resA(*a, o.path))
		}
	case "struct":
		// one parent by key: restrict level 1 to it
		a := d.as[r.Intn(len(d.as))]
		var out SA
		l.Dup = false
		q := e.DB.Session(&gorm.Session{})
		if l.Unscoped {
			q = q.Unscoped()
		}
		switch o.op {
		case "preload":
			if l.CondOn && l.CondNe > 0 {
				gt, ne := l.CondGt, l.CondNe-1
				q = q.Preload(clause.Associations, func(db *gorm.DB) *gorm.DB { return db.Where("v > ?", gt) }).Preload("Kids", "v <> ?", ne)
			} else if l.CondOn && l.CondEq > 0 {
				q = q.Preload("Kids", "v > ? OR v = ?", l.CondGt, l.CondEq-1)
			} else if l.CondOn {
				q = q.Preload("Kids", "v > ?", l.CondGt)
			} else {
				q = q.Preload(o.path)
			}
		case "joins":
			q = q.Joins(o.path, joinConds...)
		case "joinpre":
			q = q.Joins("SB").Preload("SB.SC")
		default:
			q = q.InnerJoins(o.path, joinConds...)
		}
		err = q.Where("sas.id = ?", a.ID).Take(&out).Error
		l.Levels[0] = []row{{ID: ik(a.ID), BFK: ikp(a.SBID), Del: d.adel[a.ID]}}
		if err == nil {
			l.Result = append(l.Result, resA(out, o.path))
		} else if err == gorm.ErrRecordNotFound {
			err = nil
		}
	}
	l.Err = errText(err)
	return l
}

func init() {
	hx.Register("assoc-load", loadCmd)
}

func loadCmd(args []string) error {
	fs := flag.NewFlagSet("assoc-load", flag.ExitOnError)
	out := fs.String("out", "", "events")
	n := fs.Int("n", 300, "")
	seed := fs.Int64("seed", 1, "")
	fams := fs.String("fams", "soft,comp,self", "families")
	fs.Parse(args)
	r := rand.New(rand.NewSource(*seed))
	e, err := NewEnv()
	if err != nil {
		return err
	}
	w, err := hx.NewWriter(*out)
	if err != nil {
		return err
	}
	defer w.Close()
	var famList []string
	for _, f := range splitComma(*fams) {
		famList = append(famList, f)
	}
	for i := 0; i < *n; i++ {
		switch famList[r.Intn(len(famList))] {
		case "soft":
			d := genF1(r)
			if err := e.loadF1(d); err != nil {
				return err
			}
			for k := 0; k < 4; k++ {
				l := e.runF1(r, d)
				if l.Op != "skip" {
					w.Emit(l.Event(i + 1))
				}
			}
		case "comp":
			d := genF2(r)
			if err := e.loadF2(d); err != nil {
				return err
			}
			for k := 0; k < 4; k++ {
				l := e.runF2(r, d)
				if l.Op != "skip" {
					w.Emit(l.Event(i + 1))
				}
			}
		case "self":
			d := genF3(r)
			if err := e.loadF3(d); err != nil {
				return err
			}
			for k := 0; k < 4; k++ {
				l := e.runF3(r, d)
				if l.Op != "skip" {
					w.Emit(l.Event(i + 1))
				}
			}
		}
	}
	return nil
}

func splitComma(s string) []string {
	var out []string
	cur := ""
	for _, c := range s {
		if c == ',' {
			if cur != "" {
				out = append(out, cur)
			}
			cur = ""
		} else {
			cur += string(c)
		}
	}
	if cur != "" {
		out = append(out, cur)
	}
	return out
}

var _ = sort.Strings
