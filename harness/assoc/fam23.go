package assoc

import (
	"fmt"
	"math/rand"

	"gorm.io/gorm"
)

// adversarial key vocabulary (C11: separators, the text "nil", empty string, "0")
var keyVocab = []string{"a_b", "c", "a", "b_c", "nil", "", "0", "_", "a_", "_b"}

type f2data struct {
	ps    []CP
	ks    []CK
	os    []CO
	ts    []CT
	links [][2][2]string // (p.A,p.B) -> (t.X,t.Y)
	kdel  map[int64]bool
}

func genF2(r *rand.Rand) *f2data {
	d := &f2data{kdel: map[int64]bool{}}
	seen := map[[2]string]bool{}
	np := 2 + r.Intn(4)
	if r.Intn(2) == 0 { // keys that differ only in where the separator falls
		for _, k := range [][2]string{{"a_b", "c"}, {"a", "b_c"}} {
			seen[k] = true
			d.ps = append(d.ps, CP{A: k[0], B: k[1], Name: fmt.Sprintf("p%d", len(d.ps)+1)})
		}
	}
	for len(d.ps) < np {
		k := [2]string{keyVocab[r.Intn(len(keyVocab))], keyVocab[r.Intn(len(keyVocab))]}
		if seen[k] || (k[0] == "" && k[1] == "") { // an all-zero primary key means "unsaved" to gorm
			continue
		}
		seen[k] = true
		d.ps = append(d.ps, CP{A: k[0], B: k[1], Name: fmt.Sprintf("p%d", len(d.ps)+1)})
	}
	pick := func() (*string, *string) {
		switch r.Intn(8) {
		case 0:
			return nil, nil
		case 1:
			a := keyVocab[r.Intn(len(keyVocab))]
			return &a, nil
		case 2: // a key no parent has
			a, b := keyVocab[r.Intn(len(keyVocab))], keyVocab[r.Intn(len(keyVocab))]
			return &a, &b
		}
		p := d.ps[r.Intn(len(d.ps))]
		a, b := p.A, p.B
		return &a, &b
	}
	nk := 2 + r.Intn(6)
	for i := 1; i <= nk; i++ {
		a, b := pick()
		d.ks = append(d.ks, CK{ID: int64(i), PA: a, PB: b, Name: fmt.Sprint("k", i), V: r.Intn(5)})
		d.kdel[int64(i)] = r.Intn(4) == 0
	}
	usedOne := map[[2]string]bool{}
	for i := 1; i <= 1+r.Intn(3); i++ {
		a, b := pick()
		if a != nil && b != nil {
			if usedOne[[2]string{*a, *b}] {
				continue
			}
			usedOne[[2]string{*a, *b}] = true
		}
		d.os = append(d.os, CO{ID: int64(i), PA: a, PB: b, Name: fmt.Sprint("o", i)})
	}
	tseen := map[[2]string]bool{}
	for len(d.ts) < 2+r.Intn(3) {
		k := [2]string{keyVocab[r.Intn(len(keyVocab))], keyVocab[r.Intn(len(keyVocab))]}
		if tseen[k] || (k[0] == "" && k[1] == "") {
			continue
		}
		tseen[k] = true
		d.ts = append(d.ts, CT{X: k[0], Y: k[1], Name: fmt.Sprintf("t%d", len(d.ts)+1)})
	}
	lseen := map[[2][2]string]bool{}
	for i := 0; i < r.Intn(7); i++ {
		p := d.ps[r.Intn(len(d.ps))]
		t := d.ts[r.Intn(len(d.ts))]
		l := [2][2]string{{p.A, p.B}, {t.X, t.Y}}
		if lseen[l] {
			continue
		}
		lseen[l] = true
		d.links = append(d.links, l)
	}
	return d
}

func (e *Env) loadF2(d *f2data) error {
	e.wipe()
	for _, p := range d.ps {
		if _, err := e.SQL.Exec("INSERT INTO cps(a,b,name) VALUES(?,?,?)", p.A, p.B, p.Name); err != nil {
			return err
		}
	}
	for _, k := range d.ks {
		if _, err := e.SQL.Exec("INSERT INTO cks(id,pa,pb,name,v,deleted_at) VALUES(?,?,?,?,?,?)", k.ID, k.PA, k.PB, k.Name, k.V, del(d.kdel[k.ID])); err != nil {
			return err
		}
	}
	for _, o := range d.os {
		if _, err := e.SQL.Exec("INSERT INTO cos(id,pa,pb,name) VALUES(?,?,?,?)", o.ID, o.PA, o.PB, o.Name); err != nil {
			return err
		}
	}
	for _, t := range d.ts {
		if _, err := e.SQL.Exec("INSERT INTO cts(x,y,name) VALUES(?,?,?)", t.X, t.Y, t.Name); err != nil {
			return err
		}
	}
	for _, l := range d.links {
		if _, err := e.SQL.Exec("INSERT INTO cp_cts(cp_a,cp_b,ct_x,ct_y) VALUES(?,?,?,?)", l[0][0], l[0][1], l[1][0], l[1][1]); err != nil {
			return err
		}
	}
	return nil
}

func (d *f2data) levelP() []row {
	var out []row
	for _, p := range d.ps {
		out = append(out, row{ID: sk(&p.A, &p.B)})
	}
	return out
}
func (d *f2data) levelK() []row {
	var out []row
	for _, k := range d.ks {
		out = append(out, row{ID: ik(k.ID), FK: sk(k.PA, k.PB), BFK: sk(k.PA, k.PB), Del: d.kdel[k.ID], V: k.V})
	}
	return out
}
func (d *f2data) levelO() []row {
	var out []row
	for _, o := range d.os {
		out = append(out, row{ID: ik(o.ID), FK: sk(o.PA, o.PB)})
	}
	return out
}
func (d *f2data) levelT() []row {
	var out []row
	for _, t := range d.ts {
		out = append(out, row{ID: sk(&t.X, &t.Y)})
	}
	return out
}
func (d *f2data) m2m() hop {
	h := hop{Kind: "m2m"}
	for _, l := range d.links {
		a, b, x, y := l[0][0], l[0][1], l[1][0], l[1][1]
		h.Links = append(h.Links, [2][]string{sk(&a, &b), sk(&x, &y)})
	}
	return h
}

func resP(p CP, path string) res {
	r := res{ID: sk(&p.A, &p.B)}
	switch path {
	case "Kids":
		for _, k := range p.Kids {
			r.Kids = append(r.Kids, res{ID: ik(k.ID)})
		}
	case "One":
		if p.One != nil {
			r.Kids = append(r.Kids, res{ID: ik(p.One.ID)})
		}
	case "Tags":
		for _, t := range p.Tags {
			x, y := t.X, t.Y
			r.Kids = append(r.Kids, res{ID: sk(&x, &y)})
		}
	}
	return r
}

func (e *Env) runF2(r *rand.Rand, d *f2data) load {
	ops := []struct{ op, path string }{
		{"preload", "Kids"}, {"preload", "One"}, {"preload", "Tags"}, {"preload", "Parent"},
		{"joins", "One"}, {"joins", "Parent"}, {"find", "Kids"}, {"find", "Tags"},
	}
	o := ops[r.Intn(len(ops))]
	l := load{Fam: "comp", Op: o.op, Path: o.path, Shape: []string{"slice", "ptrslice"}[r.Intn(2)]}
	if o.path == "Parent" { // from the child side: CK belongs to CP by (pa, pb)
		l.Levels = [][]row{d.levelK(), d.levelP()}
		l.Hops = []hop{{Kind: "belongs"}}
		tx := e.DB.Session(&gorm.Session{})
		if o.op == "preload" {
			tx = tx.Preload("Parent")
		} else {
			tx = tx.Joins("Parent")
		}
		var ks []CK
		err := tx.Order("cks.id").Find(&ks).Error
		l.Err = errText(err)
		for _, k := range ks {
			rr := res{ID: ik(k.ID)}
			if k.Parent != nil {
				a, b := k.Parent.A, k.Parent.B
				rr.Kids = append(rr.Kids, res{ID: sk(&a, &b)})
			}
			l.Result = append(l.Result, rr)
		}
		return l
	}
	switch o.path {
	case "Kids":
		l.Levels = [][]row{d.levelP(), d.levelK()}
		l.Hops = []hop{{Kind: "has"}}
	case "One":
		l.Levels = [][]row{d.levelP(), d.levelO()}
		l.Hops = []hop{{Kind: "has"}}
	case "Tags":
		l.Levels = [][]row{d.levelP(), d.levelT()}
		l.Hops = []hop{d.m2m()}
	}
	if o.op == "find" {
		p := d.ps[r.Intn(len(d.ps))]
		l.Levels[0] = []row{{ID: sk(&p.A, &p.B)}}
		rr := res{ID: sk(&p.A, &p.B)}
		as := e.DB.Model(&CP{A: p.A, B: p.B}).Association(o.path)
		var err error
		if o.path == "Kids" {
			var ks []CK
			err = as.Find(&ks)
			for _, k := range ks {
				rr.Kids = append(rr.Kids, res{ID: ik(k.ID)})
			}
		} else {
			var ts []CT
			err = as.Find(&ts)
			for _, t := range ts {
				x, y := t.X, t.Y
				rr.Kids = append(rr.Kids, res{ID: sk(&x, &y)})
			}
		}
		l.Err = errText(err)
		l.Count = e.DB.Model(&CP{A: p.A, B: p.B}).Association(o.path).Count()
		l.Result = []res{rr}
		return l
	}
	tx := e.DB.Session(&gorm.Session{})
	if o.op == "preload" {
		if o.path == "Kids" && r.Intn(3) == 0 {
			l.CondOn, l.CondGt = true, r.Intn(4)
			tx = tx.Preload("Kids", "v > ?", l.CondGt)
		} else {
			tx = tx.Preload(o.path)
		}
		if r.Intn(4) == 0 {
			l.Dup = true
			tx = tx.Joins("JOIN dup2 ON 1 = 1")
		}
	} else {
		tx = tx.Joins(o.path)
	}
	var err error
	if l.Shape == "slice" {
		var ps []CP
		err = tx.Order("cps.a, cps.b").Find(&ps).Error
		for _, p := range ps {
			l.Result = append(l.Result, resP(p, o.path))
		}
	} else {
		var ps []*CP
		err = tx.Order("cps.a, cps.b").Find(&ps).Error
		for _, p := range ps {
			l.Result = append(l.Result, resP(*p, o.path))
		}
	}
	l.Err = errText(err)
	return l
}

// ---- family 3: self-referential tree + polymorphic children ---------------------------------
type f3data struct {
	nodes []Node
	boxes []Box
	toys  []Toy2
}

func genF3(r *rand.Rand) *f3data {
	d := &f3data{}
	n := 3 + r.Intn(5)
	for i := 1; i <= n; i++ {
		nd := Node{ID: int64(i), Name: fmt.Sprint("n", i)}
		if i > 1 && r.Intn(4) != 0 {
			p := int64(1 + r.Intn(i-1))
			nd.ParentID = &p
		}
		d.nodes = append(d.nodes, nd)
	}
	for i := 1; i <= 2; i++ {
		d.boxes = append(d.boxes, Box{ID: int64(i), Name: fmt.Sprint("box", i)})
	}
	for i := 1; i <= 2+r.Intn(5); i++ {
		t := Toy2{ID: int64(i), OwnerID: int64(1 + r.Intn(n)), OwnerType: []string{"nodes", "boxes", "other"}[r.Intn(3)], Name: fmt.Sprint("t", i)}
		d.toys = append(d.toys, t)
	}
	return d
}

func (e *Env) loadF3(d *f3data) error {
	e.wipe()
	for _, n := range d.nodes {
		if _, err := e.SQL.Exec("INSERT INTO nodes(id,name,parent_id) VALUES(?,?,?)", n.ID, n.Name, n.ParentID); err != nil {
			return err
		}
	}
	for _, b := range d.boxes {
		if _, err := e.SQL.Exec("INSERT INTO boxes(id,name) VALUES(?,?)", b.ID, b.Name); err != nil {
			return err
		}
	}
	for _, t := range d.toys {
		if _, err := e.SQL.Exec("INSERT INTO toy2(id,owner_id,owner_type,name) VALUES(?,?,?,?)", t.ID, t.OwnerID, t.OwnerType, t.Name); err != nil {
			return err
		}
	}
	return nil
}

func (d *f3data) levelN() []row {
	var out []row
	for _, n := range d.nodes {
		out = append(out, row{ID: ik(n.ID), FK: ikp(n.ParentID), BFK: ikp(n.ParentID)})
	}
	return out
}
func (d *f3data) levelToys() []row {
	var out []row
	for _, t := range d.toys {
		out = append(out, row{ID: ik(t.ID), FK: ik(t.OwnerID), PType: t.OwnerType})
	}
	return out
}

func (e *Env) runF3(r *rand.Rand, d *f3data) load {
	paths := []string{"Children", "Children.Children", "Parent", "Parent.Parent", "Toys", "Children.Toys", "BoxToys", "JoinParent"}
	path := paths[r.Intn(len(paths))]
	l := load{Fam: "self", Op: "preload", Path: path, Shape: "slice"}
	if path == "BoxToys" {
		var bs []row
		for _, b := range d.boxes {
			bs = append(bs, row{ID: ik(b.ID)})
		}
		l.Levels = [][]row{bs, d.levelToys()}
		l.Hops = []hop{{Kind: "has", PType: "boxes"}}
		var out []Box
		err := e.DB.Preload("Toys").Order("id").Find(&out).Error
		l.Err = errText(err)
		for _, b := range out {
			rr := res{ID: ik(b.ID)}
			for _, t := range b.Toys {
				rr.Kids = append(rr.Kids, res{ID: ik(t.ID)})
			}
			l.Result = append(l.Result, rr)
		}
		return l
	}
	var out []Node
	var err error
	conv := func(n Node, depth int) res { return res{} }
	switch path {
	case "Children":
		l.Levels = [][]row{d.levelN(), d.levelN()}
		l.Hops = []hop{{Kind: "has"}}
		err = e.DB.Preload("Children").Order("id").Find(&out).Error
		conv = func(n Node, _ int) res {
			rr := res{ID: ik(n.ID)}
			for _, c := range n.Children {
				rr.Kids = append(rr.Kids, res{ID: ik(c.ID)})
			}
			return rr
		}
	case "Children.Children":
		l.Levels = [][]row{d.levelN(), d.levelN(), d.levelN()}
		l.Hops = []hop{{Kind: "has"}, {Kind: "has"}}
		err = e.DB.Preload("Children.Children").Order("id").Find(&out).Error
		conv = func(n Node, _ int) res {
			rr := res{ID: ik(n.ID)}
			for _, c := range n.Children {
				cr := res{ID: ik(c.ID)}
				for _, g := range c.Children {
					cr.Kids = append(cr.Kids, res{ID: ik(g.ID)})
				}
				rr.Kids = append(rr.Kids, cr)
			}
			return rr
		}
	case "Parent", "JoinParent":
		l.Levels = [][]row{d.levelN(), d.levelN()}
		l.Hops = []hop{{Kind: "belongs"}}
		if path == "JoinParent" {
			l.Op = "joins"
			err = e.DB.Joins("Parent").Order("nodes.id").Find(&out).Error
		} else {
			err = e.DB.Preload("Parent").Order("id").Find(&out).Error
		}
		conv = func(n Node, _ int) res {
			rr := res{ID: ik(n.ID)}
			if n.Parent != nil {
				rr.Kids = append(rr.Kids, res{ID: ik(n.Parent.ID)})
			}
			return rr
		}
	case "Parent.Parent":
		l.Levels = [][]row{d.levelN(), d.levelN(), d.levelN()}
		l.Hops = []hop{{Kind: "belongs"}, {Kind: "belongs"}}
		err = e.DB.Preload("Parent.Parent").Order("id").Find(&out).Error
		conv = func(n Node, _ int) res {
			rr := res{ID: ik(n.ID)}
			if n.Parent != nil {
				pr := res{ID: ik(n.Parent.ID)}
				if n.Parent.Parent != nil {
					pr.Kids = append(pr.Kids, res{ID: ik(n.Parent.Parent.ID)})
				}
				rr.Kids = append(rr.Kids, pr)
			}
			return rr
		}
	case "Toys":
		l.Levels = [][]row{d.levelN(), d.levelToys()}
		l.Hops = []hop{{Kind: "has", PType: "nodes"}}
		err = e.DB.Preload("Toys").Order("id").Find(&out).Error
		conv = func(n Node, _ int) res {
			rr := res{ID: ik(n.ID)}
			for _, t := range n.Toys {
				rr.Kids = append(rr.Kids, res{ID: ik(t.ID)})
			}
			return rr
		}
	case "Children.Toys":
		l.Levels = [][]row{d.levelN(), d.levelN(), d.levelToys()}
		l.Hops = []hop{{Kind: "has"}, {Kind: "has", PType: "nodes"}}
		err = e.DB.Preload("Children.Toys").Order("id").Find(&out).Error
		conv = func(n Node, _ int) res {
			rr := res{ID: ik(n.ID)}
			for _, c := range n.Children {
				cr := res{ID: ik(c.ID)}
				for _, t := range c.Toys {
					cr.Kids = append(cr.Kids, res{ID: ik(t.ID)})
				}
				rr.Kids = append(rr.Kids, cr)
			}
			return rr
		}
	}
	l.Err = errText(err)
	for _, n := range out {
		l.Result = append(l.Result, conv(n, 0))
	}
	return l
}
