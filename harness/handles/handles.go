// Package handles drives C06: histories of interleaved derivations over a tree of reusable
// handles; every finisher's statement is compared with the same path replayed alone on a fresh
// gorm.Open.
package handles

import (
	"context"
	"encoding/json"
	"flag"
	"fmt"
	"math/rand"
	"time"

	"gorm.io/gorm"
	"gorm.io/gorm/clause"

	"verifharness/hx"
	"verifharness/recdrv"
)

type HRow struct {
	ID        int64
	A         int64
	B         int64
	C         int64
	S         string
	DeletedAt gorm.DeletedAt
	Pets      []HPet
}

type HPet struct {
	ID     int64
	HRowID int64
	Name   string
	Toy    HToy
}

// HOther shares the field name S with HRow but maps it to another column.
type HOther struct {
	ID int64
	S  string `gorm:"column:ess"`
}

type HToy struct {
	ID     int64
	HPetID int64
}

type ctxKey struct{}

// hookLog collects what the model's hooks saw (hooks run in DryRun too).
var hookLog []string

func (h *HRow) BeforeCreate(tx *gorm.DB) error {
	hookLog = append(hookLog, fmt.Sprint("BeforeCreate ctx=", tx.Statement.Context.Value(ctxKey{})))
	return nil
}

func (h *HRow) AfterFind(tx *gorm.DB) error {
	hookLog = append(hookLog, fmt.Sprint("AfterFind ctx=", tx.Statement.Context.Value(ctxKey{})))
	return nil
}

var fixedNow = time.Date(2022, 3, 4, 5, 6, 7, 0, time.UTC)

type Call struct {
	M string `json:"m"`
	N int    `json:"n"`
}

type Op struct {
	Op   string `json:"op"` // derive extend session finish
	From int    `json:"from"`
	To   int    `json:"to"`
	M    string `json:"m"`
}

type env struct {
	db   *gorm.DB
	rec  *recdrv.Rec
	real bool
	sql  interface{ Close() error }
}

func newEnv(real bool) (*env, error) {
	db, rec, sqldb, err := hx.Open(&gorm.Config{NowFunc: func() time.Time { return fixedNow }})
	if err != nil {
		return nil, err
	}
	sqldb.SetMaxOpenConns(1)
	if err := db.AutoMigrate(&HRow{}, &HPet{}, &HToy{}, &HOther{}); err != nil {
		return nil, err
	}
	if !real {
		db = db.Session(&gorm.Session{DryRun: true})
	}
	if real {
		sqldb.Exec("INSERT INTO h_rows(id,a,b,c,s) VALUES (1,1,1,1,'x'),(2,2,2,2,'y'),(3,3,3,3,'z')")
		sqldb.Exec("CREATE TABLE t2(id integer, v integer)")
	}
	return &env{db: db, rec: rec, real: real, sql: sqldb}, nil
}

func apply(tx *gorm.DB, c Call) *gorm.DB {
	n := int64(c.N)
	switch c.M {
	case "Where":
		return tx.Where("a = ?", n)
	case "WhereMap":
		return tx.Where(map[string]interface{}{"b": n})
	case "Or":
		return tx.Or("b = ?", n)
	case "Not":
		return tx.Not("c = ?", n)
	case "Select":
		return tx.Select([]string{"id", "a", "b", "c"}[c.N%4])
	case "Omit":
		return tx.Omit([]string{"a", "b", "c", "s"}[c.N%4])
	case "Order":
		return tx.Order([]string{"a", "b desc", "c"}[c.N%3])
	case "Limit":
		return tx.Limit(c.N + 1)
	case "Offset":
		return tx.Offset(c.N + 1)
	case "Group":
		return tx.Group([]string{"a", "b"}[c.N%2]).Having("count(*) > ?", n)
	case "Joins":
		return tx.Joins("JOIN t2 ON t2.id = h_rows.id AND t2.v = ?", n)
	case "Distinct":
		return tx.Distinct([]string{"a", "b"}[c.N%2])
	case "Unscoped":
		return tx.Unscoped()
	case "Scopes":
		return tx.Scopes(func(d *gorm.DB) *gorm.DB { return d.Where("s = ?", fmt.Sprint("sc", n)) })
	case "Returning":
		return tx.Clauses(clause.Returning{Columns: []clause.Column{{Name: fmt.Sprint("r", c.N)}}})
	case "OrderByC":
		return tx.Clauses(clause.OrderBy{Columns: []clause.OrderByColumn{{Column: clause.Column{Name: []string{"a", "b", "c"}[c.N%3]}, Desc: c.N%2 == 0}}})
	case "Locking":
		return tx.Clauses(clause.Locking{Strength: []string{"UPDATE", "SHARE"}[c.N%2]})
	case "OnConflict":
		return tx.Clauses(clause.OnConflict{DoNothing: true})
	case "Table":
		return tx.Table("h_rows AS hr")
	case "TableEmpty": // resets the table of the chain it is called on (and of nothing else)
		return tx.Table("")
	case "Having":
		return tx.Having("count(*) > ?", n)
	case "Model":
		return tx.Model(&HRow{ID: n})
	case "Attrs":
		return tx.Attrs(HRow{B: n + 100})
	case "Assign":
		return tx.Assign(map[string]interface{}{"c": n + 200})
	case "SelectField":
		return tx.Select("S") // a column given by its Go field name
	case "SelectRel":
		return tx.Select("Pets", "Pets.Toy")
	case "SelectAssoc":
		return tx.Select(clause.Associations)
	case "PreloadPets":
		return tx.Preload("Pets")
	case "Preload":
		return tx
	// how a chain value becomes a reusable handle again
	case "Session":
		return tx.Session(&gorm.Session{})
	case "WithContext":
		return tx.WithContext(context.Background())
	case "Debug":
		return tx.Debug()
	case "SessionNewDB":
		return tx.Session(&gorm.Session{NewDB: true})
	case "SessionCtx":
		return tx.Session(&gorm.Session{Context: context.WithValue(context.Background(), ctxKey{}, fmt.Sprint("v", c.N))})
	case "SessionNewDBCtx":
		return tx.Session(&gorm.Session{NewDB: true, Context: context.WithValue(context.Background(), ctxKey{}, fmt.Sprint("v", c.N))})
	case "SessionSkipHooks":
		return tx.Session(&gorm.Session{SkipHooks: true})
	case "SessionNewDBSkipHooks":
		return tx.Session(&gorm.Session{NewDB: true, SkipHooks: true})
	case "SessionNewDBPrepare":
		return tx.Session(&gorm.Session{NewDB: true, PrepareStmt: true})
	case "SessionFull":
		return tx.Session(&gorm.Session{NewDB: true, SkipHooks: true, PrepareStmt: true, SkipDefaultTransaction: true, AllowGlobalUpdate: true, QueryFields: true,
			Context: context.WithValue(context.Background(), ctxKey{}, fmt.Sprint("f", c.N))})
	}
	panic("apply " + c.M)
}

// finish runs the finisher and returns the observation token.
// hasModel: the path names a model or table itself, so finishers that need one run directly on the value.
func (e *env) finish(tx *gorm.DB, f string, hasModel bool) string {
	e.rec.Reset()
	hookLog = nil
	var res *gorm.DB
	extra := ""
	withModel := func() *gorm.DB {
		if hasModel {
			return tx
		}
		return tx.Model(&HRow{})
	}
	switch f {
	case "Find":
		var out []HRow
		res = tx.Find(&out)
		extra = fmt.Sprint(len(out))
	case "First":
		var out HRow
		res = tx.First(&out)
	case "Take":
		var out HRow
		res = tx.Take(&out)
	case "Count":
		var n int64
		res = withModel().Count(&n)
		extra = fmt.Sprint(n)
	case "Pluck":
		var ids []int64
		res = withModel().Pluck("id", &ids)
		extra = fmt.Sprint(ids)
	case "Update":
		res = tx.Model(&HRow{}).Where("id > ?", 0).Update("c", 5)
	case "Delete":
		res = tx.Where("id > ?", 100).Delete(&HRow{})
	case "Scan":
		var out []struct{ ID int64 }
		res = withModel().Scan(&out)
	case "FirstOrInit":
		var out HRow
		res = tx.Where(HRow{A: 999}).FirstOrInit(&out)
		extra = fmt.Sprintf("%d/%d/%d/%d", out.ID, out.A, out.B, out.C)
	case "Create":
		res = tx.Create(&HRow{A: 7})
	case "CountOther":
		// the handle is used with another model, whose field of the same name has another column
		var n int64
		res = tx.Model(&HOther{}).Count(&n)
		extra = fmt.Sprint(n)
	case "DeleteRec":
		// a record with a key: selected associations are deleted first
		res = tx.Delete(&HRow{ID: 3})
	default:
		panic("finish " + f)
	}
	// what the finisher ran with: context value, hook switch, connection pool kind, what the hooks saw
	extra += fmt.Sprintf(" ctx=%v skip=%v pool=%T hooks=%v", res.Statement.Context.Value(ctxKey{}), res.Statement.SkipHooks, res.Statement.ConnPool, hookLog)
	if e.real {
		// the statements the driver saw (ignoring transaction control)
		tok := ""
		for _, ev := range e.rec.Events() {
			if ev.K == "exec" || ev.K == "query" {
				var vals []interface{}
				for _, a := range ev.Args {
					vals = append(vals, a.Value)
				}
				tok += fmt.Sprintf("%s %v;", ev.SQL, vals)
			}
		}
		if f == "Update" || f == "Delete" || f == "Create" {
			e.restore()
		}
		return tok + "|" + extra
	}
	return fmt.Sprintf("%s %v|%s", res.Statement.SQL.String(), res.Statement.Vars, extra)
}

func (e *env) restore() {
	e.rec.SetRecording(false)
	sq, _ := e.db.DB()
	sq.Exec("DELETE FROM h_rows")
	sq.Exec("INSERT INTO h_rows(id,a,b,c,s) VALUES (1,1,1,1,'x'),(2,2,2,2,'y'),(3,3,3,3,'z')")
	sq.Exec("DELETE FROM sqlite_sequence")
	e.rec.SetRecording(true)
}

// isolated replays path alone on a fresh gorm.Open and finishes.
func isolated(real bool, path []Call, f string) (string, error) {
	e, err := newEnv(real)
	if err != nil {
		return "", err
	}
	defer e.sql.Close()
	tx := e.db
	for _, c := range path {
		tx = apply(tx, c)
	}
	return e.finish(tx, f, hasModel(path)), nil
}

func hasModel(path []Call) bool {
	model, table := false, false
	for _, c := range path {
		switch c.M {
		case "Model":
			model = true
		case "Table":
			table = true
		case "TableEmpty":
			table = false
		case "SessionNewDB", "SessionNewDBCtx", "SessionNewDBSkipHooks", "SessionNewDBPrepare", "SessionFull":
			model, table = false, false
		}
	}
	return model || table
}

// run executes a history; returns the event.
func run(caseNo int, real bool, ops []Op) (hx.M, error) {
	e, err := newEnv(real)
	if err != nil {
		return nil, err
	}
	defer e.sql.Close()
	vals := map[int]*gorm.DB{1: e.db}
	paths := map[int][]Call{1: {}}
	calls := 0
	out := []hx.M{}
	for _, a := range ops {
		switch a.Op {
		case "derive", "extend":
			calls++
			c := Call{M: a.M, N: calls}
			vals[a.To] = apply(vals[a.From], c)
			paths[a.To] = append(append([]Call{}, paths[a.From]...), c)
			out = append(out, hx.M{"op": a.Op, "from": a.From, "to": a.To, "m": a.M})
		case "session":
			c := Call{M: a.M, N: a.To}
			vals[a.To] = apply(vals[a.From], c)
			paths[a.To] = append(append([]Call{}, paths[a.From]...), c)
			out = append(out, hx.M{"op": a.Op, "from": a.From, "to": a.To, "m": a.M})
		case "finish":
			obs := e.finish(vals[a.From], a.M, hasModel(paths[a.From]))
			iso, err := isolated(real, paths[a.From], a.M)
			if err != nil {
				return nil, err
			}
			pj := []hx.M{}
			for _, c := range paths[a.From] {
				pj = append(pj, hx.M{"m": c.M, "n": c.N})
			}
			out = append(out, hx.M{"op": "finish", "from": a.From, "to": 0, "m": a.M, "path": pj, "obs": obs, "iso": iso})
		}
	}
	rops, _ := json.Marshal(ops)
	return hx.M{"ev": "Hist", "case": caseNo, "real": real, "ops": out, "rops": string(rops)}, nil
}

func init() {
	hx.Register("handles-replay", replay)
	hx.Register("handles-random", random)
}

func replay(args []string) error {
	fs := flag.NewFlagSet("handles-replay", flag.ExitOnError)
	in := fs.String("cases", "", "histories ndjson ({ops:[...]})")
	out := fs.String("out", "", "events")
	real := fs.Bool("real", false, "execute for real")
	from := fs.Int("from", 0, "")
	to := fs.Int("to", -1, "")
	fs.Parse(args)
	lines, err := hx.ReadNDJSON(*in)
	if err != nil {
		return err
	}
	if *to < 0 || *to > len(lines) {
		*to = len(lines)
	}
	w, err := hx.NewWriter(*out)
	if err != nil {
		return err
	}
	defer w.Close()
	for i := *from; i < *to; i++ {
		var c struct {
			Ops []Op `json:"ops"`
		}
		if err := json.Unmarshal(lines[i], &c); err != nil {
			return err
		}
		hasFinish := false
		for _, o := range c.Ops {
			if o.Op == "finish" {
				hasFinish = true
			}
		}
		if !hasFinish {
			continue
		}
		ev, err := run(i+1, *real, c.Ops)
		if err != nil {
			return err
		}
		w.Emit(ev)
	}
	return nil
}

var methods = []string{"Where", "WhereMap", "Or", "Not", "Select", "Omit", "Order", "Limit", "Offset", "Group", "Joins", "Distinct", "Unscoped",
	"Scopes", "Returning", "Returning", "OrderByC", "Locking", "OnConflict", "Table", "Model", "Attrs", "Assign", "SelectRel", "SelectAssoc", "PreloadPets", "SelectField", "TableEmpty", "Having"}

// methods that append to a slice held by the statement (capacity patterns)
var capMethods = []string{"Where", "WhereMap", "Or", "Not", "Order", "Group", "Having", "Joins", "Scopes", "Returning", "OrderByC", "PreloadPets", "SelectAssoc"}

// methods only exercised in DryRun
var dryOnly = map[string]bool{"Joins": true, "Group": true, "Having": true, "Locking": true, "Returning": true, "Table": true, "TableEmpty": true, "Select": true,
	"Distinct": true, "Omit": true, "SelectRel": true, "SelectAssoc": true, "SelectField": true}
var hows = []string{"Session", "WithContext", "Debug", "SessionNewDB", "SessionCtx", "SessionNewDBCtx", "SessionSkipHooks", "SessionNewDBSkipHooks", "SessionNewDBPrepare", "SessionFull"}
var finishersDry = []string{"Find", "First", "Take", "Count", "Pluck", "Update", "Delete", "Scan", "FirstOrInit", "Create", "DeleteRec", "CountOther"}
var finishersReal = []string{"Find", "First", "Count", "Pluck", "Scan", "FirstOrInit"}

// random: histories of 20-60 operations.
func random(args []string) error {
	fs := flag.NewFlagSet("handles-random", flag.ExitOnError)
	out := fs.String("out", "", "events")
	n := fs.Int("n", 100, "")
	seed := fs.Int64("seed", 1, "")
	maxops := fs.Int("maxops", 40, "")
	fs.Parse(args)
	r := rand.New(rand.NewSource(*seed))
	w, err := hx.NewWriter(*out)
	if err != nil {
		return err
	}
	defer w.Close()
	for i := 0; i < *n; i++ {
		real := r.Intn(3) == 0
		kind := map[int]string{1: "reusable"}
		next := 2
		var ops []Op
		ln := 8 + r.Intn(*maxops)
		// a focus method repeated often makes slice-capacity effects reachable
		focus := methods[r.Intn(len(methods))]
		pick := func() string {
			if r.Intn(3) == 0 {
				return focus
			}
			m := methods[r.Intn(len(methods))]
			if real && dryOnly[m] {
				return "Where"
			}
			return m
		}
		if real && dryOnly[focus] {
			focus = "Or"
		}
		if i%2 == 1 {
			// capacity pattern: the same appending method k times (separate calls leave spare capacity in
			// the slice behind it), a new handle, then sibling chains that each append once more before
			// any of them is finished
			m := capMethods[r.Intn(len(capMethods))]
			if real && dryOnly[m] {
				m = []string{"Where", "Or", "Not", "Order", "Scopes"}[r.Intn(5)]
			}
			ops = append(ops, Op{Op: "derive", From: 1, To: next, M: m})
			cur := next
			next++
			for k := r.Intn(7); k > 0; k-- {
				ops = append(ops, Op{Op: "extend", From: cur, To: next, M: m})
				cur = next
				next++
			}
			ops = append(ops, Op{Op: "session", From: cur, To: next, M: hows[r.Intn(3)]})
			h := next
			next++
			var sibs []int
			for k := 2 + r.Intn(2); k > 0; k-- {
				ops = append(ops, Op{Op: "derive", From: h, To: next, M: m})
				sibs = append(sibs, next)
				next++
			}
			r.Shuffle(len(sibs), func(a, b int) { sibs[a], sibs[b] = sibs[b], sibs[a] })
			fl := finishersDry
			if real {
				fl = finishersReal
			}
			for _, x := range sibs {
				ops = append(ops, Op{Op: "finish", From: x, M: fl[r.Intn(len(fl))]})
			}
			ops = append(ops, Op{Op: "finish", From: h, M: fl[r.Intn(len(fl))]})
			ln = 0
		}
		if i%5 == 2 && !real {
			// receiver pattern: a handle that carries a table and conditions; chains that START with any
			// method on the handle itself (finished or abandoned) must leave the handle as it was
			ops = append(ops, Op{Op: "derive", From: 1, To: next, M: "Table"})
			ops = append(ops, Op{Op: "extend", From: next, To: next + 1, M: pick()})
			ops = append(ops, Op{Op: "session", From: next + 1, To: next + 2, M: hows[r.Intn(3)]})
			h := next + 2
			next += 3
			for k := 2 + r.Intn(3); k > 0; k-- {
				m := methods[r.Intn(len(methods))]
				if r.Intn(3) == 0 {
					m = "TableEmpty"
				}
				ops = append(ops, Op{Op: "derive", From: h, To: next, M: m})
				if r.Intn(2) == 0 {
					ops = append(ops, Op{Op: "finish", From: next, M: finishersDry[r.Intn(len(finishersDry))]})
				}
				next++
				ops = append(ops, Op{Op: "finish", From: h, M: finishersDry[r.Intn(len(finishersDry))]})
			}
			ops = append(ops, Op{Op: "derive", From: h, To: next, M: "Where"})
			ops = append(ops, Op{Op: "finish", From: next, M: "Find"})
			next++
			ln = 0
		}
		for k := 0; k < ln; k++ {
			var reus, chains []int
			for id, kd := range kind {
				if kd == "reusable" {
					reus = append(reus, id)
				} else if kd == "chain" {
					chains = append(chains, id)
				}
			}
			sortInts(reus)
			sortInts(chains)
			c := r.Intn(10)
			switch {
			case c < 3 || len(chains) == 0:
				h := reus[r.Intn(len(reus))]
				ops = append(ops, Op{Op: "derive", From: h, To: next, M: pick()})
				kind[next] = "chain"
				next++
			case c < 6:
				x := chains[r.Intn(len(chains))]
				ops = append(ops, Op{Op: "extend", From: x, To: next, M: pick()})
				kind[x], kind[next] = "dead", "chain"
				next++
			case c < 7 && len(reus) < 4:
				x := chains[r.Intn(len(chains))]
				if r.Intn(3) == 0 {
					x = reus[r.Intn(len(reus))] // a handle derived straight from a reusable handle, which stays in use
				}
				ops = append(ops, Op{Op: "session", From: x, To: next, M: hows[r.Intn(len(hows))]})
				if kind[x] == "chain" {
					kind[x] = "dead"
				}
				kind[next] = "reusable"
				next++
			default:
				all := append(append([]int{}, reus...), chains...)
				x := all[r.Intn(len(all))]
				fl := finishersDry
				if real {
					fl = finishersReal
				}
				ops = append(ops, Op{Op: "finish", From: x, M: fl[r.Intn(len(fl))]})
				if kind[x] == "chain" {
					kind[x] = "dead"
				}
			}
		}
		ev, err := run(i+1, real, ops)
		if err != nil {
			return err
		}
		w.Emit(ev)
	}
	return nil
}

func sortInts(x []int) {
	for i := 1; i < len(x); i++ {
		for j := i; j > 0 && x[j] < x[j-1]; j-- {
			x[j], x[j-1] = x[j-1], x[j]
		}
	}
}
