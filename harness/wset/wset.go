// Package wset drives C10: which columns of which rows a write touches, for model types with
// random per-field permission tags, every write finisher, Select/Omit sets and zero/non-zero payloads.
package wset

import (
	"database/sql"
	"flag"
	"fmt"
	"math/rand"
	"reflect"
	"sort"
	"strings"
	"sync/atomic"
	"time"

	"gorm.io/gorm"
	"gorm.io/gorm/clause"

	"verifharness/hx"
)

type field struct {
	Name string `json:"name"` // Go field name F1..
	Col  string `json:"col"`
	Perm string `json:"perm"` // rw create update none ro ignore
	Auto bool   `json:"auto"`
	Key  bool   `json:"key"`
	Mig  bool   `json:"mig"`  // -:migration (column created by raw DDL)
	Dflt bool   `json:"dflt"` // the database assigns a default (column DEFAULT 5, tag default:5)
	Dbd  bool   `json:"dbd"`  // ... through an expression gorm cannot evaluate itself (tag default:(abs(-5)))
}

type payItem struct {
	F    string `json:"f"`
	Zero bool   `json:"zero"`
}

type write struct {
	Op   string    `json:"op"`
	Pay  []payItem `json:"pay"`
	Sel  []string  `json:"sel"`
	Star bool      `json:"star"`
	Omit []string  `json:"omit"`
	// spelling of Select/Omit entries: field name or column name
	ColSpelling bool `json:"colspelling"`
}

var tblCounter int32

type model struct {
	fields []field
	typ    reflect.Type
	table  string
}

func tagOf(f field) string {
	parts := []string{"column:" + f.Col}
	switch f.Perm {
	case "create":
		parts = append(parts, "<-:create")
	case "update":
		parts = append(parts, "<-:update")
	case "none":
		parts = append(parts, "<-:false")
	case "ro":
		parts = append(parts, "->")
	case "ignore":
		return `gorm:"-"`
	}
	if f.Key {
		parts = append(parts, "primaryKey")
	}
	if f.Auto {
		parts = append(parts, "autoUpdateTime:nano")
	}
	if f.Mig {
		parts = append(parts, "-:migration")
	}
	if f.Dflt && f.Dbd {
		parts = append(parts, "default:(abs(-5))")
	} else if f.Dflt {
		parts = append(parts, "default:5")
	}
	return `gorm:"` + strings.Join(parts, ";") + `"`
}

func newModel(fs []field) *model {
	var sf []reflect.StructField
	for _, f := range fs {
		sf = append(sf, reflect.StructField{Name: f.Name, Type: reflect.TypeOf(int64(0)), Tag: reflect.StructTag(tagOf(f))})
	}
	n := atomic.AddInt32(&tblCounter, 1)
	return &model{fields: fs, typ: reflect.StructOf(sf), table: fmt.Sprintf("wt%d", n)}
}

var t1 = time.Unix(0, 1111)
var t2 = time.Unix(0, 2222)

type env struct {
	db  *gorm.DB
	sql *sql.DB
}

func newEnv() (*env, error) {
	db, _, sqldb, err := hx.Open(&gorm.Config{NowFunc: func() time.Time { return t2 }})
	if err != nil {
		return nil, err
	}
	sqldb.SetMaxOpenConns(1)
	return &env{db, sqldb}, nil
}

func (e *env) setup(m *model) error {
	cols := []string{}
	for _, f := range m.fields {
		if f.Perm == "ignore" {
			continue // an ignored field has no column
		}
		switch {
		case f.Key:
			cols = append(cols, f.Col+" integer primary key")
		case f.Dflt:
			if f.Dbd {
				cols = append(cols, f.Col+" integer default (abs(-5))")
			} else {
				cols = append(cols, f.Col+" integer default 5")
			}
		default:
			cols = append(cols, f.Col+" integer")
		}
	}
	if _, err := e.sql.Exec("CREATE TABLE " + m.table + "(" + strings.Join(cols, ",") + ")"); err != nil {
		return err
	}
	return nil
}

// seed: three rows, every cell a distinct small number, update-time columns at t1.
func (e *env) seed(m *model) error {
	if _, err := e.sql.Exec("DELETE FROM " + m.table); err != nil {
		return err
	}
	for r := int64(1); r <= 3; r++ {
		names, qs := []string{}, []string{}
		vals := []interface{}{}
		for i, f := range m.fields {
			if f.Perm == "ignore" {
				continue
			}
			names = append(names, f.Col)
			qs = append(qs, "?")
			switch {
			case f.Key:
				vals = append(vals, r)
			case f.Auto:
				vals = append(vals, t1.UnixNano())
			default:
				vals = append(vals, r*10+int64(i))
			}
		}
		if _, err := e.sql.Exec("INSERT INTO "+m.table+"("+strings.Join(names, ",")+") VALUES("+strings.Join(qs, ",")+")", vals...); err != nil {
			return err
		}
	}
	return nil
}

func (e *env) dump(m *model) (map[int64]map[string]interface{}, error) {
	rows, err := e.sql.Query("SELECT * FROM " + m.table)
	if err != nil {
		return nil, err
	}
	defer rows.Close()
	cols, _ := rows.Columns()
	out := map[int64]map[string]interface{}{}
	for rows.Next() {
		vals := make([]interface{}, len(cols))
		ptrs := make([]interface{}, len(cols))
		for i := range vals {
			ptrs[i] = &vals[i]
		}
		if err := rows.Scan(ptrs...); err != nil {
			return nil, err
		}
		r := map[string]interface{}{}
		var id int64
		for i, c := range cols {
			r[c] = vals[i]
			if c == "id" {
				id, _ = vals[i].(int64)
			}
		}
		out[id] = r
	}
	return out, rows.Err()
}

func (m *model) byName(n string) field {
	for _, f := range m.fields {
		if f.Name == n {
			return f
		}
	}
	panic("no field " + n)
}

func payVal(f field, zero bool, k int) int64 {
	if zero {
		return 0
	}
	return int64(1000 + k)
}

// run executes the write against target row 2 and reports what changed.
func (e *env) run(m *model, w write) (hx.M, error) {
	if err := e.seed(m); err != nil {
		return nil, err
	}
	before, err := e.dump(m)
	if err != nil {
		return nil, err
	}
	spell := func(n string) string {
		if w.ColSpelling && m.byName(n).Perm != "ignore" {
			return m.byName(n).Col
		}
		return n
	}
	tx := e.db.Table(m.table)
	if w.Star {
		tx = tx.Select("*")
	}
	if len(w.Sel) > 0 {
		var names []interface{}
		for _, s := range w.Sel[1:] {
			names = append(names, spell(s))
		}
		if w.Star {
			all := []string{"*"}
			for _, s := range w.Sel {
				all = append(all, spell(s))
			}
			tx = e.db.Table(m.table).Select(all)
		} else {
			tx = tx.Select(spell(w.Sel[0]), names...)
		}
	}
	if len(w.Omit) > 0 {
		var names []string
		for _, s := range w.Omit {
			names = append(names, spell(s))
		}
		tx = tx.Omit(names...)
	}
	// payload struct / map
	pv := reflect.New(m.typ)
	pm := map[string]interface{}{}
	for k, p := range w.Pay {
		f := m.byName(p.F)
		v := payVal(f, p.Zero, k)
		if f.Key {
			v = 2
			if w.Op == "create" || w.Op == "create_map" || w.Op == "create_maps" || w.Op == "create_slice" {
				v = 9
				if p.Zero {
					v = 0
				}
			}
		}
		pv.Elem().FieldByName(f.Name).SetInt(v)
		pm[spell(f.Name)] = v
	}
	target := reflect.New(m.typ)
	target.Elem().FieldByName("ID").SetInt(2)
	var res *gorm.DB
	switch w.Op {
	case "updates_struct":
		res = tx.Model(target.Interface()).Updates(pv.Interface())
	case "ucols_struct":
		res = tx.Model(target.Interface()).UpdateColumns(pv.Interface())
	case "updates_map":
		res = tx.Model(target.Interface()).Updates(pm)
	case "ucols_map":
		res = tx.Model(target.Interface()).UpdateColumns(pm)
	case "update":
		for k, v := range pm {
			res = tx.Model(target.Interface()).Update(k, v)
		}
	case "ucol":
		for k, v := range pm {
			res = tx.Model(target.Interface()).UpdateColumn(k, v)
		}
	case "save":
		res = tx.Save(pv.Interface())
	case "create":
		res = tx.Create(pv.Interface())
	case "create_slice":
		// first row all zero, second row carries the payload
		sl := reflect.MakeSlice(reflect.SliceOf(m.typ), 2, 2)
		sl.Index(1).Set(pv.Elem())
		sl.Index(1).FieldByName("ID").SetInt(0)
		for _, f := range m.fields {
			if f.Dbd { // SQLite has no DEFAULT keyword inside VALUES: both rows agree on a database-expression default
				sl.Index(0).FieldByName(f.Name).SetInt(pv.Elem().FieldByName(f.Name).Int())
			}
		}
		ptr := reflect.New(sl.Type())
		ptr.Elem().Set(sl)
		res = tx.Create(ptr.Interface())
	case "create_map":
		res = tx.Model(reflect.New(m.typ).Interface()).Create(pm)
	case "create_maps":
		// a slice of maps (batch create from maps)
		res = tx.Model(reflect.New(m.typ).Interface()).Create(&[]map[string]interface{}{pm})
	case "upsert":
		res = tx.Clauses(clause.OnConflict{UpdateAll: true}).Create(pv.Interface())
	default:
		return nil, fmt.Errorf("bad op %s", w.Op)
	}
	errs := "nil"
	if res == nil {
		errs = "noop"
	} else if res.Error != nil {
		errs = res.Error.Error()
	}
	after, err := e.dump(m)
	if err != nil {
		return nil, err
	}
	colName := map[string]string{}
	for _, f := range m.fields {
		colName[f.Col] = f.Name
	}
	changed := []string{} // fields of row 2 whose cell changed
	autoNow := []string{}
	others := []string{}
	newRow := []string{} // fields non-NULL in a row that did not exist before
	for id, a := range after {
		b, existed := before[id]
		for c, v := range a {
			if !existed {
				if id != maxNew(after, before) {
					continue // slice create: the row carrying the payload is the last one
				}
				if v != nil && !(m.byName(colName[c]).Dflt && fmt.Sprint(v) == "5") {
					newRow = append(newRow, colName[c])
				}
				continue
			}
			if fmt.Sprint(v) != fmt.Sprint(b[c]) {
				if id == 2 {
					changed = append(changed, colName[c])
					if fmt.Sprint(v) == fmt.Sprint(t2.UnixNano()) {
						autoNow = append(autoNow, colName[c])
					}
				} else {
					others = append(others, fmt.Sprintf("%d.%s", id, c))
				}
			}
		}
	}
	for id := range before {
		if _, ok := after[id]; !ok {
			others = append(others, fmt.Sprintf("%d.deleted", id))
		}
	}
	sort.Strings(changed)
	sort.Strings(newRow)
	sort.Strings(others)
	sort.Strings(autoNow)
	return hx.M{"changed": changed, "others": others, "newrow": newRow, "autonow": autoNow, "err": errs, "nrows": len(after)}, nil
}

func maxNew(after, before map[int64]map[string]interface{}) int64 {
	var mx int64
	for id := range after {
		if _, ok := before[id]; !ok && id > mx {
			mx = id
		}
	}
	return mx
}

func nzs(x []string) []string {
	if x == nil {
		return []string{}
	}
	return x
}

func event(caseNo int, m *model, w write, o hx.M) hx.M {
	fs := []hx.M{}
	for _, f := range m.fields {
		fs = append(fs, hx.M{"name": f.Name, "perm": f.Perm, "auto": f.Auto, "key": f.Key, "dflt": f.Dflt, "dbd": f.Dbd})
	}
	pay := []hx.M{}
	for _, p := range w.Pay {
		pay = append(pay, hx.M{"f": p.F, "zero": p.Zero})
	}
	return hx.M{"ev": "WS", "case": caseNo, "model": fs, "op": w.Op, "pay": pay, "sel": nzs(w.Sel), "star": w.Star, "omit": nzs(w.Omit),
		"colspelling": w.ColSpelling, "obs": o}
}

func init() {
	hx.Register("wset-random", random)
}

var perms = []string{"rw", "rw", "rw", "create", "update", "none", "ro", "ignore"}

func randModel(r *rand.Rand) *model {
	fs := []field{{Name: "ID", Col: "id", Perm: "rw", Key: true}}
	for i := 1; i <= 4; i++ {
		fs = append(fs, field{Name: fmt.Sprintf("F%d", i), Col: fmt.Sprintf("c%d", i), Perm: perms[r.Intn(len(perms))], Mig: r.Intn(8) == 0})
	}
	if r.Intn(2) == 0 {
		perm := "rw"
		if r.Intn(3) == 0 { // a tracked time that only one path may write
			perm = perms[r.Intn(len(perms))]
		}
		fs = append(fs, field{Name: "Upd", Col: "upd", Perm: perm, Auto: true})
	}
	if r.Intn(2) == 0 {
		fs = append(fs, field{Name: "D1", Col: "d1", Perm: perms[r.Intn(len(perms)-1)], Dflt: true, Dbd: r.Intn(2) == 0})
	}
	return newModel(fs)
}

func subset(r *rand.Rand, names []string, p int) []string {
	var out []string
	for _, n := range names {
		if r.Intn(p) == 0 {
			out = append(out, n)
		}
	}
	return out
}

func randWrite(r *rand.Rand, m *model) write {
	ops := []string{"updates_struct", "updates_map", "update", "ucols_struct", "ucols_map", "ucol", "save", "create", "create_slice", "create_map", "create_maps", "upsert"}
	w := write{Op: ops[r.Intn(len(ops))], ColSpelling: r.Intn(2) == 0}
	var names []string
	for _, f := range m.fields {
		if !f.Key {
			names = append(names, f.Name)
		}
	}
	structPay := w.Op == "updates_struct" || w.Op == "ucols_struct" || w.Op == "save" || w.Op == "create" || w.Op == "create_slice" || w.Op == "upsert"
	if structPay {
		w.Pay = append(w.Pay, payItem{F: "ID", Zero: (w.Op == "create" && r.Intn(2) == 0) || w.Op == "create_slice"})
		for _, n := range names {
			w.Pay = append(w.Pay, payItem{F: n, Zero: r.Intn(3) == 0})
		}
	} else if w.Op == "update" || w.Op == "ucol" {
		w.Pay = []payItem{{F: names[r.Intn(len(names))], Zero: r.Intn(3) == 0}}
	} else {
		for _, n := range subset(r, names, 2) {
			w.Pay = append(w.Pay, payItem{F: n, Zero: r.Intn(3) == 0})
		}
		if len(w.Pay) == 0 {
			w.Pay = []payItem{{F: names[0]}}
		}
		if w.Op == "create_map" || w.Op == "create_maps" {
			w.Pay = append(w.Pay, payItem{F: "ID"})
		}
	}
	switch r.Intn(4) {
	case 0:
		w.Sel = subset(r, names, 2)
	case 1:
		w.Star = true
	}
	if r.Intn(3) == 0 {
		w.Omit = subset(r, names, 3)
	}
	if w.Op == "create_map" || w.Op == "create_maps" || w.Op == "create" || w.Op == "create_slice" || w.Op == "upsert" {
		w.Star = false
	}
	if w.Op == "upsert" && len(w.Sel) > 0 { // a Select without the key would turn the upsert into a plain insert
		w.Sel = append([]string{"ID"}, w.Sel...)
	}
	if w.Op == "create_map" || w.Op == "create_maps" { // a map key naming an ignored field makes gorm emit invalid SQL (observation, DESIGN section 7)
		var keep []payItem
		for _, p := range w.Pay {
			if m.byName(p.F).Perm != "ignore" {
				keep = append(keep, p)
			}
		}
		w.Pay = keep
	}
	return w
}

func random(args []string) error {
	fs := flag.NewFlagSet("wset-random", flag.ExitOnError)
	out := fs.String("out", "", "events")
	n := fs.Int("n", 300, "")
	seed := fs.Int64("seed", 1, "")
	only := fs.Int("only", 0, "emit only this case number")
	fs.Parse(args)
	r := rand.New(rand.NewSource(*seed))
	e, err := newEnv()
	if err != nil {
		return err
	}
	w, err := hx.NewWriter(*out)
	if err != nil {
		return err
	}
	defer w.Close()
	var m *model
	for i := 0; i < *n; i++ {
		if i%20 == 0 {
			m = randModel(r)
			if err := e.setup(m); err != nil {
				return err
			}
		}
		wr := randWrite(r, m)
		o, err := e.run(m, wr)
		if err != nil {
			return fmt.Errorf("case %d: %v", i, err)
		}
		if *only == 0 || *only == i+1 {
			w.Emit(event(i+1, m, wr, o))
		}
	}
	return nil
}
