package wset

import (
	"encoding/json"
	"flag"
	"fmt"

	"verifharness/hx"
)

// replay: direction A -- every (model, write) state of the WriteSet state graph (two-field models),
// adapted where the driver needs it (see adapt), executed on a generated model type.
type rcase struct {
	Model []field `json:"model"`
	Write write   `json:"write"`
}

// adapt turns a state of the model-checked space into a write the driver can issue; ok = false for
// states outside the checked domain (the same restrictions the random driver applies).
func adapt(m *model, w write) (write, bool) {
	create := w.Op == "create" || w.Op == "create_slice" || w.Op == "create_map" || w.Op == "create_maps" || w.Op == "upsert"
	if create && w.Star {
		return w, false
	}
	switch w.Op {
	case "update", "ucol":
		if len(w.Pay) != 1 {
			return w, false
		}
	case "updates_map", "ucols_map", "create_map", "create_maps":
		if len(w.Pay) == 0 {
			return w, false
		}
	}
	if w.Op == "create_map" || w.Op == "create_maps" {
		for _, p := range w.Pay {
			if m.byName(p.F).Perm == "ignore" { // observation O3: invalid SQL
				return w, false
			}
		}
		w.Pay = append(append([]payItem{}, w.Pay...), payItem{F: "ID"})
	}
	if w.Op == "create_slice" || w.Op == "create" {
		pay := append([]payItem{}, w.Pay...)
		for i := range pay {
			if pay[i].F == "ID" {
				pay[i].Zero = true
			}
		}
		w.Pay = pay
	}
	if w.Op == "upsert" && len(w.Sel) > 0 { // a Select without the key would turn the upsert into a plain insert
		w.Sel = append([]string{"ID"}, w.Sel...)
	}
	return w, true
}

func replay(args []string) error {
	fs := flag.NewFlagSet("wset-replay", flag.ExitOnError)
	in := fs.String("cases", "", "ndjson {model, write}")
	out := fs.String("out", "", "events")
	fs.Parse(args)
	lines, err := hx.ReadNDJSON(*in)
	if err != nil {
		return err
	}
	e, err := newEnv()
	if err != nil {
		return err
	}
	w, err := hx.NewWriter(*out)
	if err != nil {
		return err
	}
	defer w.Close()
	var m *model
	lastModel := ""
	for i, l := range lines {
		var c rcase
		if err := json.Unmarshal(l, &c); err != nil {
			return err
		}
		for k := range c.Model {
			c.Model[k].Col = map[string]string{"ID": "id", "F1": "c1", "F2": "c2"}[c.Model[k].Name]
			if c.Model[k].Col == "" {
				return fmt.Errorf("case %d: unexpected field %q", i, c.Model[k].Name)
			}
		}
		mk, _ := json.Marshal(c.Model)
		if string(mk) != lastModel {
			m = newModel(c.Model)
			if err := e.setup(m); err != nil {
				return err
			}
			lastModel = string(mk)
		}
		wr, ok := adapt(m, c.Write)
		if !ok {
			continue
		}
		o, err := e.run(m, wr)
		if err != nil {
			return fmt.Errorf("case %d: %v", i, err)
		}
		w.Emit(event(i+1, m, wr, o))
	}
	return nil
}

func init() { hx.Register("wset-replay", replay) }
