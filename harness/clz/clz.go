// Package clz drives X01 (beyond the listed properties): chains of builder calls folded into the
// clause tree and built into a SELECT by the query callback, on the generic (dummy) dialector in
// DryRun mode. One event per chain: the calls, the finisher, the SQL text and the bound values.
package clz

import (
	"encoding/json"
	"flag"
	"fmt"
	"math/rand"

	"gorm.io/gorm"
	"gorm.io/gorm/clause"
	"gorm.io/gorm/utils/tests"

	"verifharness/hx"
)

type CL struct {
	ID   int64
	Name string
	Age  int64
	Tag  string
}

func (CL) TableName() string { return "cls" }

var Calls = []string{"sel_name", "sel_field", "sel_list", "sel_raw", "sel_expr", "distinct", "distinct_name", "omit_tag", "omit_age",
	"where_age", "where_id", "order_name", "order_agedesc", "order_col_id_desc", "order_reorder_tag", "order_empty",
	"order_expr", "limit_m1", "limit_0", "limit_2", "limit_5", "offset_m1", "offset_0", "offset_3",
	"group_name", "group_age", "having_cnt", "having_age", "lock_update", "lock_share"}

var Fins = []string{"find", "take", "first", "last", "count", "delete"}

func apply(tx *gorm.DB, c string) (*gorm.DB, error) {
	switch c {
	case "sel_name":
		return tx.Select("name"), nil
	case "sel_field":
		return tx.Select("Name"), nil
	case "sel_list":
		return tx.Select([]string{"name", "age"}), nil
	case "sel_raw":
		return tx.Select("name, age"), nil
	case "sel_expr":
		return tx.Select("age + ? AS x", 1), nil
	case "distinct":
		return tx.Distinct(), nil
	case "distinct_name":
		return tx.Distinct("name"), nil
	case "omit_tag":
		return tx.Omit("tag"), nil
	case "omit_age":
		return tx.Omit("age"), nil
	case "where_age":
		return tx.Where("age > ?", 7), nil
	case "where_id":
		return tx.Where("id <> ?", 9), nil
	case "order_name":
		return tx.Order("name"), nil
	case "order_agedesc":
		return tx.Order("age desc"), nil
	case "order_col_id_desc":
		return tx.Order(clause.OrderByColumn{Column: clause.Column{Name: "id"}, Desc: true}), nil
	case "order_reorder_tag":
		return tx.Order(clause.OrderByColumn{Column: clause.Column{Name: "tag"}, Reorder: true}), nil
	case "order_empty":
		return tx.Order(""), nil
	case "order_expr":
		return tx.Order(clause.OrderBy{Expression: clause.Expr{SQL: "id = ? DESC", Vars: []interface{}{4}}}), nil
	case "limit_m1":
		return tx.Limit(-1), nil
	case "limit_0":
		return tx.Limit(0), nil
	case "limit_2":
		return tx.Limit(2), nil
	case "limit_5":
		return tx.Limit(5), nil
	case "offset_m1":
		return tx.Offset(-1), nil
	case "offset_0":
		return tx.Offset(0), nil
	case "offset_3":
		return tx.Offset(3), nil
	case "group_name":
		return tx.Group("name"), nil
	case "group_age":
		return tx.Group("age"), nil
	case "having_cnt":
		return tx.Having("count(id) > ?", 1), nil
	case "having_age":
		return tx.Having("max(age) < ?", 90), nil
	case "lock_update":
		return tx.Clauses(clause.Locking{Strength: "UPDATE"}), nil
	case "lock_share":
		return tx.Clauses(clause.Locking{Strength: "SHARE", Options: "NOWAIT"}), nil
	}
	return nil, fmt.Errorf("unknown call %q", c)
}

func runOne(db *gorm.DB, caseNo int, calls []string, fin string) (hx.M, error) {
	tx := db.Session(&gorm.Session{DryRun: true}).Model(&CL{})
	var err error
	for _, c := range calls {
		if tx, err = apply(tx, c); err != nil {
			return nil, err
		}
	}
	var out []CL
	var one CL
	switch fin {
	case "find":
		tx = tx.Find(&out)
	case "take":
		tx = tx.Take(&one)
	case "first":
		tx = tx.First(&one)
	case "last":
		tx = tx.Last(&one)
	case "count":
		var n int64
		tx = tx.Count(&n)
	case "delete":
		tx = tx.Delete(&CL{})
	default:
		return nil, fmt.Errorf("unknown finisher %q", fin)
	}
	vars := []int64{}
	errText := "nil"
	if tx.Error != nil {
		errText = tx.Error.Error()
	}
	for _, v := range tx.Statement.Vars {
		switch x := v.(type) {
		case int:
			vars = append(vars, int64(x))
		case int64:
			vars = append(vars, x)
		default:
			errText = fmt.Sprintf("non-integer bound value %T", v)
		}
	}
	if calls == nil {
		calls = []string{}
	}
	return hx.M{"ev": "Chain", "case": caseNo, "calls": calls, "fin": fin, "sql": tx.Statement.SQL.String(), "vars": vars, "err": errText}, nil
}

func open() (*gorm.DB, error) {
	return gorm.Open(tests.DummyDialector{}, &gorm.Config{DryRun: true})
}

func init() {
	hx.Register("clauses-replay", replay)
	hx.Register("clauses-random", random)
}

// replay: direction A -- every chain of the TLC state graph, with every finisher.
func replay(args []string) error {
	fs := flag.NewFlagSet("clauses-replay", flag.ExitOnError)
	in := fs.String("cases", "", "chains ndjson ({calls:[...], fin?})")
	out := fs.String("out", "", "events")
	fs.Parse(args)
	lines, err := hx.ReadNDJSON(*in)
	if err != nil {
		return err
	}
	db, err := open()
	if err != nil {
		return err
	}
	w, err := hx.NewWriter(*out)
	if err != nil {
		return err
	}
	defer w.Close()
	n := 0
	for _, l := range lines {
		var c struct {
			Calls []string `json:"calls"`
			Fin   string   `json:"fin"`
		}
		if err := json.Unmarshal(l, &c); err != nil {
			return err
		}
		fins := Fins
		if c.Fin != "" {
			fins = []string{c.Fin}
		}
		for _, f := range fins {
			n++
			ev, err := runOne(db, n, c.Calls, f)
			if err != nil {
				return err
			}
			w.Emit(ev)
		}
	}
	return nil
}

// random: direction B -- chains of up to 10 calls.
func random(args []string) error {
	fs := flag.NewFlagSet("clauses-random", flag.ExitOnError)
	out := fs.String("out", "", "events")
	n := fs.Int("n", 1000, "")
	seed := fs.Int64("seed", 1, "")
	fs.Parse(args)
	r := rand.New(rand.NewSource(*seed))
	db, err := open()
	if err != nil {
		return err
	}
	w, err := hx.NewWriter(*out)
	if err != nil {
		return err
	}
	defer w.Close()
	for i := 0; i < *n; i++ {
		ln := 3 + r.Intn(8)
		calls := make([]string, ln)
		for k := range calls {
			calls[k] = Calls[r.Intn(len(Calls))]
		}
		ev, err := runOne(db, i+1, calls, Fins[r.Intn(len(Fins))])
		if err != nil {
			return err
		}
		w.Emit(ev)
	}
	return nil
}
