package bind

import (
	"encoding/json"
	"flag"
	"math/rand"

	"verifharness/hx"
)

// flat: direction A -- every sequence of flat holes of the SqlBind state graph becomes a chain of
// Where calls (one per hole, fresh values) finished by Find, on every target.
type flatHole struct {
	K  string `json:"k"`
	N  int    `json:"n"`
	Op string `json:"op"`
}

// ProgOfFlat builds the program of a flat-hole sequence (the Go counterpart of SqlBind!HoleOf).
func ProgOfFlat(fs []flatHole, seed int64) Prog {
	g := &gen{r: rand.New(rand.NewSource(seed))}
	var p Prog
	p.Fin.Kind = "find"
	for _, f := range fs {
		str := f.K == "bytes" || f.K == "nbytes"
		h := Hole{Tag: "c1", Op: "="}
		if str {
			h.Tag = "s1"
		}
		switch f.K {
		case "slice":
			a := Arg{K: "slice"}
			for i := 0; i < f.N; i++ {
				a.Vs = append(a.Vs, g.val(false))
			}
			h.Arg, h.Op = a, f.Op
		case "nested":
			a := Arg{K: "nested"}
			for i := 0; i < f.N; i++ {
				a.Rows = append(a.Rows, []Val{g.val(false), g.val(true)})
			}
			h.Arg, h.Op = a, "IN"
		case "nil", "nilvaluer":
			h.Arg = Arg{K: f.K}
		default:
			v := g.val(str)
			h.Arg = Arg{K: f.K, V: &v}
		}
		p.Parts = append(p.Parts, Part{M: "Where", Holes: []Hole{h}})
	}
	return p
}

func flat(args []string) error {
	fs := flag.NewFlagSet("bind-flat", flag.ExitOnError)
	in := fs.String("cases", "", "ndjson {flat: [{k, n, op}]}")
	out := fs.String("out", "", "events")
	fs.Parse(args)
	lines, err := hx.ReadNDJSON(*in)
	if err != nil {
		return err
	}
	t, err := NewTargets()
	if err != nil {
		return err
	}
	w, err := hx.NewWriter(*out)
	if err != nil {
		return err
	}
	defer w.Close()
	for i, l := range lines {
		var c struct {
			Flat []flatHole `json:"flat"`
		}
		if err := json.Unmarshal(l, &c); err != nil {
			return err
		}
		if len(c.Flat) == 0 {
			continue
		}
		t.runAll(w, i+1, ProgOfFlat(c.Flat, int64(i+1)))
	}
	return nil
}

func init() { hx.Register("bind-flat", flat) }
