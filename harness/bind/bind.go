// Package bind drives C01 (values reach the database only as bound parameters, one placeholder
// per bound value, in order) and C19 (DryRun / ToSQL send nothing and show what a real run sends).
package bind

import (
	"context"
	"database/sql"
	"database/sql/driver"
	"encoding/json"
	"fmt"
	"math/rand"
	"reflect"
	"regexp"
	"strconv"
	"strings"
	"time"

	"gorm.io/driver/sqlite"
	"gorm.io/gorm"
	"gorm.io/gorm/callbacks"
	"gorm.io/gorm/clause"
	"gorm.io/gorm/logger"
	"gorm.io/gorm/schema"

	"verifharness/hx"
	"verifharness/recdrv"
)

// W is the wide model every statement targets.
type W struct {
	ID       int64
	ParentID *int64
	Parent   *W
	OtherID  *int64
	Other    *W
	C1       int64
	C2       int64
	C3       int64
	C4       int64
	S1       string
	S2       string
	S3       string
	S4       string
}

func (W) TableName() string { return "ws" }

// WS is the same model with soft delete (its own table).
type WS struct {
	W
	DeletedAt gorm.DeletedAt
	CreatedMs int64 `gorm:"autoCreateTime:milli"` // tracked times kept as integers: what is bound is a number, not a time
	UpdatedS  int64 `gorm:"autoUpdateTime"`
}

func (WS) TableName() string { return "wss" }

// FixNow is what NowFunc returns on every target (the value a soft delete binds).
var FixNow = time.Date(2021, 2, 3, 4, 5, 6, 0, time.UTC)

// ---- values ------------------------------------------------------------------------------

// Val is an abstract value: id k; Str selects a hostile string, U8 a small number of a named
// uint8 type, otherwise a unique integer.
type Val struct {
	K   int  `json:"k"`
	Str bool `json:"str"`
	U8  bool `json:"u8,omitempty"`
}

// Blob is a named byte-slice type without Valuer.
type Blob []byte

// Role is a named type whose underlying type is uint8: a []Role is NOT a byte string.
type Role uint8

var hostile = []string{"'", "\"", "\\", "?", "@name", ")", "--", "; DROP TABLE ws; --", "é√", "' OR '1'='1", "$1", "`", "(?)", "@p0 "}

func (v Val) Go() interface{} {
	if v.U8 {
		return Role(100 + v.K%150)
	}
	if v.Str {
		h := hostile[v.K%len(hostile)]
		return h + "MK" + strconv.Itoa(v.K) + "Z" + hostile[(v.K/3)%len(hostile)]
	}
	return int64(7000000 + v.K)
}
func (v Val) ID() string {
	if v.U8 {
		return "u8:" + strconv.Itoa(100+v.K%150)
	}
	return "v" + strconv.Itoa(v.K)
}

// idOf maps a bound driver value back to the abstract id (or a canonical token).
func idOf(x interface{}) string {
	switch t := x.(type) {
	case nil:
		return "null"
	case int64:
		if t >= 7000000 && t < 7100000 {
			return "v" + strconv.Itoa(int(t-7000000))
		}
		if t >= 100 && t < 250 { // a Role (named uint8) value arrives at the driver as int64
			return "u8:" + strconv.FormatInt(t, 10)
		}
		return "i:" + strconv.FormatInt(t, 10)
	case int:
		return idOf(int64(t))
	case Role:
		return "u8:" + strconv.Itoa(int(t))
	case uint8:
		return "u8:" + strconv.Itoa(int(t))
	case uint64:
		return idOf(int64(t))
	case string:
		if m := markerRe.FindStringSubmatch(t); m != nil {
			k, _ := strconv.Atoi(m[1])
			if (Val{K: k, Str: true}).Go() == t {
				return "v" + m[1]
			}
			return "corrupt:" + t
		}
		return "s:" + t
	case []byte:
		return idOf(string(t))
	case bool:
		return fmt.Sprintf("b:%v", t)
	case time.Time:
		return "t:" + t.UTC().Format(time.RFC3339Nano)
	case driver.Valuer:
		v, _ := t.Value()
		return idOf(v)
	case *int64:
		if t == nil {
			return "null"
		}
		return idOf(*t)
	case *string:
		if t == nil {
			return "null"
		}
		return idOf(*t)
	}
	if rv := reflect.ValueOf(x); rv.Kind() == reflect.Slice && rv.Type().Elem().Kind() == reflect.Uint8 && rv.Type().Elem() == reflect.TypeOf(uint8(0)) {
		return idOf(string(rv.Bytes()))
	}
	return fmt.Sprintf("other:%T:%v", x, x)
}

var markerRe = regexp.MustCompile(`MK(\d+)Z`)
var intMarkRe = regexp.MustCompile(`70[0-9]{5}`)

func markersIn(text string) []string {
	out := []string{}
	for _, m := range markerRe.FindAllString(text, -1) {
		out = append(out, m)
	}
	for _, m := range intMarkRe.FindAllString(text, -1) {
		out = append(out, m)
	}
	return out
}

// ---- abstract programs -------------------------------------------------------------------

// Arg kinds: scalar ptr valuer bytes nil nilvaluer slice nested expr sub
type Arg struct {
	K     string  `json:"k"`
	V     *Val    `json:"v,omitempty"`
	Vs    []Val   `json:"vs,omitempty"`
	Rows  [][]Val `json:"rows,omitempty"`
	Holes []Hole  `json:"holes,omitempty"` // expr
	Sub   []Part  `json:"sub,omitempty"`   // sub-query program (Where parts on ws)
	Named bool    `json:"named,omitempty"`
}

// Hole is one tagged placeholder of a template: "<tag> <op> ?".
type Hole struct {
	Tag string `json:"tag"`
	Op  string `json:"op"` // = > IN INP(= "IN (?)") + (value expression)
	Arg Arg    `json:"arg"`
}

// Part is one chain call.
type Part struct {
	M     string `json:"m"` // Where Not Or Having Joins Select Order Group Table Clauses
	Holes []Hole `json:"holes"`
	Named bool   `json:"named,omitempty"`
}

// Fin is the finisher with its payload.
type Fin struct {
	Kind string `json:"kind"` // find first count pluck update updates delete create create_slice create_map upsert raw exec rows
	Pay  []Pair `json:"pay,omitempty"`
	Pay2 []Pair `json:"pay2,omitempty"`
}

// Pair is (column, value) of a write payload.
type Pair struct {
	Col string `json:"col"`
	V   Val    `json:"v"`
}

type Prog struct {
	Parts []Part `json:"parts"`
	Fin   Fin    `json:"fin"`
	Soft  bool   `json:"soft"` // the statement targets the soft-delete model
}

// ---- JSON for TLA+ (no nulls) ------------------------------------------------------------
func argJ(a Arg) hx.M {
	m := hx.M{"k": a.K}
	if a.V != nil {
		m["v"] = a.V.ID()
	}
	vs := []string{}
	for _, v := range a.Vs {
		vs = append(vs, v.ID())
	}
	m["vs"] = vs
	rows := [][]string{}
	for _, r := range a.Rows {
		rr := []string{}
		for _, v := range r {
			rr = append(rr, v.ID())
		}
		rows = append(rows, rr)
	}
	m["rows"] = rows
	m["holes"] = holesJ(a.Holes)
	sub := []hx.M{}
	for _, p := range a.Sub {
		sub = append(sub, hx.M{"m": p.M, "holes": holesJ(p.Holes), "named": p.Named})
	}
	m["sub"] = sub
	return m
}
func holesJ(hs []Hole) []hx.M {
	out := []hx.M{}
	for _, h := range hs {
		out = append(out, hx.M{"tag": h.Tag, "op": h.Op, "arg": argJ(h.Arg)})
	}
	return out
}
func progJ(p Prog) hx.M {
	parts := []hx.M{}
	for _, x := range p.Parts {
		parts = append(parts, hx.M{"m": x.M, "holes": holesJ(x.Holes), "named": x.Named})
	}
	pay := func(ps []Pair) []hx.M {
		out := []hx.M{}
		for _, q := range ps {
			out = append(out, hx.M{"col": q.Col, "v": q.V.ID()})
		}
		return out
	}
	return hx.M{"parts": parts, "fin": hx.M{"kind": p.Fin.Kind, "pay": pay(p.Fin.Pay), "pay2": pay(p.Fin.Pay2)}, "soft": p.Soft, "now": idOf(FixNow), "nowms": idOf(FixNow.UnixMilli()), "nows": idOf(FixNow.Unix())}
}

// ---- rendering ---------------------------------------------------------------------------
type nullable struct {
	v     interface{}
	valid bool
}

func (n nullable) Value() (driver.Value, error) {
	if !n.valid {
		return nil, nil
	}
	return n.v, nil
}

func argGo(a Arg, base *gorm.DB) interface{} {
	switch a.K {
	case "scalar":
		return a.V.Go()
	case "ptr":
		x := a.V.Go()
		switch t := x.(type) {
		case int64:
			return &t
		case string:
			return &t
		}
	case "valuer":
		switch t := a.V.Go().(type) {
		case int64:
			return sql.NullInt64{Int64: t, Valid: true}
		case string:
			return sql.NullString{String: t, Valid: true}
		}
	case "nilvaluer":
		return sql.NullString{}
	case "bytes":
		return []byte(a.V.Go().(string))
	case "nbytes":
		// a named byte-slice type without Valuer (json.RawMessage, net.IP, type Blob []byte): ONE value
		if a.V.K%2 == 0 {
			return json.RawMessage(a.V.Go().(string))
		}
		return Blob(a.V.Go().(string))
	case "nil":
		return nil
	case "slice":
		if len(a.Vs) > 0 && a.Vs[0].U8 {
			out := []Role{}
			for _, v := range a.Vs {
				out = append(out, v.Go().(Role))
			}
			return out
		}
		if len(a.Vs) > 0 && a.Vs[0].Str {
			out := []string{}
			for _, v := range a.Vs {
				out = append(out, v.Go().(string))
			}
			return out
		}
		out := []int64{}
		for _, v := range a.Vs {
			out = append(out, v.Go().(int64))
		}
		return out
	case "nested":
		out := [][]interface{}{}
		for _, r := range a.Rows {
			rr := []interface{}{}
			for _, v := range r {
				rr = append(rr, v.Go())
			}
			out = append(out, rr)
		}
		return out
	case "expr":
		t, args := tmplOf(a.Holes, false, base, new(int))
		return gorm.Expr(t, args...)
	case "sub":
		tx := base.Session(&gorm.Session{NewDB: true}).Model(&W{}).Select("id")
		for _, p := range a.Sub {
			t, args := tmplOf(p.Holes, false, base, new(int))
			tx = tx.Where(t, args...)
		}
		return tx
	}
	panic("argGo " + a.K)
}

// tmplOf renders holes as "tag op ?" joined by AND.
func tmplOf(hs []Hole, named bool, base *gorm.DB, ctr *int) (string, []interface{}) {
	var parts []string
	var args []interface{}
	for _, h := range hs {
		ph := "?"
		v := argGo(h.Arg, base)
		if named {
			nm := fmt.Sprintf("n%d", *ctr)
			*ctr++
			ph = "@" + nm
			args = append(args, sql.Named(nm, v))
		} else {
			args = append(args, v)
		}
		switch h.Op {
		case "INP":
			parts = append(parts, h.Tag+" IN ("+ph+")")
		case "IN":
			parts = append(parts, h.Tag+" IN "+ph)
		case "+":
			parts = append(parts, h.Tag+" + "+ph+" > 0")
		default:
			parts = append(parts, h.Tag+" "+h.Op+" "+ph)
		}
	}
	return strings.Join(parts, " AND "), args
}

func apply(tx *gorm.DB, base *gorm.DB, p Part) *gorm.DB {
	t, args := tmplOf(p.Holes, p.Named, base, new(int))
	switch p.M {
	case "Where":
		return tx.Where(t, args...)
	case "Not":
		return tx.Not(t, args...)
	case "Or":
		return tx.Or(t, args...)
	case "Having":
		return tx.Group("c1").Having(t, args...)
	case "Joins":
		return tx.Joins("JOIN ws AS w2 ON w2.id = ws.id AND "+strings.ReplaceAll(t, "c", "w2.c"), args...)
	case "Select":
		// (a question mark inside a quoted literal, after the placeholders, is text, not a placeholder)
		return tx.Select("id, ("+t+") AS flag, '?' AS mark", args...)
	case "Order":
		return tx.Order(clause.OrderBy{Expression: clause.Expr{SQL: "(" + t + ") DESC", Vars: args}})
	case "Clauses":
		return tx.Clauses(clause.Where{Exprs: []clause.Expression{clause.Expr{SQL: t, Vars: args}}})
	case "Table":
		sub := base.Session(&gorm.Session{NewDB: true}).Model(&W{}).Where(t, args...)
		return tx.Table("(?) AS ws", sub)
	case "JoinsRel": // relation join with extra ON conditions
		return tx.Joins("Parent", base.Session(&gorm.Session{NewDB: true}).Where(t, args...))
	case "JoinsRel2":
		return tx.Joins("Other", base.Session(&gorm.Session{NewDB: true}).Where(t, args...))
	}
	panic("apply " + p.M)
}

func wOf(pay []Pair) W {
	var w W
	for _, p := range pay {
		setCol(&w, p.Col, p.V)
	}
	return w
}
func setCol(w *W, col string, v Val) {
	switch col {
	case "c1":
		w.C1 = v.Go().(int64)
	case "c2":
		w.C2 = v.Go().(int64)
	case "c3":
		w.C3 = v.Go().(int64)
	case "c4":
		w.C4 = v.Go().(int64)
	case "s1":
		w.S1 = v.Go().(string)
	case "s2":
		w.S2 = v.Go().(string)
	case "s3":
		w.S3 = v.Go().(string)
	case "s4":
		w.S4 = v.Go().(string)
	}
}
func mapOf(pay []Pair) map[string]interface{} {
	m := map[string]interface{}{}
	for _, p := range pay {
		m[p.Col] = p.V.Go()
	}
	return m
}

// IsRawKind: the program is one raw SQL template.
func IsRawKind(k string) bool {
	return k == "raw" || k == "exec" || k == "rows" || k == "raw_find" || k == "raw_take"
}

// Run builds the chain on base and runs the finisher; returns the *gorm.DB result.
func Run(base *gorm.DB, p Prog) *gorm.DB {
	tx := base
	if IsRawKind(p.Fin.Kind) {
		t, args := tmplOf(p.Parts[0].Holes, p.Parts[0].Named, base, new(int))
		switch p.Fin.Kind {
		case "raw":
			var out []W
			return tx.Raw("SELECT * FROM ws WHERE "+t, args...).Scan(&out)
		case "raw_find": // raw SQL finished by a finisher of the query pipeline
			var out []W
			return tx.Raw("SELECT * FROM ws WHERE "+t, args...).Find(&out)
		case "raw_take":
			var out W
			return tx.Raw("SELECT * FROM ws WHERE "+t, args...).Take(&out)
		case "rows":
			r := tx.Raw("SELECT * FROM ws WHERE "+t, args...)
			rows, err := r.Rows()
			if err == nil && rows != nil {
				rows.Close()
			}
			return r
		default:
			return tx.Exec("UPDATE ws SET c4 = c4 WHERE "+t, args...)
		}
	}
	for _, part := range p.Parts {
		tx = apply(tx, base, part)
	}
	mdl := func() interface{} {
		if p.Soft {
			return &WS{}
		}
		return &W{}
	}
	sl := func() interface{} {
		if p.Soft {
			return &[]WS{}
		}
		return &[]W{}
	}
	rec := func(w W) interface{} {
		if p.Soft {
			return &WS{W: w}
		}
		return &w
	}
	switch p.Fin.Kind {
	case "find":
		return tx.Find(sl())
	case "first":
		return tx.First(mdl())
	case "count":
		var n int64
		return tx.Model(mdl()).Count(&n)
	case "pluck":
		var ids []int64
		return tx.Model(mdl()).Pluck("id", &ids)
	case "update":
		return tx.Model(mdl()).Update(p.Fin.Pay[0].Col, p.Fin.Pay[0].V.Go())
	case "updates":
		return tx.Model(mdl()).Updates(rec(wOf(p.Fin.Pay)))
	case "updates_map":
		return tx.Model(mdl()).Updates(mapOf(p.Fin.Pay))
	case "delete":
		return tx.Delete(mdl())
	case "delete_returning":
		out := sl()
		return tx.Model(out).Clauses(clause.Returning{}).Delete(out)
	case "update_returning":
		out := sl()
		return tx.Model(out).Clauses(clause.Returning{Columns: []clause.Column{{Name: "id"}}}).Update(p.Fin.Pay[0].Col, p.Fin.Pay[0].V.Go())
	case "row":
		// a single-row read finished by Row() (only the driver silence of the dry run is judged)
		r := tx.Model(mdl()).Select("c1").Row()
		if r != nil {
			var v int64
			_ = r.Scan(&v)
		}
		return tx.Session(&gorm.Session{NewDB: true})
	case "save":
		// a record that has its key: Save updates it (through a session gorm derives itself)
		w := wOf(p.Fin.Pay)
		w.ID = 1
		return base.Save(rec(w))
	case "create_batches":
		// (the handle CreateInBatches returns is not the one that executed: only the driver silence is judged)
		ws := []W{wOf(p.Fin.Pay), wOf(p.Fin.Pay2), wOf(p.Fin.Pay)}
		return base.WithContext(context.Background()).CreateInBatches(&ws, 2)
	case "create":
		return base.Create(rec(wOf(p.Fin.Pay)))
	case "create_slice":
		if p.Soft {
			ws := []WS{{W: wOf(p.Fin.Pay)}, {W: wOf(p.Fin.Pay2)}}
			return base.Create(&ws)
		}
		ws := []W{wOf(p.Fin.Pay), wOf(p.Fin.Pay2)}
		return base.Create(&ws)
	case "create_map":
		return base.Model(mdl()).Create(mapOf(p.Fin.Pay))
	case "create_tmap": // no model: nothing is generated by the database, the INSERT has no RETURNING
		return base.Table("ws").Create(mapOf(p.Fin.Pay))
	case "upsert":
		w := wOf(p.Fin.Pay)
		w.ID = 1
		return base.Clauses(clause.OnConflict{Columns: []clause.Column{{Name: "id"}}, DoUpdates: clause.Assignments(mapOf(p.Fin.Pay2))}).Create(rec(w))
	}
	panic("fin " + p.Fin.Kind)
}

// ---- dialects ----------------------------------------------------------------------------
type dummy struct{ dollar bool }

func (dummy) Name() string { return "dummy" }
func (dummy) Initialize(db *gorm.DB) error {
	callbacks.RegisterDefaultCallbacks(db, &callbacks.Config{
		CreateClauses: []string{"INSERT", "VALUES", "ON CONFLICT", "RETURNING"},
		UpdateClauses: []string{"UPDATE", "SET", "WHERE", "RETURNING"},
		DeleteClauses: []string{"DELETE", "FROM", "WHERE", "RETURNING"},
	})
	return nil
}
func (dummy) DefaultValueOf(*schema.Field) clause.Expression { return clause.Expr{SQL: "DEFAULT"} }
func (dummy) Migrator(*gorm.DB) gorm.Migrator                { return nil }
func (d dummy) BindVarTo(w clause.Writer, stmt *gorm.Statement, v interface{}) {
	if d.dollar {
		w.WriteByte('$')
		w.WriteString(strconv.Itoa(len(stmt.Vars)))
	} else {
		w.WriteByte('?')
	}
}
func (dummy) QuoteTo(w clause.Writer, s string) {
	w.WriteByte('"')
	w.WriteString(strings.ReplaceAll(s, ".", `"."`))
	w.WriteByte('"')
}
func (dummy) Explain(sql string, vars ...interface{}) string {
	return logger.ExplainSQL(sql, nil, `'`, vars...)
}
func (dummy) DataTypeOf(*schema.Field) string { return "" }

// Targets holds the handles a program is executed on.
type Targets struct {
	Q, D   *gorm.DB // dummy '?' and '$n', DryRun
	Real   *gorm.DB
	Rec    *recdrv.Rec
	SQLDB  *sql.DB
	fixNow time.Time
}

func NewTargets() (*Targets, error) {
	t := &Targets{fixNow: FixNow}
	fixed := func() time.Time { return FixNow }
	var err error
	if t.Q, err = gorm.Open(dummy{}, &gorm.Config{DryRun: true, Logger: logger.Discard, NowFunc: fixed}); err != nil {
		return nil, err
	}
	if t.D, err = gorm.Open(dummy{dollar: true}, &gorm.Config{DryRun: true, Logger: logger.Discard, NowFunc: fixed}); err != nil {
		return nil, err
	}
	rec := recdrv.New()
	sqldb := rec.OpenDB()
	sqldb.SetMaxOpenConns(2)
	now := t.fixNow
	t.Real, err = gorm.Open(sqlite.Dialector{Conn: sqldb}, &gorm.Config{Logger: logger.Discard, NowFunc: func() time.Time { return now }})
	if err != nil {
		return nil, err
	}
	t.Rec, t.SQLDB = rec, sqldb
	if err := t.Real.AutoMigrate(&W{}, &WS{}); err != nil {
		return nil, err
	}
	return t, nil
}

// ---- projection: SQL text -> placeholders with tags --------------------------------------
var phRe = regexp.MustCompile(`\$(\d+)|\?`)
var tagRe = regexp.MustCompile("(?i)([a-z_][a-z0-9_]*)[`\"]?\\s*(=|<>|>|<|\\+|NOT IN|IN|LIKE)[\\s(),?$0-9]*$")
var insRe = regexp.MustCompile("(?is)INSERT INTO\\s+[`\"]?\\w+[`\"]?\\s*\\(([^)]*)\\)\\s*VALUES\\s*")

type PH struct {
	N   int    // number for $n, ordinal for ?
	Tag string // column left of it, "" if unknown
	Pos int
}

func stripQ(s string) string { return strings.ToLower(strings.Trim(strings.TrimSpace(s), "`\"")) }

// Placeholders finds placeholders outside quoted literals and tags them.
func Placeholders(text string, dollar bool) []PH {
	var out []PH
	// mask quoted literals
	masked := []byte(text)
	inq := byte(0)
	for i := 0; i < len(masked); i++ {
		c := masked[i]
		if inq != 0 {
			if c == inq {
				inq = 0
			}
			masked[i] = ' '
			continue
		}
		if c == '\'' {
			inq = c
			masked[i] = ' '
		}
	}
	m := string(masked)
	// INSERT column list
	var insCols []string
	insEnd := -1
	if loc := insRe.FindStringSubmatchIndex(m); loc != nil {
		for _, c := range strings.Split(m[loc[2]:loc[3]], ",") {
			insCols = append(insCols, stripQ(c))
		}
		insEnd = loc[1]
	}
	ord := 0
	valIdx := 0
	for _, loc := range phRe.FindAllStringSubmatchIndex(m, -1) {
		if dollar != (loc[2] >= 0) {
			continue
		}
		ord++
		ph := PH{N: ord, Pos: loc[0]}
		if loc[2] >= 0 {
			ph.N, _ = strconv.Atoi(m[loc[2]:loc[3]])
		}
		if insEnd >= 0 && loc[0] >= insEnd && !strings.Contains(strings.ToUpper(m[insEnd:loc[0]]), "ON CONFLICT") && !strings.Contains(strings.ToUpper(m[insEnd:loc[0]]), "RETURNING") {
			if len(insCols) > 0 {
				// count value slots (placeholders and non-placeholder expressions) by commas inside tuples
				ph.Tag = insCols[slotOf(m[insEnd:loc[0]])%len(insCols)]
			}
			valIdx++
		} else if g := tagRe.FindStringSubmatch(m[:loc[0]]); g != nil {
			ph.Tag = strings.ToLower(g[1])
		}
		out = append(out, ph)
	}
	return out
}

// slotOf: position within the current VALUES tuple = number of top-level commas since the last '('.
func slotOf(prefix string) int {
	i := strings.LastIndex(prefix, "(")
	return strings.Count(prefix[i+1:], ",")
}

// Observe turns (sql, vars) into the event fields.
func Observe(sqlText string, vars []interface{}, dollar bool) hx.M {
	phs := Placeholders(sqlText, dollar)
	holes := []hx.M{}
	for i, p := range phs {
		val := "missing"
		if dollar {
			if p.N >= 1 && p.N <= len(vars) {
				val = idOf(vars[p.N-1])
			}
		} else if i < len(vars) {
			val = idOf(vars[i])
		}
		holes = append(holes, hx.M{"n": p.N, "tag": p.Tag, "val": val})
	}
	return hx.M{"holes": holes, "nvars": len(vars), "markers": markersIn(sqlText), "sql": sqlText}
}

func namedValues(a []driver.NamedValue) []interface{} {
	out := make([]interface{}, len(a))
	for i, v := range a {
		out[i] = v.Value
	}
	return out
}

// ---- random programs ---------------------------------------------------------------------
type gen struct {
	r *rand.Rand
	k int
}

func (g *gen) val(str bool) Val { g.k++; return Val{K: g.k, Str: str} }

var intCols = []string{"c1", "c2", "c3", "c4"}
var strCols = []string{"s1", "s2", "s3", "s4"}

func (g *gen) hole(depth int) Hole {
	str := g.r.Intn(2) == 0
	tag := intCols[g.r.Intn(4)]
	if str {
		tag = strCols[g.r.Intn(4)]
	}
	h := Hole{Tag: tag, Op: "="}
	switch c := g.r.Intn(16); {
	case c < 4:
		v := g.val(str)
		h.Arg = Arg{K: "scalar", V: &v}
		if !str && g.r.Intn(2) == 0 {
			h.Op = ">"
		}
	case c == 4:
		v := g.val(str)
		h.Arg = Arg{K: "ptr", V: &v}
	case c == 5:
		v := g.val(str)
		h.Arg = Arg{K: "valuer", V: &v}
	case c == 6:
		h.Arg = Arg{K: "nilvaluer"}
	case c == 7:
		h.Arg = Arg{K: "nil"}
	case c == 8 && str:
		v := g.val(true)
		h.Arg = Arg{K: []string{"bytes", "nbytes"}[g.r.Intn(2)], V: &v}
	case c < 12:
		n := g.r.Intn(4)
		a := Arg{K: "slice"}
		u8 := !str && g.r.Intn(3) == 0
		for i := 0; i < n; i++ {
			v := g.val(str)
			v.U8 = u8
			a.Vs = append(a.Vs, v)
		}
		h.Arg = a
		h.Op = []string{"IN", "INP"}[g.r.Intn(2)]
	case c == 12:
		a := Arg{K: "nested"}
		for i := 0; i < 1+g.r.Intn(2); i++ {
			a.Rows = append(a.Rows, []Val{g.val(false), g.val(true)})
		}
		h.Arg = a
		h.Op = "IN"
		h.Tag = "c1"
	case c == 13 && depth > 0:
		v := g.val(false)
		kinds := []string{"scalar", "ptr", "valuer"}
		inner := Hole{Tag: intCols[g.r.Intn(4)], Op: "+", Arg: Arg{K: kinds[g.r.Intn(3)], V: &v}}
		h.Tag = intCols[g.r.Intn(4)]
		h.Arg = Arg{K: "expr", Holes: []Hole{inner}}
		h.Op = ">"
	case c == 14 && depth > 0:
		sub := []Part{{M: "Where", Holes: []Hole{g.hole(0)}}}
		if g.r.Intn(2) == 0 {
			sub = append(sub, Part{M: "Where", Holes: []Hole{g.hole(0)}})
		}
		h.Tag = "id"
		h.Op = "IN"
		h.Arg = Arg{K: "sub", Sub: sub}
	default:
		v := g.val(str)
		h.Arg = Arg{K: "scalar", V: &v}
	}
	return h
}

func (g *gen) pay(n int) []Pair {
	cols := append(append([]string{}, intCols...), strCols...)
	g.r.Shuffle(len(cols), func(i, j int) { cols[i], cols[j] = cols[j], cols[i] })
	var out []Pair
	for _, c := range cols[:n] {
		out = append(out, Pair{Col: c, V: g.val(c[0] == 's')})
	}
	return out
}

// RandProg draws a program.
func RandProg(r *rand.Rand) Prog {
	g := &gen{r: r}
	var p Prog
	kinds := []string{"find", "first", "count", "pluck", "update", "updates", "updates_map", "delete", "delete_returning", "update_returning", "create", "create_slice", "create_map", "upsert", "raw", "exec", "rows", "save", "create_batches", "row", "raw_find", "raw_take", "create_tmap"}
	p.Fin.Kind = kinds[r.Intn(len(kinds))]
	p.Soft = r.Intn(3) == 0
	switch p.Fin.Kind {
	case "raw", "exec", "rows", "raw_find", "raw_take":
		p.Soft = false
		n := 1 + r.Intn(3)
		part := Part{M: "Raw", Named: r.Intn(4) == 0}
		for i := 0; i < n; i++ {
			h := g.hole(1)
			if part.Named && (h.Arg.K == "nested") {
				h = g.hole(0)
			}
			part.Holes = append(part.Holes, h)
		}
		p.Parts = []Part{part}
		return p
	case "create", "create_map", "create_tmap":
		p.Fin.Pay = g.pay(1 + r.Intn(8))
		p.Soft = p.Soft && p.Fin.Kind != "create_tmap"
		return p
	case "create_slice", "create_batches":
		p.Fin.Pay = g.pay(8)
		p.Fin.Pay2 = g.pay(8)
		p.Soft = p.Soft && p.Fin.Kind == "create_slice"
		return p
	case "save":
		p.Fin.Pay = g.pay(8)
		return p
	case "upsert":
		p.Fin.Pay = g.pay(8)
		p.Fin.Pay2 = g.pay(1 + r.Intn(3))
		return p
	case "update", "update_returning":
		p.Fin.Pay = g.pay(1)
	case "updates", "updates_map":
		p.Fin.Pay = g.pay(1 + r.Intn(4))
	}
	ms := []string{"Where", "Where", "Where", "Not", "Or", "Clauses"}
	if p.Fin.Kind == "find" || p.Fin.Kind == "first" {
		ms = append(ms, "Having", "Joins", "Select", "JoinsRel", "JoinsRel2")
		if !p.Soft {
			ms = append(ms, "Table")
		}
	}
	if p.Fin.Kind == "find" { // First replaces an expression ORDER BY by its own key ordering
		ms = append(ms, "Order")
	}
	n := 1 + r.Intn(3)
	used := map[string]bool{}
	for i := 0; i < n; i++ {
		m := ms[r.Intn(len(ms))]
		if i == 0 && m == "Or" {
			m = "Where"
		}
		if used[m] && (m == "Having" || m == "Joins" || m == "Select" || m == "Order" || m == "Table" || m == "JoinsRel" || m == "JoinsRel2") {
			m = "Where"
		}
		used[m] = true
		part := Part{M: m, Named: (m == "Where" || m == "Not" || m == "Or") && r.Intn(5) == 0}
		nh := 1 + r.Intn(2)
		for j := 0; j < nh; j++ {
			h := g.hole(1)
			if (part.Named || m == "Select" || m == "Order" || m == "Joins" || m == "JoinsRel" || m == "JoinsRel2") && (h.Arg.K == "nested" || h.Arg.K == "sub" || h.Arg.K == "expr") {
				h = g.hole(0)
			}
			part.Holes = append(part.Holes, h)
		}
		if m == "Joins" && r.Intn(2) == 0 {
			// a raw join (always a named-expression build) whose first list is empty and written "(?)",
			// with further positional arguments after it
			e := g.hole(0)
			e.Arg, e.Op = Arg{K: "slice"}, "INP"
			part.Holes = append([]Hole{e}, part.Holes...)
		}
		p.Parts = append(p.Parts, part)
	}
	return p
}
