package bind

import (
	"encoding/json"
	"flag"
	"fmt"
	"math/rand"
	"os"

	"gorm.io/gorm"

	"verifharness/hx"
	"verifharness/recdrv"
)

func init() {
	hx.Register("bind-random", random)
	hx.Register("bind-one", one)
}

func stmtEvent(caseNo int, target string, p Prog, sqlText string, vars []interface{}) hx.M {
	m := Observe(sqlText, vars, target == "d")
	m["ev"] = "Stmt"
	m["case"] = caseNo
	m["target"] = target
	m["prog"] = progJ(p)
	rp, _ := json.Marshal(p)
	m["rprog"] = string(rp)
	return m
}

func idsOf(vars []interface{}) []string {
	out := []string{}
	for _, v := range vars {
		out = append(out, idOf(v))
	}
	return out
}

func mainStmt(evs []recdrv.Event) (string, []interface{}, int, int) {
	sqlText, stmts, total := "", 0, 0
	var vars []interface{}
	for _, e := range evs {
		if e.K == "stmt_close" {
			continue
		}
		total++
		switch e.K {
		case "exec", "query", "prepare":
			if e.K != "prepare" && stmts == 0 {
				sqlText, vars = e.SQL, namedValues(e.Args)
			}
			if e.K != "prepare" || true {
				stmts++
			}
		}
	}
	return sqlText, vars, stmts, total
}

func (t *Targets) clean() {
	t.Rec.SetRecording(false)
	t.SQLDB.Exec("DELETE FROM ws")
	t.SQLDB.Exec("INSERT INTO ws(id,c1,s1) VALUES (1,1,'a'),(2,2,'b')")
	t.SQLDB.Exec("DELETE FROM wss")
	t.SQLDB.Exec("INSERT INTO wss(id,c1,s1,deleted_at,created_ms,updated_s) VALUES (1,1,'a',NULL,5,5),(2,2,'b',NULL,5,5),(3,3,'c','2020-01-01 00:00:00',5,5)")
	t.Rec.SetRecording(true)
}

// safeRun runs the program and converts a panic inside gorm into a result with an error.
func safeRun(base *gorm.DB, p Prog) (res *gorm.DB, panicked string) {
	defer func() {
		if v := recover(); v != nil {
			panicked = fmt.Sprint(v)
			res = base.Session(&gorm.Session{NewDB: true})
			res.Statement.SQL.Reset()
		}
	}()
	return Run(base, p), ""
}

func (t *Targets) runAll(w *hx.Writer, caseNo int, p Prog) {
	// C01: dummy dialects, DryRun  (Save / CreateInBatches are C19 programs only)
	c19only := p.Fin.Kind == "save" || p.Fin.Kind == "create_batches" || p.Fin.Kind == "row"
	for _, tg := range []struct {
		name string
		db   *gorm.DB
	}{{"q", t.Q}, {"d", t.D}} {
		if c19only {
			break
		}
		res, pan := safeRun(tg.db, p)
		ev := stmtEvent(caseNo, tg.name, p, res.Statement.SQL.String(), res.Statement.Vars)
		ev["panic"] = pan
		w.Emit(ev)
	}
	// real SQLite through the recording driver
	t.clean()
	t.Rec.Reset()
	_, pan := safeRun(t.Real, p)
	realSQL, realVars, _, _ := mainStmt(t.Rec.Events())
	rev := stmtEvent(caseNo, "real", p, realSQL, realVars)
	rev["panic"] = pan
	if !c19only {
		w.Emit(rev)
	}
	// C19: the same operation in DryRun mode and through ToSQL on the identical database
	t.clean()
	t.Rec.Reset()
	dry, dpan := safeRun(t.Real.Session(&gorm.Session{DryRun: true}), p)
	_, _, dryStmts, _ := mainStmt(t.Rec.Events())
	t.clean()
	t.Rec.Reset()
	func() {
		defer func() {
			if v := recover(); v != nil {
				dpan += fmt.Sprint(v)
			}
		}()
		_ = t.Real.ToSQL(func(tx *gorm.DB) *gorm.DB { return Run(tx, p) })
	}()
	_, _, _, tosqlTotal := mainStmt(t.Rec.Events())
	// ToSQL started from a handle that already carries chained state (a scoped handle): the text it
	// shows must be the statement the same scoped handle sends for real
	scoped := func(db *gorm.DB) *gorm.DB { return db.Where("c4 >= ?", int64(0)).Session(&gorm.Session{}) }
	t.clean()
	t.Rec.Reset()
	scopedText := ""
	func() {
		defer func() {
			if v := recover(); v != nil {
				dpan += fmt.Sprint(v)
			}
		}()
		scopedText = scoped(t.Real).ToSQL(func(tx *gorm.DB) *gorm.DB { return Run(tx, p) })
	}()
	_, _, _, n2 := mainStmt(t.Rec.Events())
	tosqlTotal += n2
	t.clean()
	t.Rec.Reset()
	safeRun(scoped(t.Real), p)
	sReal, sVars, _, _ := mainStmt(t.Rec.Events())
	scopedReal := t.Real.Dialector.Explain(sReal, sVars...)
	drySQL, dryVals := dry.Statement.SQL.String(), idsOf(dry.Statement.Vars)
	realVals := idsOf(realVars)
	if p.Fin.Kind == "create_batches" || p.Fin.Kind == "row" {
		drySQL, realSQL, dryVals, realVals = "", "", []string{}, []string{}
	}
	if c19only || p.Fin.Kind == "create" || p.Fin.Kind == "create_slice" || p.Fin.Kind == "create_map" || p.Fin.Kind == "create_tmap" || p.Fin.Kind == "upsert" || IsRawKind(p.Fin.Kind) {
		scopedText, scopedReal = "", "" // these finishers start from the base handle / raw SQL: the scope does not apply
	}
	rp, _ := json.Marshal(p)
	w.Emit(hx.M{"ev": "Dry", "case": caseNo, "prog": progJ(p), "rprog": string(rp),
		"dry_sql": drySQL, "dry_vals": dryVals, "dry_stmts": dryStmts,
		"real_sql": realSQL, "real_vals": realVals, "tosql_calls": tosqlTotal,
		"scoped_tosql": scopedText, "scoped_real": scopedReal, "panic": dpan})
}

func random(args []string) error {
	fs := flag.NewFlagSet("bind-random", flag.ExitOnError)
	out := fs.String("out", "", "events")
	n := fs.Int("n", 300, "")
	seed := fs.Int64("seed", 1, "")
	fs.Parse(args)
	r := rand.New(rand.NewSource(*seed))
	t, err := NewTargets()
	if err != nil {
		return err
	}
	w, err := hx.NewWriter(*out)
	if err != nil {
		return err
	}
	defer w.Close()
	for i := 0; i < *n; i++ {
		t.runAll(w, i+1, RandProg(r))
	}
	return nil
}

func one(args []string) error {
	fs := flag.NewFlagSet("bind-one", flag.ExitOnError)
	in := fs.String("case", "", "replay json {rprog}")
	out := fs.String("out", "", "events")
	fs.Parse(args)
	b, err := os.ReadFile(*in)
	if err != nil {
		return err
	}
	var c struct {
		RProg string `json:"rprog"`
	}
	if err := json.Unmarshal(b, &c); err != nil {
		return err
	}
	var p Prog
	if err := json.Unmarshal([]byte(c.RProg), &p); err != nil {
		return err
	}
	t, err := NewTargets()
	if err != nil {
		return err
	}
	w, err := hx.NewWriter(*out)
	if err != nil {
		return err
	}
	defer w.Close()
	t.runAll(w, 1, p)
	return nil
}
