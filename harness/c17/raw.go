package c17

import "gorm.io/gorm"

// The processor type is unexported; every helper selects it by inference.

func registerBuiltin(db *gorm.DB, pipeline, name string, match bool, fn func(*gorm.DB)) error {
	p := db.Callback().Create()
	switch pipeline {
	case "query":
		p = db.Callback().Query()
	case "update":
		p = db.Callback().Update()
	case "delete":
		p = db.Callback().Delete()
	case "row":
		p = db.Callback().Row()
	case "raw":
		p = db.Callback().Raw()
	}
	if match {
		return p.Match(func(*gorm.DB) bool { return true }).Register(name, fn)
	}
	return p.Register(name, fn)
}

func applyReg(db *gorm.DB, pipeline string, r Reg, fn func(*gorm.DB)) error {
	p := db.Callback().Create()
	switch pipeline {
	case "query":
		p = db.Callback().Query()
	case "update":
		p = db.Callback().Update()
	case "delete":
		p = db.Callback().Delete()
	case "row":
		p = db.Callback().Row()
	case "raw":
		p = db.Callback().Raw()
	}
	switch r.Op {
	case "reg":
		switch {
		case r.Before != "" && r.After != "":
			// both orders of the chain calls are used (which one is fixed by the registration itself)
			if (int(r.Before[0])+int(r.After[0])+len(r.Name))%2 == 1 {
				return p.After(r.After).Before(r.Before).Register(r.Name, fn)
			}
			return p.Before(r.Before).After(r.After).Register(r.Name, fn)
		case r.Before != "":
			return p.Before(r.Before).Register(r.Name, fn)
		case r.After != "":
			return p.After(r.After).Register(r.Name, fn)
		}
		return p.Register(r.Name, fn)
	case "rep":
		return p.Replace(r.Name, fn)
	case "rem":
		return p.Remove(r.Name)
	}
	panic("bad op " + r.Op)
}

func execute(db *gorm.DB, pipeline string, tx *gorm.DB) {
	p := db.Callback().Create()
	switch pipeline {
	case "query":
		p = db.Callback().Query()
	case "update":
		p = db.Callback().Update()
	case "delete":
		p = db.Callback().Delete()
	case "row":
		p = db.Callback().Row()
	case "raw":
		p = db.Callback().Raw()
	}
	p.Execute(tx)
}
