// Package c17 replays callback-registration histories on the real gorm callback registry.
package c17

import (
	"bufio"
	"encoding/json"
	"flag"
	"fmt"
	"math/rand"
	"os"
	"os/exec"
	"runtime/debug"
	"strconv"

	"gorm.io/gorm"
	"gorm.io/gorm/clause"
	"gorm.io/gorm/logger"
	"gorm.io/gorm/schema"

	"verifharness/hx"
)

type Reg struct {
	Op     string `json:"op"`
	Name   string `json:"name"`
	Before string `json:"before"`
	After  string `json:"after"`
}

type Case struct {
	NB       int    `json:"nb"`
	Pipeline string `json:"pipeline,omitempty"`
	User     []Reg  `json:"user"`
}

// Obs is one observation event (input of Trace_Callbacks).
type Obs struct {
	Ev       string `json:"ev"`
	Case     int    `json:"case"`
	NB       int    `json:"nb"`
	Pipeline string `json:"pipeline"`
	User     []Reg  `json:"user"`
	Err      bool   `json:"err"`
	Crash    bool   `json:"crash"`
	Order    []int  `json:"order"`
}

// stubDialector registers nb recording stubs b1..bnb on the chosen pipeline exactly the way
// callbacks.RegisterDefaultCallbacks registers the built-ins (first and last through Match).
type stubDialector struct {
	pipeline string
	nb       int
	fired    *[]int
}

func (stubDialector) Name() string { return "stub" }
func (d stubDialector) Initialize(db *gorm.DB) error {
	for i := 1; i <= d.nb; i++ {
		id := i
		fn := func(*gorm.DB) { *d.fired = append(*d.fired, id) }
		if err := registerBuiltin(db, d.pipeline, "b"+strconv.Itoa(i), (i == 1 || i == d.nb) && d.nb >= 5, fn); err != nil {
			return err
		}
	}
	return nil
}
func (stubDialector) DefaultValueOf(*schema.Field) clause.Expression {
	return clause.Expr{SQL: "DEFAULT"}
}
func (stubDialector) Migrator(*gorm.DB) gorm.Migrator { return nil }
func (stubDialector) BindVarTo(w clause.Writer, _ *gorm.Statement, _ interface{}) {
	w.WriteByte('?')
}
func (stubDialector) QuoteTo(w clause.Writer, s string)           { w.WriteString(s) }
func (stubDialector) Explain(sql string, _ ...interface{}) string { return sql }
func (stubDialector) DataTypeOf(*schema.Field) string             { return "" }

// PipelineNB is the number of built-ins of each real pipeline (callbacks/callbacks.go).
var PipelineNB = map[string]int{"create": 7, "query": 3, "update": 8, "delete": 6, "row": 1, "raw": 1}
var Pipelines = []string{"create", "query", "update", "delete", "row", "raw"}

// RunCase executes one history in-process and returns the observation.
func RunCase(pipeline string, nb int, user []Reg) (errAny bool, order []int) {
	var fired []int
	db, err := gorm.Open(stubDialector{pipeline: pipeline, nb: nb, fired: &fired}, &gorm.Config{Logger: logger.Discard})
	if err != nil {
		hx.Fatalf("c17: open: %v", err)
	}
	for i, r := range user {
		id := nb + i + 1
		fn := func(*gorm.DB) { fired = append(fired, id) }
		if e := applyReg(db, pipeline, r, fn); e != nil {
			errAny = true
		}
	}
	fired = nil
	execute(db, pipeline, db.Session(&gorm.Session{NewDB: true}).Table("t"))
	return errAny, append([]int{}, fired...)
}

func init() {
	hx.Register("c17-replay", replay)
	hx.Register("c17-worker", worker)
	hx.Register("c17-random", random)
}

// worker executes cases[from:] in-process and streams one observation per line to stdout.
// A history on which the real sorter recurses without bound kills this process (a Go stack
// overflow is fatal); the parent then records a crash for the case after the last line received.
func worker(args []string) error {
	fs := flag.NewFlagSet("c17-worker", flag.ExitOnError)
	in := fs.String("cases", "", "cases ndjson")
	from := fs.Int("from", 0, "first case index (0-based)")
	fs.Parse(args)
	debug.SetMaxStack(16 << 20)
	lines, err := hx.ReadNDJSON(*in)
	if err != nil {
		return err
	}
	out := bufio.NewWriter(os.Stdout)
	for i := *from; i < len(lines); i++ {
		var c Case
		if err := json.Unmarshal(lines[i], &c); err != nil {
			return err
		}
		if c.Pipeline == "" {
			c.Pipeline = "query"
		}
		o := Obs{Ev: "Reg", Case: i + 1, NB: c.NB, Pipeline: c.Pipeline, User: c.User}
		o.Err, o.Order = RunCase(c.Pipeline, c.NB, c.User)
		emit(out, o)
		out.Flush()
	}
	return nil
}

func emit(out *bufio.Writer, o Obs) {
	if o.Order == nil {
		o.Order = []int{}
	}
	if o.User == nil {
		o.User = []Reg{}
	}
	b, _ := json.Marshal(o)
	out.Write(b)
	out.WriteByte('\n')
}

// replay drives workers over the whole case file and turns worker deaths into crash observations.
func replay(args []string) error {
	fs := flag.NewFlagSet("c17-replay", flag.ExitOnError)
	in := fs.String("cases", "", "cases ndjson (nb, pipeline, user)")
	outp := fs.String("out", "", "observations ndjson")
	fs.Parse(args)
	lines, err := hx.ReadNDJSON(*in)
	if err != nil {
		return err
	}
	f, err := os.Create(*outp)
	if err != nil {
		return err
	}
	defer f.Close()
	out := bufio.NewWriterSize(f, 1<<20)
	defer out.Flush()
	from := 0
	for from < len(lines) {
		cmd := exec.Command(os.Args[0], "c17-worker", "-cases", *in, "-from", strconv.Itoa(from))
		pipe, err := cmd.StdoutPipe()
		if err != nil {
			return err
		}
		if err := cmd.Start(); err != nil {
			return err
		}
		sc := bufio.NewScanner(pipe)
		sc.Buffer(make([]byte, 1<<20), 1<<26)
		got := 0
		for sc.Scan() {
			out.Write(sc.Bytes())
			out.WriteByte('\n')
			got++
		}
		werr := cmd.Wait()
		from += got
		if from < len(lines) {
			if werr == nil {
				return fmt.Errorf("c17 worker stopped early without failing at case %d", from)
			}
			var c Case
			if err := json.Unmarshal(lines[from], &c); err != nil {
				return err
			}
			if c.Pipeline == "" {
				c.Pipeline = "query"
			}
			emit(out, Obs{Ev: "Reg", Case: from + 1, NB: c.NB, Pipeline: c.Pipeline, User: c.User, Crash: true})
			from++
		}
	}
	return nil
}

// random writes CASES (not observations): longer random histories over all six pipelines with
// their real built-in counts. They are executed by c17-replay like the TLC-generated ones.
func random(args []string) error {
	fs := flag.NewFlagSet("c17-random", flag.ExitOnError)
	out := fs.String("out", "", "cases ndjson")
	n := fs.Int("n", 200, "histories")
	maxlen := fs.Int("maxlen", 8, "max history length")
	seed := fs.Int64("seed", 1, "seed")
	fs.Parse(args)
	rng := rand.New(rand.NewSource(*seed))
	w, err := hx.NewWriter(*out)
	if err != nil {
		return err
	}
	defer w.Close()
	fresh := []string{"x", "y", "z", "w", "v", "u", "t", "s"}
	for i := 0; i < *n; i++ {
		pl := Pipelines[rng.Intn(len(Pipelines))]
		nb := PipelineNB[pl]
		ln := 1 + rng.Intn(*maxlen)
		user := []Reg{}
		nf := 0
		var live []string
		target := func() string {
			k := rng.Intn(10)
			switch {
			case k < 4:
				return "b" + strconv.Itoa(1+rng.Intn(nb))
			case k < 8:
				return fresh[rng.Intn(ln)]
			case k == 8:
				return "unk"
			}
			return "*"
		}
		for j := 0; j < ln; j++ {
			k := rng.Intn(10)
			switch {
			case k < 7 && nf < len(fresh):
				r := Reg{Op: "reg", Name: fresh[nf]}
				nf++
				switch rng.Intn(4) {
				case 1:
					r.Before = target()
				case 2:
					r.After = target()
				case 3:
					r.Before = target()
					r.After = target()
					if r.After == "*" {
						r.After = ""
					}
				}
				if r.Before == r.Name {
					r.Before = ""
				}
				if r.After == r.Name {
					r.After = ""
				}
				user = append(user, r)
				live = append(live, r.Name)
			default:
				t := "b" + strconv.Itoa(1+rng.Intn(nb))
				if len(live) > 0 && rng.Intn(2) == 0 {
					t = live[rng.Intn(len(live))]
				}
				op := "rep"
				if k == 9 {
					op = "rem"
				}
				user = append(user, Reg{Op: op, Name: t})
			}
		}
		w.Emit(hx.M{"nb": nb, "pipeline": pl, "user": user})
	}
	return nil
}
