// Package rtrip drives C03: model types generated from a grammar of field kinds and tags,
// records written by Create (single, slice, batches, maps) and read back by Find/First/Take into
// structs and maps. The canonicalisation of Go values to tokens (this file) is trusted projection
// code; spec/RoundTrip.tla decides equality, defaults, key order and key back-fill.
package rtrip

import (
	"context"
	"database/sql"
	"database/sql/driver"
	"encoding/hex"
	"encoding/json"
	"fmt"
	"math"
	"reflect"
	"strconv"
	"time"

	"gorm.io/gorm/schema"
)

// custom scanner/valuer types (predeclared: reflect.StructOf cannot attach methods)
type UpperStr string

func (u UpperStr) Value() (driver.Value, error) { return "U:" + string(u), nil }
func (u *UpperStr) Scan(v interface{}) error {
	var s string
	switch x := v.(type) {
	case string:
		s = x
	case []byte:
		s = string(x)
	case nil:
		*u = ""
		return nil
	default:
		return fmt.Errorf("UpperStr: %T", v)
	}
	if len(s) >= 2 && s[:2] == "U:" {
		s = s[2:]
	}
	*u = UpperStr(s)
	return nil
}

// KVSer serializes itself (schema.SerializerInterface on the field's own type, declared by value);
// like many hand-written scanners it leaves the receiver untouched for NULL.
type KVSer map[string]string

func (k *KVSer) Scan(ctx context.Context, field *schema.Field, dst reflect.Value, dbValue interface{}) error {
	switch v := dbValue.(type) {
	case nil:
		return nil
	case []byte:
		return json.Unmarshal(v, k)
	case string:
		return json.Unmarshal([]byte(v), k)
	}
	return fmt.Errorf("KVSer: %T", dbValue)
}

func (k KVSer) Value(ctx context.Context, field *schema.Field, dst reflect.Value, fieldValue interface{}) (interface{}, error) {
	if k == nil {
		return nil, nil
	}
	b, err := json.Marshal(map[string]string(k))
	return string(b), err
}

type Point struct{ X, Y int }

func (p Point) Value() (driver.Value, error) { return fmt.Sprintf("%d;%d", p.X, p.Y), nil }
func (p *Point) Scan(v interface{}) error {
	var s string
	switch x := v.(type) {
	case string:
		s = x
	case []byte:
		s = string(x)
	case nil:
		*p = Point{}
		return nil
	}
	_, err := fmt.Sscanf(s, "%d;%d", &p.X, &p.Y)
	return err
}

type Inner struct {
	P int64
	Q string
}

// InnerP is embedded by pointer.
type InnerP struct {
	F float64
	S string
	N int64
}

type SerStruct struct {
	N int
	S string
	L []int
}

// kind describes one field kind of the grammar.
type kind struct {
	Name    string
	Type    reflect.Type
	SQLType string
	Tag     string                             // extra gorm tag parts (serializer ...)
	Gen     func(k int) interface{}            // k-th boundary value
	NGen    int                                // number of boundary values
	Tok     func(v interface{}) string         // canonical token of a Go value of this kind
	MapTok  func(v interface{}) (string, bool) // canonical token of what a map read returns (false = not comparable)
	Zero    func(v interface{}) bool
}

func ptrI(v int64) *int64         { return &v }
func ptrS(v string) *string       { return &v }
func ptrB(v bool) *bool           { return &v }
func ptrT(v time.Time) *time.Time { return &v }

var tBase = time.Date(2021, 5, 6, 7, 8, 9, 123456789, time.UTC)
var tZone = time.FixedZone("x", 3*3600+1800)

func timeTok(t time.Time) string {
	if t.IsZero() {
		return "t:zero"
	}
	return "t:" + strconv.FormatInt(t.UTC().UnixNano(), 10)
}

func floatTok(f float64) string {
	if f == 0 {
		return "f:0"
	}
	return "f:" + strconv.FormatFloat(f, 'g', -1, 64)
}

func intOf(v interface{}) (int64, bool) {
	rv := reflect.ValueOf(v)
	switch rv.Kind() {
	case reflect.Int, reflect.Int8, reflect.Int16, reflect.Int32, reflect.Int64:
		return rv.Int(), true
	case reflect.Uint, reflect.Uint8, reflect.Uint16, reflect.Uint32, reflect.Uint64:
		return int64(rv.Uint()), true
	case reflect.Bool:
		if rv.Bool() {
			return 1, true
		}
		return 0, true
	case reflect.Float64, reflect.Float32:
		return int64(rv.Float()), rv.Float() == math.Trunc(rv.Float())
	}
	return 0, false
}

func mapInt(v interface{}) (string, bool) {
	if v == nil {
		return "null", true
	}
	if i, ok := intOf(v); ok {
		return "i:" + strconv.FormatInt(i, 10), true
	}
	return fmt.Sprintf("?%T", v), true
}
func mapStr(v interface{}) (string, bool) {
	switch x := v.(type) {
	case nil:
		return "null", true
	case string:
		return "s:" + x, true
	case []byte:
		return "s:" + string(x), true
	}
	return fmt.Sprintf("?%T", v), true
}
func mapTime(v interface{}) (string, bool) {
	switch x := v.(type) {
	case nil:
		return "null", true
	case time.Time:
		return timeTok(x), true
	case string:
		for _, f := range []string{"2006-01-02 15:04:05.999999999-07:00", "2006-01-02 15:04:05.999999999", time.RFC3339Nano} {
			if t, err := time.Parse(f, x); err == nil {
				return timeTok(t), true
			}
		}
	}
	return fmt.Sprintf("?%T:%v", v, v), true
}

func intKind(name string, t reflect.Type, sqlt string, vals []int64) kind {
	return kind{Name: name, Type: t, SQLType: sqlt, NGen: len(vals),
		Gen:    func(k int) interface{} { return reflect.ValueOf(vals[k%len(vals)]).Convert(t).Interface() },
		Tok:    func(v interface{}) string { i, _ := intOf(v); return "i:" + strconv.FormatInt(i, 10) },
		MapTok: mapInt,
		Zero:   func(v interface{}) bool { i, _ := intOf(v); return i == 0 }}
}

// Kinds is the grammar of field kinds.
var Kinds = []kind{
	intKind("int8", reflect.TypeOf(int8(0)), "integer", []int64{0, 1, -128, 127}),
	intKind("int16", reflect.TypeOf(int16(0)), "integer", []int64{0, -32768, 32767, 7}),
	intKind("int32", reflect.TypeOf(int32(0)), "integer", []int64{0, math.MinInt32, math.MaxInt32, 9}),
	intKind("int64", reflect.TypeOf(int64(0)), "integer", []int64{0, math.MinInt64, math.MaxInt64, -1}),
	intKind("int", reflect.TypeOf(int(0)), "integer", []int64{0, 42, -42, math.MaxInt64}),
	intKind("uint8", reflect.TypeOf(uint8(0)), "integer", []int64{0, 255, 1}),
	intKind("uint16", reflect.TypeOf(uint16(0)), "integer", []int64{0, 65535, 3}),
	intKind("uint32", reflect.TypeOf(uint32(0)), "integer", []int64{0, math.MaxUint32, 5}),
	intKind("uint", reflect.TypeOf(uint(0)), "integer", []int64{0, math.MaxInt64, 11}),
	{Name: "float64", Type: reflect.TypeOf(float64(0)), SQLType: "real", NGen: 5,
		Gen: func(k int) interface{} { return []float64{0, 1.5, -2.25e10, math.MaxFloat64, 4.9e-324}[k%5] },
		Tok: func(v interface{}) string { return floatTok(v.(float64)) },
		MapTok: func(v interface{}) (string, bool) {
			switch x := v.(type) {
			case nil:
				return "null", true
			case float64:
				return floatTok(x), true
			case int64:
				return floatTok(float64(x)), true
			}
			return fmt.Sprintf("?%T", v), true
		},
		Zero: func(v interface{}) bool { return v.(float64) == 0 }},
	{Name: "float32", Type: reflect.TypeOf(float32(0)), SQLType: "real", NGen: 4,
		Gen: func(k int) interface{} { return []float32{0, 0.1, -3.5, math.MaxFloat32}[k%4] },
		Tok: func(v interface{}) string { return floatTok(float64(v.(float32))) },
		MapTok: func(v interface{}) (string, bool) {
			switch x := v.(type) {
			case nil:
				return "null", true
			case float64:
				return floatTok(x), true
			case int64:
				return floatTok(float64(x)), true
			}
			return fmt.Sprintf("?%T", v), true
		},
		Zero: func(v interface{}) bool { return v.(float32) == 0 }},
	{Name: "bool", Type: reflect.TypeOf(false), SQLType: "numeric", NGen: 2,
		Gen:    func(k int) interface{} { return k%2 == 1 },
		Tok:    func(v interface{}) string { i, _ := intOf(v); return "i:" + strconv.FormatInt(i, 10) },
		MapTok: mapInt,
		Zero:   func(v interface{}) bool { return !v.(bool) }},
	{Name: "string", Type: reflect.TypeOf(""), SQLType: "text", NGen: 6,
		Gen: func(k int) interface{} {
			return []string{"", "plain", "it's \"quoted\" \\ back", "üñí©ødé 漢字 🎉", " lead and trail ", "semi;colon -- dash\nnewline\ttab"}[k%6]
		},
		Tok:    func(v interface{}) string { return "s:" + v.(string) },
		MapTok: mapStr,
		Zero:   func(v interface{}) bool { return v.(string) == "" }},
	{Name: "bytes", Type: reflect.TypeOf([]byte(nil)), SQLType: "blob", NGen: 4,
		Gen: func(k int) interface{} {
			return [][]byte{nil, {}, {0x00, 0xff, 0x27, 0x22}, []byte("bytes ' \" \\")}[k%4]
		},
		Tok: func(v interface{}) string {
			b := v.([]byte)
			if len(b) == 0 {
				return "y:" // nil and empty are not distinguished by the column
			}
			return "y:" + hex.EncodeToString(b)
		},
		MapTok: func(v interface{}) (string, bool) {
			switch x := v.(type) {
			case nil:
				return "y:", true
			case []byte:
				return "y:" + hex.EncodeToString(x), true
			case string:
				return "y:" + hex.EncodeToString([]byte(x)), true
			}
			return fmt.Sprintf("?%T", v), true
		},
		Zero: func(v interface{}) bool { return len(v.([]byte)) == 0 }},
	{Name: "time", Type: reflect.TypeOf(time.Time{}), SQLType: "datetime", NGen: 4,
		Gen: func(k int) interface{} {
			return []time.Time{{}, tBase, tBase.In(tZone), time.Date(1999, 12, 31, 23, 59, 59, 999999999, time.UTC)}[k%4]
		},
		Tok: func(v interface{}) string { return timeTok(v.(time.Time)) },
		MapTok: func(v interface{}) (string, bool) {
			s, _ := mapTime(v)
			if s == "null" {
				return "t:zero", true
			}
			return s, true
		},
		Zero: func(v interface{}) bool { return v.(time.Time).IsZero() }},
	{Name: "pint64", Type: reflect.TypeOf((*int64)(nil)), SQLType: "integer", NGen: 4,
		Gen: func(k int) interface{} { return []*int64{nil, ptrI(0), ptrI(-5), ptrI(math.MaxInt64)}[k%4] },
		Tok: func(v interface{}) string {
			p := v.(*int64)
			if p == nil {
				return "null"
			}
			return "i:" + strconv.FormatInt(*p, 10)
		},
		MapTok: mapInt,
		Zero:   func(v interface{}) bool { return v.(*int64) == nil }},
	{Name: "pstring", Type: reflect.TypeOf((*string)(nil)), SQLType: "text", NGen: 3,
		Gen: func(k int) interface{} { return []*string{nil, ptrS(""), ptrS("p'q")}[k%3] },
		Tok: func(v interface{}) string {
			p := v.(*string)
			if p == nil {
				return "null"
			}
			return "s:" + *p
		},
		MapTok: mapStr,
		Zero:   func(v interface{}) bool { return v.(*string) == nil }},
	{Name: "pbool", Type: reflect.TypeOf((*bool)(nil)), SQLType: "numeric", NGen: 3,
		Gen: func(k int) interface{} { return []*bool{nil, ptrB(false), ptrB(true)}[k%3] },
		Tok: func(v interface{}) string {
			p := v.(*bool)
			if p == nil {
				return "null"
			}
			if *p {
				return "i:1"
			}
			return "i:0"
		},
		MapTok: mapInt,
		Zero:   func(v interface{}) bool { return v.(*bool) == nil }},
	{Name: "ptime", Type: reflect.TypeOf((*time.Time)(nil)), SQLType: "datetime", NGen: 3,
		Gen: func(k int) interface{} { return []*time.Time{nil, ptrT(tBase), ptrT(tBase.In(tZone))}[k%3] },
		Tok: func(v interface{}) string {
			p := v.(*time.Time)
			if p == nil {
				return "null"
			}
			return timeTok(*p)
		},
		MapTok: mapTime,
		Zero:   func(v interface{}) bool { return v.(*time.Time) == nil }},
	{Name: "nullstring", Type: reflect.TypeOf(sql.NullString{}), SQLType: "text", NGen: 3,
		Gen: func(k int) interface{} {
			return []sql.NullString{{}, {String: "", Valid: true}, {String: "n's", Valid: true}}[k%3]
		},
		Tok: func(v interface{}) string {
			n := v.(sql.NullString)
			if !n.Valid {
				return "null"
			}
			return "s:" + n.String
		},
		MapTok: mapStr,
		Zero:   func(v interface{}) bool { return !v.(sql.NullString).Valid }},
	{Name: "nullint", Type: reflect.TypeOf(sql.NullInt64{}), SQLType: "integer", NGen: 3,
		Gen: func(k int) interface{} {
			return []sql.NullInt64{{}, {Int64: 0, Valid: true}, {Int64: -77, Valid: true}}[k%3]
		},
		Tok: func(v interface{}) string {
			n := v.(sql.NullInt64)
			if !n.Valid {
				return "null"
			}
			return "i:" + strconv.FormatInt(n.Int64, 10)
		},
		MapTok: mapInt,
		Zero:   func(v interface{}) bool { return !v.(sql.NullInt64).Valid }},
	{Name: "upperstr", Type: reflect.TypeOf(UpperStr("")), SQLType: "text", NGen: 3,
		Gen:    func(k int) interface{} { return []UpperStr{"", "abc", "q'q"}[k%3] },
		Tok:    func(v interface{}) string { return "s:" + string(v.(UpperStr)) },
		MapTok: func(v interface{}) (string, bool) { return "", false },
		Zero:   func(v interface{}) bool { return v.(UpperStr) == "" }},
	{Name: "point", Type: reflect.TypeOf(Point{}), SQLType: "text", NGen: 3,
		Gen:    func(k int) interface{} { return []Point{{}, {1, -2}, {1 << 30, 7}}[k%3] },
		Tok:    func(v interface{}) string { p := v.(Point); return fmt.Sprintf("p:%d;%d", p.X, p.Y) },
		MapTok: func(v interface{}) (string, bool) { return "", false },
		Zero:   func(v interface{}) bool { return v.(Point) == Point{} }},
	{Name: "kvser", Type: reflect.TypeOf(KVSer(nil)), SQLType: "text", NGen: 4,
		Gen: func(k int) interface{} { return []KVSer{nil, {"a": "1"}, {"b": "2", "c'": "3"}, {"d": "ü"}}[k%4] },
		Tok: func(v interface{}) string {
			m := v.(KVSer)
			if len(m) == 0 {
				return "kv:empty"
			}
			b, _ := json.Marshal(map[string]string(m))
			return "kv:" + string(b)
		},
		MapTok: func(v interface{}) (string, bool) { return "", false },
		Zero:   func(v interface{}) bool { return v.(KVSer) == nil }},
	{Name: "json_map", Type: reflect.TypeOf(map[string]int(nil)), SQLType: "text", Tag: "serializer:json", NGen: 3,
		Gen: func(k int) interface{} { return []map[string]int{nil, {}, {"a": 1, "b'c": -2}}[k%3] },
		Tok: func(v interface{}) string {
			m := v.(map[string]int)
			if len(m) == 0 {
				return "j:empty"
			}
			b, _ := json.Marshal(m)
			return "j:" + string(b)
		},
		MapTok: func(v interface{}) (string, bool) { return "", false },
		Zero:   func(v interface{}) bool { return v.(map[string]int) == nil }},
	{Name: "json_struct", Type: reflect.TypeOf(SerStruct{}), SQLType: "text", Tag: "serializer:json", NGen: 3,
		Gen: func(k int) interface{} {
			return []SerStruct{{}, {N: 1, S: "x'y", L: []int{1, 2}}, {N: -1, S: "ü"}}[k%3]
		},
		Tok: func(v interface{}) string {
			s := v.(SerStruct)
			if s.L == nil {
				s.L = []int{}
			}
			b, _ := json.Marshal(s)
			return "j:" + string(b)
		},
		MapTok: func(v interface{}) (string, bool) { return "", false },
		Zero:   func(v interface{}) bool { s := v.(SerStruct); return s.N == 0 && s.S == "" && s.L == nil }},
	{Name: "gob_struct", Type: reflect.TypeOf(SerStruct{}), SQLType: "blob", Tag: "serializer:gob", NGen: 3,
		Gen: func(k int) interface{} {
			return []SerStruct{{}, {N: 5, S: "gob", L: []int{3}}, {N: -9, S: "'"}}[k%3]
		},
		Tok: func(v interface{}) string {
			s := v.(SerStruct)
			if len(s.L) == 0 {
				s.L = []int{}
			}
			b, _ := json.Marshal(s)
			return "j:" + string(b)
		},
		MapTok: func(v interface{}) (string, bool) { return "", false },
		Zero:   func(v interface{}) bool { s := v.(SerStruct); return s.N == 0 && s.S == "" && s.L == nil }},
	{Name: "unixtime_ptr", Type: reflect.TypeOf((*int64)(nil)), SQLType: "datetime", Tag: "serializer:unixtime;type:datetime", NGen: 4,
		Gen: func(k int) interface{} { return []*int64{nil, ptrI(0), ptrI(1600000000), ptrI(86400)}[k%4] },
		Tok: func(v interface{}) string {
			p := v.(*int64)
			if p == nil {
				return "null"
			}
			return "i:" + strconv.FormatInt(*p, 10)
		},
		MapTok: func(v interface{}) (string, bool) { return "", false },
		Zero:   func(v interface{}) bool { return v.(*int64) == nil }},
	{Name: "unixtime", Type: reflect.TypeOf(int64(0)), SQLType: "datetime", Tag: "serializer:unixtime;type:datetime", NGen: 3,
		Gen:    func(k int) interface{} { return []int64{0, 1600000000, 86400}[k%3] },
		Tok:    func(v interface{}) string { return "i:" + strconv.FormatInt(v.(int64), 10) },
		MapTok: func(v interface{}) (string, bool) { return "", false },
		Zero:   func(v interface{}) bool { return v.(int64) == 0 }},
}

// bytesnn: a byte slice in a NOT NULL column; an empty, non-nil slice is an empty blob, not NULL.
func init() {
	b := Kinds[kindIdx("bytes")]
	b.Name, b.Tag, b.NGen = "bytesnn", "not null", 3
	b.Gen = func(k int) interface{} {
		return [][]byte{{}, {0x00, 0xff, 0x27, 0x22}, []byte("nn ' \" \\")}[k%3]
	}
	Kinds = append(Kinds, b)
}
