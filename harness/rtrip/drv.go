package rtrip

import (
	"database/sql"
	"encoding/json"
	"flag"
	"fmt"
	"math/rand"
	"reflect"
	"strconv"
	"strings"
	"sync/atomic"
	"time"

	"gorm.io/driver/sqlite"
	"gorm.io/gorm"
	"gorm.io/gorm/callbacks"
	"gorm.io/gorm/logger"

	"verifharness/hx"
	"verifharness/recdrv"
)

var fixedNow = time.Date(2023, 4, 5, 6, 7, 8, 987654321, time.UTC)

type fdef struct {
	Name string // Go field name
	Col  string
	Kind int    // index into Kinds
	Dflt string // literal default ("" none)
	Auto string // "" | create | update | create_nano | create_milli | update_milli | create_sec | update_sec
	Key  bool
	Emb  bool // member of the embedded struct
	PEmb bool // member of the struct embedded by pointer (nil pointer: the columns are NULL and stay absent)
}

type mdef struct {
	fields  []fdef
	keymode string // auto | string | composite
	typ     reflect.Type
	table   string
	hasPEmb bool
}

var tcount int32

func kindIdx(name string) int {
	for i, k := range Kinds {
		if k.Name == name {
			return i
		}
	}
	panic(name)
}

func tagFor(f fdef, keymode string) string {
	parts := []string{"column:" + f.Col}
	if t := Kinds[f.Kind].Tag; t != "" {
		parts = append(parts, t)
	}
	if f.Key {
		parts = append(parts, "primaryKey")
		if keymode == "composite" {
			parts = append(parts, "autoIncrement:false")
		}
	}
	if f.Dflt != "" {
		parts = append(parts, "default:"+f.Dflt)
	}
	switch f.Auto {
	case "create":
		parts = append(parts, "autoCreateTime")
	case "update":
		parts = append(parts, "autoUpdateTime")
	case "create_nano":
		parts = append(parts, "autoCreateTime:nano")
	case "create_milli":
		parts = append(parts, "autoCreateTime:milli")
	case "update_milli":
		parts = append(parts, "autoUpdateTime:milli")
	case "create_sec":
		parts = append(parts, "autoCreateTime")
	case "update_sec":
		parts = append(parts, "autoUpdateTime")
	}
	return `gorm:"` + strings.Join(parts, ";") + `"`
}

func randModel(r *rand.Rand) *mdef {
	m := &mdef{keymode: []string{"auto", "auto", "string", "composite"}[r.Intn(4)]}
	switch m.keymode {
	case "auto":
		m.fields = append(m.fields, fdef{Name: "ID", Col: "id", Kind: kindIdx("int64"), Key: true})
	case "string":
		m.fields = append(m.fields, fdef{Name: "Code", Col: "code", Kind: kindIdx("string"), Key: true})
	case "composite":
		m.fields = append(m.fields, fdef{Name: "K1", Col: "k1", Kind: kindIdx("int64"), Key: true}, fdef{Name: "K2", Col: "k2", Kind: kindIdx("string"), Key: true})
	}
	m.fields = append(m.fields, fdef{Name: "Mk", Col: "mk", Kind: kindIdx("int64")})
	n := 3 + r.Intn(5)
	for i := 0; i < n; i++ {
		k := r.Intn(len(Kinds))
		f := fdef{Name: fmt.Sprintf("F%d", i), Col: fmt.Sprintf("f%d", i), Kind: k}
		if r.Intn(4) == 0 {
			f.Col = fmt.Sprintf("Ren_%d", i) // renamed column, mixed case
		}
		switch Kinds[k].Name {
		case "int64", "int", "int32":
			if r.Intn(4) == 0 {
				f.Dflt = "7"
			}
		case "string":
			if r.Intn(4) == 0 {
				f.Dflt = "dflt"
			}
		case "time":
			switch r.Intn(5) {
			case 0:
				f.Auto = "create"
			case 1:
				f.Auto = "update"
			}
		}
		if Kinds[k].Name == "int64" && f.Dflt == "" && r.Intn(5) == 0 {
			f.Auto = []string{"create_nano", "create_milli", "update_milli", "create_sec", "update_sec"}[r.Intn(5)]
		}
		m.fields = append(m.fields, f)
	}
	// cross-renamed columns: two fields of one kind whose columns are spelled like the OTHER field's Go name
	if r.Intn(4) == 0 {
		base := len(m.fields) - n
		i := base + r.Intn(n)
		j := base + (i-base+1+r.Intn(n-1))%n
		m.fields[j].Kind, m.fields[j].Dflt, m.fields[j].Auto = m.fields[i].Kind, m.fields[i].Dflt, ""
		m.fields[i].Col, m.fields[j].Col = m.fields[j].Name, m.fields[i].Name
	}
	// embedded struct with prefix
	var sf []reflect.StructField
	for _, f := range m.fields {
		sf = append(sf, reflect.StructField{Name: f.Name, Type: Kinds[f.Kind].Type, Tag: reflect.StructTag(tagFor(f, m.keymode))})
	}
	if r.Intn(2) == 0 {
		sf = append(sf, reflect.StructField{Name: "Emb", Type: reflect.TypeOf(Inner{}), Tag: `gorm:"embedded;embeddedPrefix:e_"`})
		m.fields = append(m.fields, fdef{Name: "Emb.P", Col: "e_p", Kind: kindIdx("int64"), Emb: true}, fdef{Name: "Emb.Q", Col: "e_q", Kind: kindIdx("string"), Emb: true})
	}
	if r.Intn(2) == 0 {
		sf = append(sf, reflect.StructField{Name: "PEmb", Type: reflect.TypeOf(&InnerP{}), Tag: `gorm:"embedded;embeddedPrefix:p_"`})
		m.fields = append(m.fields, fdef{Name: "PEmb.F", Col: "p_f", Kind: kindIdx("float64"), PEmb: true}, fdef{Name: "PEmb.S", Col: "p_s", Kind: kindIdx("string"), PEmb: true},
			fdef{Name: "PEmb.N", Col: "p_n", Kind: kindIdx("int64"), PEmb: true})
		m.hasPEmb = true
	}
	m.typ = reflect.StructOf(sf)
	m.table = fmt.Sprintf("rt%d", atomic.AddInt32(&tcount, 1))
	return m
}

// getField returns the (possibly nested) field; the zero Value when it lies behind a nil embedded pointer.
func getField(v reflect.Value, name string) reflect.Value {
	if i := strings.Index(name, "."); i >= 0 {
		fv := v.FieldByName(name[:i])
		if fv.Kind() == reflect.Ptr {
			if fv.IsNil() {
				return reflect.Value{}
			}
			fv = fv.Elem()
		}
		return fv.FieldByName(name[i+1:])
	}
	return v.FieldByName(name)
}

const absent = "absent"

// dialects -----------------------------------------------------------------------------------
type noRet struct {
	sqlite.Dialector
	reversed bool
}

func (d noRet) Initialize(db *gorm.DB) error {
	db.ConnPool = d.Conn
	callbacks.RegisterDefaultCallbacks(db, &callbacks.Config{LastInsertIDReversed: d.reversed})
	for k, v := range d.Dialector.ClauseBuilders() {
		db.ClauseBuilders[k] = v
	}
	return nil
}

type env struct {
	db      *gorm.DB
	sql     *sql.DB
	dialect string
}

func newEnv(dialect string) (*env, error) {
	rec := recdrv.New()
	rec.SetRecording(false)
	sqldb := rec.OpenDB()
	sqldb.SetMaxOpenConns(1)
	cfg := &gorm.Config{Logger: logger.Discard, NowFunc: func() time.Time { return fixedNow }}
	var d gorm.Dialector
	switch dialect {
	case "returning":
		d = sqlite.Dialector{Conn: sqldb}
	case "lastid_reversed":
		d = noRet{sqlite.Dialector{Conn: sqldb}, true}
	case "lastid_forward":
		rec.LastInsertFirst = true
		d = noRet{sqlite.Dialector{Conn: sqldb}, false}
	}
	db, err := gorm.Open(d, cfg)
	if err != nil {
		return nil, err
	}
	return &env{db, sqldb, dialect}, nil
}

// ---------------------------------------------------------------------------------------------
type rec struct {
	mk    int64
	val   reflect.Value // the struct (addressable)
	given map[string]string
	zero  map[string]bool
}

func (m *mdef) newRecord(r *rand.Rand, mk int64, presetKey bool) rec {
	v := reflect.New(m.typ).Elem()
	rc := rec{mk: mk, val: v, given: map[string]string{}, zero: map[string]bool{}}
	nilEmb := m.hasPEmb && r.Intn(2) == 0
	if m.hasPEmb && !nilEmb {
		v.FieldByName("PEmb").Set(reflect.ValueOf(&InnerP{}))
	}
	for _, f := range m.fields {
		k := Kinds[f.Kind]
		if f.PEmb && nilEmb {
			rc.given[f.Name], rc.zero[f.Name] = absent, false
			continue
		}
		var x interface{}
		switch {
		case f.Name == "Mk":
			x = mk
		case f.Key && m.keymode == "auto":
			x = int64(0)
			if presetKey {
				x = 1000 + mk
			}
		case f.Key && f.Name == "K1":
			x = mk % 3 // composite keys sharing a first part
		case f.Key:
			x = fmt.Sprintf("k'%d", mk)
		default:
			x = k.Gen(r.Intn(k.NGen))
		}
		getField(v, f.Name).Set(reflect.ValueOf(x).Convert(k.Type))
		rc.given[f.Name] = k.Tok(getField(v, f.Name).Interface())
		rc.zero[f.Name] = k.Zero(getField(v, f.Name).Interface())
	}
	return rc
}

func (m *mdef) toks(v reflect.Value) map[string]string {
	out := map[string]string{}
	for _, f := range m.fields {
		fv := getField(v, f.Name)
		if !fv.IsValid() {
			out[f.Name] = absent
			continue
		}
		out[f.Name] = Kinds[f.Kind].Tok(fv.Interface())
	}
	return out
}

// errToks stands for a record that could not be read: no field carries its value.
func (m *mdef) errToks(msg string) map[string]string {
	out := map[string]string{}
	for _, f := range m.fields {
		out[f.Name] = msg
	}
	return out
}

func (m *mdef) mapToks(row map[string]interface{}) map[string]string {
	out := map[string]string{}
	for _, f := range m.fields {
		v, present := row[f.Col]
		if !present {
			out[f.Name] = "-"
			continue
		}
		if f.PEmb && v == nil {
			out[f.Name] = absent // NULL columns of a nil embedded pointer
		} else if t, ok := Kinds[f.Kind].MapTok(v); ok {
			out[f.Name] = t
		} else {
			out[f.Name] = "-"
		}
	}
	return out
}

func (e *env) rawRow(m *mdef, mk int64) (map[string]string, error) {
	rows, err := e.sql.Query("SELECT * FROM "+m.table+" WHERE mk = ?", mk)
	if err != nil {
		return nil, err
	}
	defer rows.Close()
	cols, _ := rows.Columns()
	if !rows.Next() {
		return m.errToks("missing"), nil
	}
	vals := make([]interface{}, len(cols))
	ptrs := make([]interface{}, len(cols))
	for i := range vals {
		ptrs[i] = &vals[i]
	}
	if err := rows.Scan(ptrs...); err != nil {
		return nil, err
	}
	row := map[string]interface{}{}
	for i, c := range cols {
		row[c] = vals[i]
	}
	return m.mapToks(row), nil
}

func (m *mdef) keyToks(t map[string]string) []string {
	var out []string
	for _, f := range m.fields {
		if f.Key {
			out = append(out, t[f.Name])
		}
	}
	return out
}

// forced, when set, fixes what run() otherwise draws: an auto-increment key, the number of records and
// which of them carry a preset key (direction A: the preset patterns of the RoundTrip state graph).
type forcedCase struct {
	Presets []bool
	Mode    string
}

var forced *forcedCase

func run(e *env, r *rand.Rand, caseNo int) (hx.M, error) {
	m := randModel(r)
	for forced != nil && m.keymode != "auto" {
		m = randModel(r)
	}
	if err := e.db.Table(m.table).AutoMigrate(reflect.New(m.typ).Interface()); err != nil {
		return nil, fmt.Errorf("migrate: %v", err)
	}
	n := 1 + r.Intn(5)
	mode := []string{"single", "slice", "ptrslice", "batches", "maps"}[r.Intn(5)]
	if forced != nil {
		n, mode = len(forced.Presets), forced.Mode
	}
	preset := m.keymode == "auto" && r.Intn(4) == 0 // all records carry a preset key, or none ...
	// ... or the first npre of them do (slice creates: preset keys before the zero keys keep the
	// database's numbering of the zero-key records consecutive)
	npre := 0
	if preset {
		npre = n
	} else if m.keymode == "auto" && mode != "maps" && mode != "single" && n > 1 && r.Intn(4) == 0 && e.dialect != "lastid_forward" {
		// (the emulated first-id driver derives the first id from the number of rows, which is only right
		// when every row got a generated key)
		npre = 1 + r.Intn(n-1)
	}
	var recs []rec
	presets := make([]bool, n)
	for i := 0; i < n; i++ {
		presets[i] = i < npre
		if forced != nil {
			presets[i] = forced.Presets[i]
		}
		recs = append(recs, m.newRecord(r, int64(i+1), presets[i]))
	}
	tx := e.db.Table(m.table)
	errs := "nil"
	note := func(err error) {
		if err != nil && errs == "nil" {
			errs = err.Error()
		}
	}
	mapMode := mode == "maps"
	switch mode {
	case "single":
		for i := range recs {
			note(tx.Create(recs[i].val.Addr().Interface()).Error)
		}
	case "slice", "batches":
		sl := reflect.MakeSlice(reflect.SliceOf(m.typ), n, n)
		for i := range recs {
			sl.Index(i).Set(recs[i].val)
		}
		p := reflect.New(sl.Type())
		p.Elem().Set(sl)
		if mode == "slice" {
			note(tx.Create(p.Interface()).Error)
		} else {
			note(tx.CreateInBatches(p.Interface(), 1+r.Intn(3)).Error)
		}
		for i := range recs {
			recs[i].val = p.Elem().Index(i)
		}
	case "ptrslice":
		sl := reflect.MakeSlice(reflect.SliceOf(reflect.PtrTo(m.typ)), n, n)
		for i := range recs {
			sl.Index(i).Set(recs[i].val.Addr())
		}
		p := reflect.New(sl.Type())
		p.Elem().Set(sl)
		note(tx.Create(p.Interface()).Error)
	case "maps":
		// maps carry driver-level values: only kinds a map can express faithfully
		var ms []map[string]interface{}
		for i := range recs {
			mp := map[string]interface{}{}
			for _, f := range m.fields {
				fv := getField(recs[i].val, f.Name)
				if !fv.IsValid() {
					continue
				}
				v := fv.Interface()
				switch Kinds[f.Kind].Name {
				case "upperstr", "point", "kvser", "json_map", "json_struct", "gob_struct", "unixtime", "unixtime_ptr":
					recs[i].given[f.Name] = "-"
					continue
				}
				if f.Key && m.keymode == "auto" && !preset {
					continue
				}
				mp[f.Col] = v
			}
			ms = append(ms, mp)
		}
		note(tx.Model(reflect.New(m.typ).Interface()).Create(&ms).Error)
	}
	// read back
	found := reflect.New(reflect.SliceOf(m.typ))
	note(e.db.Table(m.table).Order("mk").Find(found.Interface()).Error)
	var maps []map[string]interface{}
	note(e.db.Table(m.table).Order("mk").Find(&maps).Error)
	outRecs := []hx.M{}
	for i, rc := range recs {
		raw, err := e.rawRow(m, rc.mk)
		if err != nil {
			return nil, err
		}
		o := hx.M{"mk": rc.mk, "given": rc.given, "zero": rc.zero, "raw": raw, "preset": presets[i]}
		if !mapMode {
			o["mem"] = m.toks(rc.val)
			o["memkey"] = m.keyToks(m.toks(rc.val))
		} else {
			o["mem"] = map[string]string{}
			o["memkey"] = []string{}
		}
		o["rowkey"] = m.keyToks(raw)
		if i < found.Elem().Len() {
			o["found"] = m.toks(found.Elem().Index(i))
		} else {
			o["found"] = m.errToks("missing")
		}
		if i < len(maps) {
			o["map"] = m.mapToks(maps[i])
		} else {
			o["map"] = m.errToks("missing")
		}
		// First / Take by marker
		one := reflect.New(m.typ)
		ferr := e.db.Table(m.table).Where("mk = ?", rc.mk).First(one.Interface()).Error
		if ferr != nil {
			o["first"] = m.errToks("error: " + ferr.Error())
		} else {
			o["first"] = m.toks(one.Elem())
		}
		outRecs = append(outRecs, o)
	}
	fj := []hx.M{}
	for _, f := range m.fields {
		dt := ""
		if f.Dflt != "" {
			if Kinds[f.Kind].Name == "string" {
				dt = "s:" + f.Dflt
			} else {
				dt = "i:" + f.Dflt
			}
		}
		fj = append(fj, hx.M{"name": f.Name, "kind": Kinds[f.Kind].Name, "col": f.Col, "dflt": dt, "auto": f.Auto, "key": f.Key})
	}
	return hx.M{"ev": "RT", "case": caseNo, "model": fj, "keymode": m.keymode, "mode": mode, "dialect": e.dialect, "preset": preset,
		"now": timeTok(fixedNow), "nownano": "i:" + strconv.FormatInt(fixedNow.UnixNano(), 10),
		"nowmilli": "i:" + strconv.FormatInt(fixedNow.UnixMilli(), 10), "nowsec": "i:" + strconv.FormatInt(fixedNow.Unix(), 10), "recs": outRecs, "nfound": found.Elem().Len(), "err": errs}, nil
}

func init() {
	hx.Register("rtrip-pattern", pattern)
	hx.Register("rtrip-random", random)
}

func random(args []string) error {
	fs := flag.NewFlagSet("rtrip-random", flag.ExitOnError)
	out := fs.String("out", "", "events")
	n := fs.Int("n", 100, "")
	seed := fs.Int64("seed", 1, "")
	only := fs.Int("only", 0, "")
	fs.Parse(args)
	r := rand.New(rand.NewSource(*seed))
	w, err := hx.NewWriter(*out)
	if err != nil {
		return err
	}
	defer w.Close()
	envs := map[string]*env{}
	for _, d := range []string{"returning", "lastid_reversed", "lastid_forward"} {
		e, err := newEnv(d)
		if err != nil {
			return err
		}
		envs[d] = e
	}
	dl := []string{"returning", "returning", "lastid_reversed", "lastid_forward"}
	for i := 0; i < *n; i++ {
		e := envs[dl[r.Intn(len(dl))]]
		ev, err := run(e, r, i+1)
		if err != nil {
			ev = hx.M{"ev": "RT", "case": i + 1, "model": []hx.M{}, "keymode": "", "mode": "", "dialect": e.dialect, "preset": false,
				"now": "", "nownano": "", "recs": []hx.M{}, "nfound": 0, "err": "harness: " + err.Error()}
		}
		if *only == 0 || *only == i+1 {
			w.Emit(ev)
		}
	}
	return nil
}

// pattern: direction A -- every (preset pattern, create path) state of the RoundTrip state graph inside
// the documented domain (LastInsertId-last: preset keys only in front; emulated LastInsertId-first:
// all or none) is created as a slice of records and read back.
func pattern(args []string) error {
	fs := flag.NewFlagSet("rtrip-pattern", flag.ExitOnError)
	in := fs.String("cases", "", "ndjson {preset: [bool], path}")
	out := fs.String("out", "", "events")
	fs.Parse(args)
	lines, err := hx.ReadNDJSON(*in)
	if err != nil {
		return err
	}
	w, err := hx.NewWriter(*out)
	if err != nil {
		return err
	}
	defer w.Close()
	envs := map[string]*env{}
	for i, l := range lines {
		var c struct {
			Preset []bool `json:"preset"`
			Path   string `json:"path"`
		}
		if err := json.Unmarshal(l, &c); err != nil {
			return err
		}
		if len(c.Preset) == 0 {
			continue
		}
		npre, prefix := 0, true
		for k, p := range c.Preset {
			if p {
				npre++
				if k > 0 && !c.Preset[k-1] {
					prefix = false
				}
			}
		}
		if (c.Path == "lastid_reversed" && !prefix) || (c.Path == "lastid_forward" && npre != 0 && npre != len(c.Preset)) {
			continue
		}
		e := envs[c.Path]
		if e == nil {
			if e, err = newEnv(c.Path); err != nil {
				return err
			}
			envs[c.Path] = e
		}
		forced = &forcedCase{Presets: c.Preset, Mode: []string{"slice", "ptrslice"}[i%2]}
		ev, err := run(e, rand.New(rand.NewSource(int64(i+1))), i+1)
		forced = nil
		if err != nil {
			return fmt.Errorf("case %d: %v", i, err)
		}
		w.Emit(ev)
	}
	return nil
}
