// Package reads drives C15: every read path on the same chain, FindInBatches grids.
package reads

import (
	"context"
	"database/sql"
	"errors"
	"flag"
	"fmt"
	"math/rand"

	"gorm.io/gorm"

	"verifharness/hx"
	"verifharness/recdrv"
)

type R struct {
	ID int64
	V  *int64
	S  string
}

func (R) TableName() string { return "rs" }

type call struct {
	K string `json:"k"`
	N int    `json:"n"`
}

type env struct {
	db  *gorm.DB
	rec *recdrv.Rec
	sql *sql.DB
}

func newEnv() (*env, error) {
	db, rec, sqldb, err := hx.Open(nil)
	if err != nil {
		return nil, err
	}
	sqldb.SetMaxOpenConns(1)
	if err := db.AutoMigrate(&R{}); err != nil {
		return nil, err
	}
	return &env{db, rec, sqldb}, nil
}

type trow struct {
	ID int64
	V  int64 // -1 = NULL
}

func (e *env) seed(t []trow) error {
	if _, err := e.sql.Exec("DELETE FROM rs"); err != nil {
		return err
	}
	for _, r := range t {
		var v interface{}
		if r.V >= 0 {
			v = r.V
		}
		if _, err := e.sql.Exec("INSERT INTO rs(id,v,s) VALUES(?,?,?)", r.ID, v, fmt.Sprint("s", r.ID)); err != nil {
			return err
		}
	}
	return nil
}

type chain struct {
	CondOn bool
	Gt     int
	Eq     int // -1: none; else the chain continues with Or("v = ?", Eq)
	Lone   bool // the chain's only condition is Or("v = ?", Eq)
	Ne     int  // -1: none; else the chain continues (after the Or) with Where("v <> ?", Ne)
	Handle bool // FindInBatches runs on a reusable handle carrying three constant orderings; its callback uses the handle again
	Order  string // "" asc desc
	Calls  []call
	Scope  string // how the condition is supplied: "" Where; plain | session | withctx: through a Scopes function
}

func (c chain) apply(db *gorm.DB) *gorm.DB {
	tx := db.Session(&gorm.Session{})
	if c.CondOn && c.Lone {
		tx = tx.Or("v = ?", c.Eq)
	} else if c.CondOn {
		gt := c.Gt
		switch c.Scope {
		case "plain":
			tx = tx.Scopes(func(d *gorm.DB) *gorm.DB { return d.Where("v > ?", gt) })
		case "session":
			tx = tx.Scopes(func(d *gorm.DB) *gorm.DB { return d.Session(&gorm.Session{}).Where("v > ?", gt) })
		case "withctx":
			tx = tx.Scopes(func(d *gorm.DB) *gorm.DB { return d.WithContext(context.Background()).Where("v > ?", gt) })
		default:
			tx = tx.Where("v > ?", gt)
		}
		if c.Eq >= 0 {
			tx = tx.Or("v = ?", c.Eq)
			if c.Ne >= 0 {
				tx = tx.Where("v <> ?", c.Ne)
			}
		}
	}
	switch c.Order {
	case "asc":
		tx = tx.Order("id")
	case "desc":
		tx = tx.Order("id desc")
	}
	for _, k := range c.Calls {
		if k.K == "limit" {
			tx = tx.Limit(k.N)
		} else {
			tx = tx.Offset(k.N)
		}
	}
	return tx
}

func nz(x []int64) []int64 {
	if x == nil {
		return []int64{}
	}
	return x
}

func ec(err error) string {
	switch {
	case err == nil:
		return "nil"
	case errors.Is(err, gorm.ErrRecordNotFound):
		return "not_found"
	}
	return "other:" + err.Error()
}

// observe runs every read path on the chain.
func (e *env) observe(c chain, batchSizes []int) hx.M {
	o := hx.M{}
	// Find into slice of structs
	{
		var out []R
		res := c.apply(e.db).Find(&out)
		ids := []int64{}
		for _, r := range out {
			ids = append(ids, r.ID)
		}
		o["find"], o["find_ra"], o["find_err"] = ids, res.RowsAffected, ec(res.Error)
	}
	// Find into slice of pointers
	{
		var out []*R
		res := c.apply(e.db).Find(&out)
		ids := []int64{}
		for _, r := range out {
			ids = append(ids, r.ID)
		}
		o["find_ptr"], o["find_ptr_err"] = ids, ec(res.Error)
	}
	// Find into slice of maps
	{
		var out []map[string]interface{}
		res := c.apply(e.db).Model(&R{}).Find(&out)
		ids := []int64{}
		for _, m := range out {
			ids = append(ids, toI(m["id"]))
		}
		o["maps"], o["maps_err"] = ids, ec(res.Error)
	}
	// Rows + ScanRows
	{
		ids := []int64{}
		tx := c.apply(e.db).Model(&R{})
		rows, err := tx.Rows()
		if err == nil {
			for rows.Next() {
				var r R
				if err = e.db.ScanRows(rows, &r); err != nil {
					break
				}
				ids = append(ids, r.ID)
			}
			rows.Close()
		}
		o["rows"], o["rows_err"] = ids, ec(err)
	}
	// Scan into a smaller struct
	{
		type small struct{ ID int64 }
		var out []small
		res := c.apply(e.db).Model(&R{}).Scan(&out)
		ids := []int64{}
		for _, r := range out {
			ids = append(ids, r.ID)
		}
		o["scan"], o["scan_err"] = ids, ec(res.Error)
	}
	// Pluck
	{
		var ids []int64
		res := c.apply(e.db).Model(&R{}).Pluck("id", &ids)
		o["pluck"], o["pluck_err"] = nz(ids), ec(res.Error)
	}
	// a read continued from the value Count returns (Count on a reusable handle of the chain)
	{
		var n int64
		var out []R
		cc := c
		if cc.Scope == "session" || cc.Scope == "withctx" {
			// (a scope function that returns a Session/WithContext handle makes Count hand back a statement that
			// still selects count(*): observation O8, outside the property -- the condition is given directly here)
			cc.Scope = ""
		}
		h := cc.apply(e.db).Model(&R{}).Session(&gorm.Session{})
		res := h.Count(&n).Find(&out)
		ids := []int64{}
		for _, r := range out {
			ids = append(ids, r.ID)
		}
		o["count_find"], o["count_find_err"] = ids, ec(res.Error)
	}
	// Count (without limit / offset), single-record finders (no order/limit/offset of the user's)
	bare := chain{CondOn: c.CondOn, Gt: c.Gt, Eq: c.Eq, Lone: c.Lone, Ne: c.Ne, Scope: c.Scope}
	{
		var n int64
		res := bare.apply(e.db).Model(&R{}).Count(&n)
		o["count"], o["count_err"] = n, ec(res.Error)
	}
	one := func(name string, f func(tx *gorm.DB, r *R) *gorm.DB) {
		var r R
		res := f(bare.apply(e.db), &r)
		o[name+"_err"] = ec(res.Error)
		o[name] = r.ID
		o[name+"_ra"] = res.RowsAffected
	}
	one("first", func(tx *gorm.DB, r *R) *gorm.DB { return tx.First(r) })
	one("last", func(tx *gorm.DB, r *R) *gorm.DB { return tx.Last(r) })
	one("take", func(tx *gorm.DB, r *R) *gorm.DB { return tx.Take(r) })
	// Find into a single struct, a map, an array, a primitive
	{
		var r R
		res := bare.apply(e.db).Order("id").Find(&r)
		o["find_one"], o["find_one_err"] = r.ID, ec(res.Error)
		m := map[string]interface{}{}
		res = bare.apply(e.db).Model(&R{}).Order("id").Take(&m)
		o["take_map"], o["take_map_err"] = toI(m["id"]), ec(res.Error)
		var n int64
		res = bare.apply(e.db).Model(&R{}).Select("count(*)").Scan(&n)
		o["scan_prim"], o["scan_prim_err"] = n, ec(res.Error)
	}
	// FindInBatches (no user Order): limit/offset calls apply
	bc := chain{CondOn: c.CondOn, Gt: c.Gt, Eq: c.Eq, Lone: c.Lone, Ne: c.Ne, Calls: c.Calls, Scope: c.Scope}
	bobs := []hx.M{}
	for _, bs := range batchSizes {
		var out []R
		batches := [][]int64{}
		base := bc.apply(e.db)
		if c.Handle {
			base = base.Order("s IS NULL").Order("s IS NULL").Order("s IS NULL").Session(&gorm.Session{})
		}
		res := base.FindInBatches(&out, bs, func(tx *gorm.DB, batch int) error {
			if batch > 200 {
				return errors.New("more than 200 batches: the batch cursor does not advance")
			}
			if c.Handle { // other reads derived from the same handle while the batches are running
				var r1, r2 R
				base.First(&r1)
				base.Last(&r2)
			}
			ids := []int64{}
			for _, r := range out {
				ids = append(ids, r.ID)
			}
			batches = append(batches, ids)
			return nil
		})
		bobs = append(bobs, hx.M{"size": bs, "batches": batches, "ra": res.RowsAffected, "err": ec(res.Error)})
	}
	o["fib"] = bobs
	return o
}

func toI(v interface{}) int64 {
	switch x := v.(type) {
	case int64:
		return x
	case int:
		return int64(x)
	case nil:
		return 0
	}
	return -999
}

func tableJ(t []trow) []hx.M {
	out := []hx.M{}
	for _, r := range t {
		out = append(out, hx.M{"id": r.ID, "v": r.V})
	}
	return out
}
func callsJ(c []call) []hx.M {
	out := []hx.M{}
	for _, k := range c {
		out = append(out, hx.M{"k": k.K, "n": k.N})
	}
	return out
}

func event(caseNo int, t []trow, c chain, o hx.M) hx.M {
	return hx.M{"ev": "Read", "case": caseNo, "table": tableJ(t), "cond": hx.M{"on": c.CondOn, "gt": c.Gt, "eq": c.Eq, "lone": c.Lone, "ne": c.Ne}, "order": c.Order,
		"calls": callsJ(c.Calls), "scope": c.Scope, "handle": c.Handle, "obs": o}
}

func init() {
	hx.Register("reads-grid", grid)
	hx.Register("reads-random", random)
}

// grid: direction A -- the whole (table size, batch size, limit, offset) grid of Reads.tla.
func grid(args []string) error {
	fs := flag.NewFlagSet("reads-grid", flag.ExitOnError)
	out := fs.String("out", "", "events")
	maxn := fs.Int("maxn", 5, "")
	maxb := fs.Int("maxb", 6, "")
	fs.Parse(args)
	e, err := newEnv()
	if err != nil {
		return err
	}
	w, err := hx.NewWriter(*out)
	if err != nil {
		return err
	}
	defer w.Close()
	caseNo := 0
	var bss []int
	for b := 1; b <= *maxb; b++ {
		bss = append(bss, b)
	}
	for n := 0; n <= *maxn; n++ {
		var t []trow
		for i := 1; i <= n; i++ {
			t = append(t, trow{ID: int64(i), V: int64(i % 4)})
		}
		if err := e.seed(t); err != nil {
			return err
		}
		for lim := 0; lim <= *maxb; lim++ { // 0 = absent
			for off := -1; off <= *maxb; off++ { // -1 = absent
				c := chain{Eq: -1, Ne: -1}
				if lim > 0 {
					c.Calls = append(c.Calls, call{"limit", lim})
				}
				if off >= 0 {
					c.Calls = append(c.Calls, call{"offset", off})
				}
				c.Order = "asc"
				caseNo++
				w.Emit(event(caseNo, t, c, e.observe(c, bss)))
			}
		}
	}
	return nil
}

// random: direction B -- random tables (NULLs), conditions, orders, overriding / cancelling calls.
func random(args []string) error {
	fs := flag.NewFlagSet("reads-random", flag.ExitOnError)
	out := fs.String("out", "", "events")
	n := fs.Int("n", 300, "")
	seed := fs.Int64("seed", 1, "")
	fs.Parse(args)
	r := rand.New(rand.NewSource(*seed))
	e, err := newEnv()
	if err != nil {
		return err
	}
	w, err := hx.NewWriter(*out)
	if err != nil {
		return err
	}
	defer w.Close()
	var t []trow
	for i := 0; i < *n; i++ {
		if i%10 == 0 {
			t = nil
			id := int64(0)
			for k := 0; k < r.Intn(13); k++ {
				id += int64(1 + r.Intn(3))
				v := int64(r.Intn(6))
				if r.Intn(5) == 0 {
					v = -1
				}
				t = append(t, trow{ID: id, V: v})
			}
			if err := e.seed(t); err != nil {
				return err
			}
		}
		c := chain{CondOn: r.Intn(2) == 0, Gt: r.Intn(7), Order: []string{"", "asc", "desc"}[r.Intn(3)], Scope: []string{"", "", "plain", "session", "withctx"}[r.Intn(5)], Eq: -1, Ne: -1, Handle: r.Intn(4) == 0}
		if c.CondOn && c.Scope == "" && r.Intn(3) == 0 {
			c.Eq = r.Intn(7)
			c.Lone = r.Intn(3) == 0
			if !c.Lone && r.Intn(2) == 0 {
				c.Ne = r.Intn(7)
			}
		}
		for k := 0; k < r.Intn(5); k++ {
			v := 1 + r.Intn(8)
			if r.Intn(4) == 0 {
				v = -1
			}
			c.Calls = append(c.Calls, call{[]string{"limit", "offset"}[r.Intn(2)], v})
		}
		bss := []int{1 + r.Intn(8), 1 + r.Intn(4)}
		w.Emit(event(i+1, t, c, e.observe(c, bss)))
	}
	return nil
}
