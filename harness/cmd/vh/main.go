// vh is the single harness binary: vh <driver> [args...].
package main

import (
	"fmt"
	"os"

	"verifharness/hx"

	_ "verifharness/assoc"
	_ "verifharness/bind"
	_ "verifharness/c17"
	_ "verifharness/cc"
	_ "verifharness/clz"
	_ "verifharness/cond"
	_ "verifharness/conv"
	_ "verifharness/handles"
	_ "verifharness/mig"
	_ "verifharness/ops"
	_ "verifharness/reads"
	_ "verifharness/rtrip"
	_ "verifharness/txn"
	_ "verifharness/wset"
)

func main() {
	if len(os.Args) < 2 {
		fmt.Fprintln(os.Stderr, "usage: vh <cmd> [args]; cmds:", hx.Names())
		os.Exit(2)
	}
	c, ok := hx.Lookup(os.Args[1])
	if !ok {
		fmt.Fprintln(os.Stderr, "unknown cmd", os.Args[1], "; cmds:", hx.Names())
		os.Exit(2)
	}
	if err := c(os.Args[2:]); err != nil {
		fmt.Fprintln(os.Stderr, "HARNESS-ERROR:", err)
		os.Exit(2)
	}
}
