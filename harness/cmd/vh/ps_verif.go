//go:build verif

package main

import (
	_ "verifharness/ps"
	_ "verifharness/sc"
)
