"""C15 -- all read paths agree; batched reads visit every row exactly once in key order.
spec/Reads.tla: reference (EffLimit/EffOffset folds, Page, Expected) + transcription of the
FindInBatches loop, model-checked over the (size, batch, limit, offset) grid; harness/reads replays
the grid (direction A) and random chains (direction B); spec/Trace_Reads.tla judges every path."""
import json
import os
import time
from concurrent.futures import ThreadPoolExecutor

from . import lib

PROP = "C15"


def validate(w, name, rows):
    v, st, tr = lib.tlc_trace(w, name, "Trace_Reads", lib.cfg_of("Trace_Reads"), rows, chunk=150)
    v.setdefault("bad", [])
    return v, st, tr


def describe(e, b):
    return "ok(multi,single,batched)=%s table=%s cond=%s order=%r calls=%s obs=%s" % (
        (b["multi"], b["single"], b["batched"]), [(r["id"], r["v"]) for r in e["table"]], e["cond"], e["order"], e["calls"], json.dumps(e["obs"])[:700])


def check(w, tier, t0):
    vh = lib.build_harness()
    sd = lib.seed()
    verdict = lib.Verdict(PROP)
    d = w.sub("mc")
    r = lib.tlc(d, "Reads", lib.cfg_of("Reads", MAXN=7 if tier == "quick" else 9, MAXB=8 if tier == "quick" else 10), timeout=3000)
    if not r.ok:
        raise lib.Inconclusive("Reads model run failed:\n" + (r.error or ""))
    states, trans = r.distinct, r.generated
    # unbounded part: the integer machine BatchLoop is proved right for ALL sizes by Apalache
    # (inductive invariant), and TLC checks on the grid that it is the sequence-level transcription
    da = w.sub("apalache")
    ok0, _, out0 = lib.apalache(da, "BatchLoop", ["--cinit=CInit", "--init=Init", "--inv=IndInv", "--length=0"])
    ok1, _, out1 = lib.apalache(da, "BatchLoop", ["--cinit=CInit", "--init=IndInit", "--inv=IndInv", "--length=1"])
    if not (ok0 and ok1):
        raise lib.Inconclusive("BatchLoop: the inductive invariant was not established by Apalache:\n" + (out0 if not ok0 else out1))
    rx = lib.tlc(w.sub("blx"), "BatchLoopX", lib.cfg_of("BatchLoopX", MAXN=7 if tier == "quick" else 9, MAXB=8 if tier == "quick" else 10), timeout=3000)
    if not rx.ok:
        raise lib.Inconclusive("BatchLoopX: the integer machine differs from the transcription of the loop:\n" + (rx.error or ""))
    states += rx.distinct
    trans += rx.generated
    d = w.sub("run")
    maxn, maxb = (5, 6) if tier == "quick" else (8, 9)
    nrand = 1600 if tier == "quick" else 300000
    lib.run([vh, "reads-grid", "-maxn", str(maxn), "-maxb", str(maxb), "-out", os.path.join(d, "g.ndjson")], timeout=3000)
    events = lib.read_ndjson(os.path.join(d, "g.ndjson"))
    for e in events:
        e["_src"] = {"grid": [maxn, maxb]}
    ngrid = len(events)

    def rnd(j):
        out = os.path.join(d, "r%d.ndjson" % j)
        lib.run([vh, "reads-random", "-out", out, "-n", str(nrand // 8), "-seed", str(sd * 1000 + j)], timeout=6000)
        rows = lib.read_ndjson(out)
        for e in rows:
            e["_src"] = {"random": [nrand // 8, sd * 1000 + j]}
        return rows
    with ThreadPoolExecutor(max_workers=8) as ex:
        for part in ex.map(rnd, range(8)):
            events += part
    v, st, tr = validate(w, "V", events)
    states += st
    trans += tr
    drift = sum(1 for b in v["bad"] if not b["impl_same"])
    for b in v["bad"]:
        e = events[b["i"] - 1]
        verdict.bad({"src": e["_src"], "case": e["case"]}, None, describe(e, b))

    def rerun(case):
        dd = w.sub("repro-" + lib.case_hash(case))
        out = os.path.join(dd, "o.ndjson")
        if "grid" in case["src"]:
            lib.run([vh, "reads-grid", "-maxn", str(case["src"]["grid"][0]), "-maxb", str(case["src"]["grid"][1]), "-out", out])
        else:
            lib.run([vh, "reads-random", "-n", str(case["src"]["random"][0]), "-seed", str(case["src"]["random"][1]), "-out", out])
        rows = [e for e in lib.read_ndjson(out) if e["case"] == case["case"]]
        vv, _, _ = validate(w, "R" + lib.case_hash(case), rows)
        return vv, rows
    check.rerun = rerun
    rc = verdict.finish(lambda case: len(rerun(case)[0]["bad"]) > 0)
    distinct = {lib.case_hash([e["table"], e["cond"], e["order"], e["calls"]]) for e in events}
    nontrivial = {lib.case_hash([e["table"], e["cond"], e["order"], e["calls"]]) for e in events if e["calls"] and len(e["table"]) >= 2}
    samples = [{k: e[k] for k in ("table", "cond", "order", "calls", "obs")} for e in (events[ngrid // 2], events[-1])]
    cov = {"states": states, "transitions": trans, "traces_validated_against_impl": len(events), "samples": samples,
           "evaluations": len(events), "distinct_nontrivial": len(nontrivial),
           "rule": "one evaluation = one chain (condition, order, sequence of Limit/Offset calls incl. overriding and cancelling ones) on one table, observed through Find into structs / pointers / maps, Rows+ScanRows, Scan, Pluck, Count, First/Last/Take (struct and map), Find into a single struct, Scan into a primitive, and FindInBatches for several batch sizes; the full grid table size 0..%d x batch 1..%d x limit absent/1..%d x offset absent/0..%d plus %d random chains on random tables with NULLs and key gaps; non-trivial = at least one Limit/Offset call on a table of >= 2 rows" % (maxn, maxb, maxb, maxb, nrand),
           "exhaustive": True, "grid_points": ngrid, "impl_model_conformant": drift == 0,
           "unbounded": "BatchLoop.tla: inductive invariant of the FindInBatches loop (stops with exactly the page delivered, no batch larger than requested) established by Apalache for all table sizes, batch sizes, limits and offsets; BatchLoopX.tla: TLC checks on the grid that this machine yields the batch sizes of the sequence-level transcription"}
    lib.write_evidence(PROP, tier, "model_checking", cov, time.time() - t0, len(verdict.violations),
                       ["Limit(0) is not generated", "FindInBatches without a user Order", "Count without limit/offset/grouping",
                        "with an unspecified order and a page only size, membership and distinctness are determined"])
    return rc


def replay(w, path):
    lib.build_harness()
    case = json.load(open(path))
    # reuse the closure-free path: rebuild a tiny context
    vh = os.path.join(lib.WORKROOT, "bin", "vh")
    dd = w.sub("replay")
    out = os.path.join(dd, "o.ndjson")
    if "grid" in case["src"]:
        lib.run([vh, "reads-grid", "-maxn", str(case["src"]["grid"][0]), "-maxb", str(case["src"]["grid"][1]), "-out", out])
    else:
        lib.run([vh, "reads-random", "-n", str(case["src"]["random"][0]), "-seed", str(case["src"]["random"][1]), "-out", out])
    rows = [e for e in lib.read_ndjson(out) if e["case"] == case["case"]]
    v, _, _ = validate(w, "R", rows)
    if v["bad"]:
        print("VIOLATION property=%s replay=%s" % (PROP, path))
        print("  " + describe(rows[0], v["bad"][0]))
        return 1
    print("no violation")
    return 0
