"""C16 -- Save, upsert and FirstOrCreate/FirstOrInit converge to the documented state.
spec/Converge.tla (reference machine + design invariants; TLC enumerates every history of <= 2
operations: direction A, each replayed with Session/WithContext at every position of the chain),
random longer histories (direction B), spec/Trace_Converge.tla compares after every operation."""
import json
import os
import time
from concurrent.futures import ThreadPoolExecutor

from . import lib

PROP = "C16"


def validate(w, name, rows):
    v, st, tr = lib.tlc_trace(w, name, "Trace_Converge", lib.cfg_of("Trace_Converge"), rows, chunk=800)
    v.setdefault("bad", [])
    return v, st, tr


def describe(e, b):
    o = e["ops"][b["at"] - 1]
    return "history %s fails at operation %d: clone calls at %s (%s), forms %s, observed %s" % (
        [(x["op"], x["id"], x["a"], x["b"], x["rule"], x["ca"], x["attr"], x.get("attra"), x["asg"], x["k1"], x["k2"], x["u"]) for x in e["ops"][:b["at"]]], b["at"], o["sess"], o["how"], o["forms"], o["obs"])


def run_one(w, vh, case, name):
    d = w.sub(name)
    lib.write_ndjson(os.path.join(d, "h.ndjson"), [{"ops": case["ops"]}])
    lib.run([vh, "conv-replay", "-cases", os.path.join(d, "h.ndjson"), "-out", os.path.join(d, "o.ndjson"), "-variants=false"])
    rows = lib.read_ndjson(os.path.join(d, "o.ndjson"))
    v, _, _ = validate(w, name, rows)
    return v, rows


def check(w, tier, t0):
    vh = lib.build_harness()
    sd = lib.seed()
    verdict = lib.Verdict(PROP)
    d = w.sub("gen")
    sp = dict(MAXOPS=2, VALS="{1, 2}") if tier == "quick" else dict(MAXOPS=2, VALS="{1, 2, 3}")
    r = lib.tlc(d, "Converge", lib.cfg_of("Converge", **sp), timeout=6000, extra=["-dump", "states.dump"])
    if not r.ok:
        raise lib.Inconclusive("Converge model run failed:\n" + (r.error or ""))
    states, trans = r.distinct, r.generated
    hs = [{"ops": h} for h in lib.parse_dump_records(os.path.join(d, "states.dump"), "hist") if h]
    hf = os.path.join(d, "h.ndjson")
    lib.write_ndjson(hf, hs)
    nproc = lib.NCPU
    step = (len(hs) + nproc - 1) // nproc
    events = []

    def rep(j):
        out = os.path.join(d, "o%d.ndjson" % j)
        lib.run([vh, "conv-replay", "-cases", hf, "-out", out, "-from", str(j * step), "-to", str(min(len(hs), (j + 1) * step))], timeout=6000)
        return lib.read_ndjson(out)
    with ThreadPoolExecutor(max_workers=nproc) as ex:
        for part in ex.map(rep, range(nproc)):
            events += part
    nrand = 4000 if tier == "quick" else 300000

    def rnd(j):
        out = os.path.join(d, "r%d.ndjson" % j)
        lib.run([vh, "conv-random", "-out", out, "-n", str(nrand // 8), "-seed", str(sd * 1000 + j)], timeout=6000)
        return lib.read_ndjson(out)
    with ThreadPoolExecutor(max_workers=8) as ex:
        for part in ex.map(rnd, range(8)):
            events += part
    v, st, tr = validate(w, "V", events)
    states += st
    trans += tr
    for b in v["bad"]:
        e = events[b["i"] - 1]
        verdict.bad({"ops": json.loads(e["rops"])}, None, describe(e, b))

    def reproduce(case):
        vv, _ = run_one(w, vh, case, "repro-" + lib.case_hash(case))
        return len(vv["bad"]) > 0
    rc = verdict.finish(reproduce)
    nontrivial = {lib.case_hash(e["rops"]) for e in events if len(e["ops"]) >= 2 or any(o["sess"] for o in e["ops"])}
    samples = [{"ops": e["ops"]} for e in (events[len(events) // 3], events[-1])]
    cov = {"states": states, "transitions": trans, "traces_validated_against_impl": len(events), "samples": samples,
           "evaluations": len(events), "distinct_nontrivial": len(nontrivial),
           "rule": "one evaluation = one history of Save (single auto-increment key; composite key with zero parts) / Create+OnConflict on a unique non-key column with UpdateAll / Create+OnConflict (DoNothing, UpdateAll, DoUpdates a|b|a,b) / FirstOrInit / FirstOrCreate over the key space {1,2,3} starting from one live and one soft-deleted row; every history of <= 2 operations from the TLC state graph (%d), each also with Session or WithContext inserted at every position of the last operation's chain and struct/map/key-value forms of conditions, Attrs and Assign, conditions also through Scopes and as inline arguments, plus %d random histories of <= 5 operations; after every operation the raw table and the returned record are compared; non-trivial = two or more operations or a clone call in a chain" % (len(hs), nrand),
           "exhaustive": True, "histories_enumerated": len(hs)}
    lib.write_evidence(PROP, tier, "model_checking", cov, time.time() - t0, len(verdict.violations),
                       ["tracked timestamps are not part of the model (none in the harness model)",
                        "FirstOrCreate conditions do not pin a primary key held by a soft-deleted row"])
    return rc


def replay(w, path):
    vh = lib.build_harness()
    case = json.load(open(path))
    v, rows = run_one(w, vh, case, "replay")
    if v["bad"]:
        print("VIOLATION property=%s replay=%s" % (PROP, path))
        print("  " + describe(rows[0], v["bad"][0]))
        return 1
    print("no violation")
    return 0
