from . import pipefam


def check(w, tier, t0):
    return pipefam.check("C05", w, tier, t0)


def replay(w, path):
    return pipefam.replay("C05", w, path)
