from . import bindfam


def check(w, tier, t0):
    return bindfam.check("C19", w, tier, t0)


def replay(w, path):
    return bindfam.replay("C19", w, path)
