"""C01 / C19: spec/SqlBind.tla (intended bindings of an abstract program; expansion rules),
spec/Trace_SqlBind.tla (validation of every built / sent statement), harness/bind."""
import json
import os
import time
from concurrent.futures import ThreadPoolExecutor

from . import lib


def validate(w, name, rows):
    v, st, tr = lib.tlc_trace(w, name, "Trace_SqlBind", lib.cfg_of("Trace_SqlBind"), rows, chunk=800)
    v.setdefault("bad", [])
    return v, st, tr


def describe(e, b):
    if e["ev"] == "Stmt":
        return "target=%s align=%s bound=%s values_in_text=%s sql=%s holes=%s nvars=%s" % (
            e["target"], b["align"], b["bound"], e["markers"], e["sql"][:200], [(h["n"], h["tag"], h["val"]) for h in e["holes"]], e["nvars"])
    return "dry_stmts=%s tosql_calls=%s dry=(%s %s) real=(%s %s)" % (e["dry_stmts"], e["tosql_calls"], e["dry_sql"][:150], e["dry_vals"], e["real_sql"][:150], e["real_vals"])


def run_one(w, vh, case, name):
    d = w.sub(name)
    json.dump(case, open(os.path.join(d, "c.json"), "w"))
    lib.run([vh, "bind-one", "-case", os.path.join(d, "c.json"), "-out", os.path.join(d, "o.ndjson")])
    rows = lib.read_ndjson(os.path.join(d, "o.ndjson"))
    v, _, _ = validate(w, name, rows)
    return v, rows


def check(prop, w, tier, t0):
    vh = lib.build_harness()
    sd = lib.seed()
    verdict = lib.Verdict(prop)
    d = w.sub("mc")
    r = lib.tlc(d, "SqlBind", lib.cfg_of("SqlBind", MAXPARTS=2 if tier == "quick" else 3), timeout=3000, extra=["-dump", "states.dump"])
    if not r.ok:
        raise lib.Inconclusive("SqlBind model run failed:\n" + (r.error or ""))
    states, trans = r.distinct, r.generated
    # direction A: every sequence of flat holes TLC explored, as a chain of Where calls on every target
    # (the operator of a hole is normalised to one that is valid SQL for its kind)
    seen, flats = set(), []
    for st in lib.parse_dump_states(os.path.join(d, "states.dump"), ["flat"]):
        fl = [dict(f, op=(f["op"] if f["k"] == "slice" else "IN" if f["k"] == "nested" else "=")) for f in (st["flat"] or [])]
        fl = [f for f in fl if not (f["k"] == "nested" and f["n"] == 0)]          # an empty nested list is not valid SQL
        key = json.dumps(fl, sort_keys=True)
        if fl and key not in seen:
            seen.add(key)
            flats.append({"flat": fl})
    nprog = 1600 if tier == "quick" else 200000
    nproc = min(lib.NCPU, max(1, nprog // 200))
    d = w.sub("rand")

    def rnd(j):
        out = os.path.join(d, "b%d.ndjson" % j)
        lib.run([vh, "bind-random", "-out", out, "-n", str(nprog // nproc), "-seed", str(sd * 1000 + j)], timeout=6000)
        return lib.read_ndjson(out)
    events = []

    def rep(a):
        j, part = a
        f, o = os.path.join(d, "f%d.ndjson" % j), os.path.join(d, "fo%d.ndjson" % j)
        lib.write_ndjson(f, part)
        lib.run([vh, "bind-flat", "-cases", f, "-out", o], timeout=6000)
        return lib.read_ndjson(o)
    step = max(1, (len(flats) + 7) // 8)
    with ThreadPoolExecutor(max_workers=8) as ex:
        for part in ex.map(rep, enumerate([flats[i:i + step] for i in range(0, len(flats), step)])):
            events += part
    with ThreadPoolExecutor(max_workers=nproc) as ex:
        for part in ex.map(rnd, range(nproc)):
            events += part
    v, st, tr = validate(w, "V", events)
    states += st
    trans += tr
    mine = [e for e in events if (e["ev"] == "Stmt") == (prop == "C01")]
    distinct = {lib.case_hash([e["rprog"], e.get("target", "")]) for e in mine}
    nontrivial = set()
    for e in mine:
        p = json.loads(e["rprog"])
        nh = sum(len(x["holes"]) for x in (p["parts"] or []))
        if nh >= 2 or p["fin"].get("pay"):
            nontrivial.add(lib.case_hash([e["rprog"], e.get("target", "")]))
    for b in v["bad"]:
        if b["prop"] != prop:
            continue
        e = events[b["i"] - 1]
        verdict.bad({"rprog": e["rprog"]}, None, describe(e, b))

    def reproduce(case):
        vv, _ = run_one(w, vh, case, "repro-" + lib.case_hash(case))
        return any(b["prop"] == prop for b in vv["bad"])
    rc = verdict.finish(reproduce)
    keys = ("target", "prog", "sql", "holes", "nvars", "markers") if prop == "C01" else ("prog", "dry_sql", "dry_vals", "real_sql", "real_vals", "dry_stmts", "tosql_calls")
    samples = [{k: x[k] for k in keys} for x in (mine[len(mine) // 2], mine[-1])]
    cov = {"states": states, "transitions": trans, "traces_validated_against_impl": len(mine), "samples": samples,
           "evaluations": len(mine), "distinct_nontrivial": len(nontrivial),
           "rule": ("one evaluation = one statement of one abstract program (chain of Where/Not/Or/Having/Joins/Select/Order/Clauses/Table/Raw/Exec parts with tagged holes; argument kinds scalar, pointer, nullable wrapper, byte slice, nil, slices of length 0..3, nested slices, SQL expressions with own arguments, sub-query handles, named arguments; finishers Find/First/Count/Pluck/Update(s)/Delete/Create struct|slice|map/upsert/Raw/Exec/Rows) on one target (dummy '?' dialect, dummy '$n' dialect, SQLite through the recording driver); every string value is hostile (quotes, backslash, ?, @name, ), --, unicode) and carries a unique marker; non-trivial = at least two holes or a write payload"
                    if prop == "C01" else
                    "one evaluation = one abstract program executed in DryRun session mode, through ToSQL and for real on identical databases; TLC compares driver events and (text, values); non-trivial = at least two holes or a write payload"),
           "programs": nprog, "flat_sequences_replayed": len(flats)}
    lib.write_evidence(prop, tier, "model_checking", cov, time.time() - t0, len(verdict.violations),
                       ["the projection (placeholder scan outside quoted literals, column tag left of a placeholder, INSERT column list <-> VALUES position, marker scan) is trusted",
                        "TLA+ sees value ids, not the hostile bytes; the id <-> value table is part of the projection",
                        "Limit/Offset are not generated on SQLite (the external dialector inlines them)", "arity-matched calls only"])
    return rc


def replay(prop, w, path):
    vh = lib.build_harness()
    case = json.load(open(path))
    v, rows = run_one(w, vh, case, "replay")
    for b in v["bad"]:
        if b["prop"] == prop:
            print("VIOLATION property=%s replay=%s" % (prop, path))
            print("  " + describe(rows[b["i"] - 1], b))
            return 1
    print("no violation")
    return 0
