from . import pipefam


def check(w, tier, t0):
    return pipefam.check("C13", w, tier, t0)


def replay(w, path):
    return pipefam.replay("C13", w, path)
