"""C12 -- association mode keeps stored links, counts and the in-memory value in agreement.
spec/AssocMode.tla (link-set machine, shape invariants model-checked per relation kind; every
history of the state graph replayed: direction A), spec/Trace_AssocMode.tla (each recorded
history re-run on the machine, every observation compared), harness/assoc/mode.go."""
import json
import os
import time
from concurrent.futures import ThreadPoolExecutor

from . import lib

PROP = "C12"
KINDS = ["has_many", "has_one", "belongs_to", "many2many", "poly", "polyone"]


def validate(w, name, rows):
    v, st, tr = lib.tlc_trace(w, name, "Trace_AssocMode", lib.cfg_of("Trace_AssocMode"), rows, chunk=500)
    v.setdefault("bad", [])
    return v, st, tr


def describe(e, b):
    o = e["ops"][b["at"] - 1]
    return "kind=%s unscoped=%s mode=%s: operation %d %s(p=%s, ts=%s) observed %s; history=%s" % (
        e["kind"], e["unscoped"], e["mode"], b["at"], o["op"], o["p"], o["ts"], o["obs"], e["rops"])


def run_one(w, vh, case, name):
    d = w.sub(name)
    lib.write_ndjson(os.path.join(d, "h.ndjson"), [{"ops": case["ops"], "links": case.get("links")} if case.get("links") else {"ops": case["ops"]}])
    cmd = [vh, "amode-replay", "-cases", os.path.join(d, "h.ndjson"), "-kind", case["kind"], "-out", os.path.join(d, "o.ndjson")]
    if case["unscoped"]:
        cmd.append("-unscoped")
    if case["mode"] == "single":
        cmd.append("-single")
    lib.run(cmd)
    rows = lib.read_ndjson(os.path.join(d, "o.ndjson"))
    v, _, _ = validate(w, name, rows)
    return v, rows


def sig(e):
    return "unscoped_belongs_to" if (e["kind"] == "belongs_to" and e["unscoped"]) else None


def check(w, tier, t0):
    vh = lib.build_harness()
    sd = lib.seed()
    verdict = lib.Verdict(PROP)
    maxops = 2 if tier == "quick" else 3
    states = trans = 0
    events = []
    nhist = 0
    jobs = []
    for kind in KINDS:
        d = w.sub("gen-" + kind)
        r = lib.tlc(d, "AssocMode", lib.cfg_of("AssocMode", KIND=kind, MAXOPS=maxops), timeout=6000, extra=["-dump", "states.dump"])
        if not r.ok:
            raise lib.Inconclusive("AssocMode model run failed (%s):\n%s" % (kind, r.error or ""))
        states += r.distinct
        trans += r.generated
        hs = [{"ops": h} for h in lib.parse_dump_records(os.path.join(d, "states.dump"), "hist")]
        nhist += len(hs)
        hf = os.path.join(d, "h.ndjson")
        lib.write_ndjson(hf, hs)
        step = max(1, (len(hs) + 3) // 4)
        for j in range(0, len(hs), step):
            for flags in ([], ["-single"], ["-unscoped"]):
                jobs.append((kind, hf, j, min(len(hs), j + step), flags, d))

    def rep(a):
        i, (kind, hf, f, t, flags, d) = a
        out = os.path.join(d, "o%d.ndjson" % i)
        lib.run([vh, "amode-replay", "-cases", hf, "-kind", kind, "-out", out, "-from", str(f), "-to", str(t)] + flags, timeout=6000)
        return lib.read_ndjson(out)
    with ThreadPoolExecutor(max_workers=lib.NCPU) as ex:
        for part in ex.map(rep, enumerate(jobs)):
            events += part
    nrand = 2400 if tier == "quick" else 40000
    d = w.sub("rand")

    def rnd(j):
        out = os.path.join(d, "r%d.ndjson" % j)
        lib.run([vh, "amode-random", "-out", out, "-n", str(nrand // 8), "-seed", str(sd * 1000 + j)], timeout=6000)
        return lib.read_ndjson(out)
    with ThreadPoolExecutor(max_workers=8) as ex:
        for part in ex.map(rnd, range(8)):
            events += part
    v, st, tr = validate(w, "V", events)
    states += st
    trans += tr
    for b in v["bad"]:
        e = events[b["i"] - 1]
        verdict.bad({"kind": e["kind"], "unscoped": e["unscoped"], "mode": e["mode"], "ops": json.loads(e["rops"]), "links": e["init"]["links"]}, sig(e), describe(e, b))

    def reproduce(case):
        vv, _ = run_one(w, vh, case, "repro-" + lib.case_hash(case))
        return len(vv["bad"]) > 0
    rc = verdict.finish(reproduce)
    distinct = {lib.case_hash([e["kind"], e["unscoped"], e["mode"], e["rops"]]) for e in events}
    nontrivial = {lib.case_hash([e["kind"], e["unscoped"], e["mode"], e["rops"]]) for e in events if len(e["ops"]) >= 2}
    samples = [{k: e[k] for k in ("kind", "unscoped", "mode", "init", "ops")} for e in (events[len(events) // 3], events[-1])]
    cov = {"states": states, "transitions": trans, "traces_validated_against_impl": len(events), "samples": samples,
           "evaluations": len(events), "distinct_nontrivial": len(nontrivial),
           "rule": "one evaluation = one history of Append/Replace/Delete/Clear (+ Count/Find after every operation) on one relation kind (has many, has one, belongs to, many-to-many, polymorphic) with existing, new and duplicate targets: every history of length <= %d of the TLC state graph (2 parents x 3 existing targets, x {reloaded parents, one in-memory record receiving every operation, Unscoped}) + %d random histories of length <= 8; after each operation the links are read raw (foreign keys / join rows), targets alive, Count(), Find() and the in-memory field; non-trivial = at least two operations" % (maxops, nrand),
           "exhaustive": True, "histories_enumerated": nhist, "known_finding_cases": verdict.known_hits}
    lib.write_evidence(PROP, tier, "model_checking", cov, time.time() - t0, len(verdict.violations),
                       ["a fresh Association handle per operation", "the in-memory field is compared only for a record that received every operation (mode single: one parent, initially preloaded)",
                        "under Unscoped the survival of a REMOVED target is not constrained; every other target must survive"])
    return rc


def replay(w, path):
    vh = lib.build_harness()
    case = json.load(open(path))
    v, rows = run_one(w, vh, case, "replay")
    known = lib.known_findings(PROP)
    if v["bad"]:
        s = sig(rows[0])
        if s in known:
            print("KNOWN-FINDING: property=%s %s" % (PROP, known[s]["what"]))
            return 0
        print("VIOLATION property=%s replay=%s" % (PROP, path))
        print("  " + describe(rows[0], v["bad"][0]))
        return 1
    print("no violation")
    return 0
