"""Condition family (C02, C08, C09): spec/Cond.tla is the reference semantics, spec/CondGen.tla
the bounded chain space (direction A), spec/Trace_Cond.tla the trace validator (direction B)."""
import json
import os
import time
from concurrent.futures import ThreadPoolExecutor

from . import lib

KNOWN_TAGS = {"f8": "not_over_and_without_native_negation",
              "f13": "soft_delete_pk_anded_with_whole_chain",
              "f15": "not_over_group_with_or_memberwise"}


def penv(softptr):
    """the soft-delete model of a harness process: value-typed deleted-at field (False / 0), pointer-typed
    (True / 1), or two soft-delete fields ("two" / 2)"""
    env = dict(lib.GOENV)
    if softptr in ("two", 2):
        env["VERIF_SOFTPTR"] = "two"
    elif softptr:
        env["VERIF_SOFTPTR"] = "1"
    return env


def carry(r):
    return ("T", r["soft"]) if r["ev"] == "T" else None


def validate(w, name, rows, chunk=600):
    v, st, tr = lib.tlc_trace(w, name, "Trace_Cond", lib.cfg_of("Trace_Cond"), rows, chunk=chunk, carry=carry)
    v.setdefault("bad", [])
    return v, st, tr


def case_of(rows, i):
    """replay case for the Q event at 1-based index i: its table + full chain/finisher."""
    e = rows[i - 1]
    tbl = None
    for j in range(i - 2, -1, -1):
        if rows[j]["ev"] == "T" and rows[j]["soft"] == e["soft"]:
            tbl = rows[j]["table"]
            break
    return {"soft": e["soft"], "table": tbl, "rchain": e["rchain"], "rfin": e["rfin"], "softptr": e.get("softptr", False)}


def failing(prop, b):
    """does this bad record count against prop, and under which known signature (or None)?"""
    if prop == "C08":
        return (not b["leak"]), None
    if prop == "C09":
        return (not b["guard"]), None
    # C02: exact selection (leading-Or chains are outside its domain)
    if b["lead_or"]:
        return False, None
    if b["sel"] and b["leak"] and b["guard"]:
        return False, None
    sig = None
    if b["leak"] and b["guard"]:
        for k in ("f13", "f8", "f15"):
            if b[k]:
                sig = KNOWN_TAGS[k]
                break
    return True, sig


def describe(e):
    return "fin=%s soft=%s unscoped=%s pk=%s err=%s ids=%s n=%s changed=%s marked=%s removed=%s" % (
        e["fin"], e["soft"], e["unscoped"], e["pk"], e["errtext"], e["ids"], e["n"], e["changed"], e["marked"], e["removed"])


def run_one(w, vh, case, name):
    d = w.sub(name)
    cp = os.path.join(d, "case.json")
    json.dump(case, open(cp, "w"))
    lib.run([vh, "cond-one", "-case", cp, "-out", os.path.join(d, "ev.ndjson")], env=penv(case.get("softptr")))
    rows = lib.read_ndjson(os.path.join(d, "ev.ndjson"))
    v, _, _ = validate(w, name, rows)
    return v, rows


def check(prop, w, tier, t0):
    vh = lib.build_harness()
    sd = lib.seed()
    mode = prop.lower()
    verdict = lib.Verdict(prop)
    if tier == "quick":
        spaces = [dict(MAXLEN=2, RICH="FALSE")]
        nrand = 1500
    else:
        spaces = [dict(MAXLEN=2, RICH="TRUE")]
        nrand = 40000
    if mode == "c09":
        spaces = [dict(MAXLEN=3 if tier == "quick" else 4, RICH="FALSE")]
    states = trans = 0
    nchains = 0
    # events are consumed part by part (validated, counted, dropped): the thorough spaces produce
    # millions of events, more than fits in memory at once
    acc = {"nq": 0, "total": 0, "distinct": set(), "nontrivial": set(), "sample": [], "st": 0, "tr": 0, "parts": 0}

    def consume(part):
        if not part:
            return
        acc["parts"] += 1
        v, st, tr = validate(w, "V%d" % acc["parts"], part, chunk=max(600, len(part) // 8 + 1))   # 8 validators per part
        acc["st"] += st
        acc["tr"] += tr
        acc["total"] += len(part)
        for e in part:
            if e["ev"] != "Q":
                continue
            acc["nq"] += 1
            h = lib.case_hash([e["rchain"], e["rfin"], e["soft"]])
            acc["distinct"].add(h)
            ch = json.loads(e["rchain"])
            if (mode == "c09") or len(ch) >= 2 or (ch and (ch[0]["form"] == "group" or (ch[0].get("ast") or {}).get("k") in ("and", "or", "not"))):
                acc["nontrivial"].add(h)
            if len(acc["sample"]) < 2 and (acc["nq"] % 97 == 1):
                acc["sample"].append(e)
        for b in v["bad"]:
            bad, sig = failing(prop, b)
            if bad:
                verdict.bad(case_of(part, b["i"]), sig, describe(part[b["i"] - 1]))
    # ---- direction A: TLC enumerates the chain space (and checks the design-level invariants)
    for k, sp in enumerate(spaces):
        d = w.sub("gen%d" % k)
        r = lib.tlc(d, "CondGen", lib.cfg_of("CondGen", MODE=mode, **sp), timeout=7000, extra=["-dump", "states.dump"])
        if not r.ok:
            raise lib.Inconclusive("CondGen model run failed:\n" + (r.error or ""))
        states += r.distinct
        trans += r.generated
        chains = [{"chain": c} for c in lib.parse_dump_records(os.path.join(d, "states.dump"), "chain")]
        if len(chains) != r.distinct:
            raise lib.Inconclusive("dump/TLC state count mismatch")
        nchains += len(chains)
        cf = os.path.join(d, "chains.ndjson")
        lib.write_ndjson(cf, chains)
        nparts = max(1, min(64, len(chains) // 2000)) if len(chains) > 4000 else min(lib.NCPU, max(1, len(chains) // 200))
        step = (len(chains) + nparts - 1) // nparts
        nthis = len(chains)
        del chains

        def rep(j):
            out = os.path.join(d, "obs%d.ndjson" % j)
            lib.run([vh, "cond-replay", "-cases", cf, "-out", out, "-mode", mode, "-from", str(j * step), "-to", str(min(nthis, (j + 1) * step))], timeout=7000, env=penv(j % 3))
            rows = lib.read_ndjson(out)
            os.remove(out)
            return rows
        with ThreadPoolExecutor(max_workers=min(lib.NCPU, 8)) as ex:
            for base in range(0, nparts, 8):        # waves of 8: at most 8 parts are held at a time
                for part in list(ex.map(rep, range(base, min(nparts, base + 8)))):
                    consume(part)
    # ---- direction B: seeded random trees / forms / tables
    d = w.sub("rand")
    nproc = min(lib.NCPU, max(1, nrand // 500))

    def rnd(j):
        out = os.path.join(d, "r%d.ndjson" % j)
        lib.run([vh, "cond-random", "-out", out, "-mode", mode, "-n", str(nrand // nproc), "-seed", str(sd * 1000 + j)], timeout=7000, env=penv(j % 3))
        rows = lib.read_ndjson(out)
        os.remove(out)
        return rows
    with ThreadPoolExecutor(max_workers=min(nproc, 8)) as ex:
        for base in range(0, nproc, 8):
            for part in list(ex.map(rnd, range(base, min(nproc, base + 8)))):
                consume(part)
    states += acc["st"]
    trans += acc["tr"]
    nloads = 0
    if prop == "C08":
        # joins / preloads / association lookups of soft-delete models: Assoc.tla reference join
        from . import assocfam
        loads = assocfam.run_loads(w, vh, tier, "soft", sd)
        lv, st2, tr2 = assocfam.validate(w, "VL", loads)
        states += st2
        trans += tr2
        nloads = len(loads)
        for b in lv["bad"]:
            e = loads[b["i"] - 1]
            verdict.bad({"assoc": assocfam.case_of(e)}, None, assocfam.describe(e, b))
    nq = acc["nq"]
    nontrivial = acc["nontrivial"]

    def reproduce(case):
        if "assoc" in case:
            from . import assocfam
            vv, _ = assocfam.rerun(w, vh, case["assoc"], "repro-" + lib.case_hash(case))
            return len(vv["bad"]) > 0
        vv, rows = run_one(w, vh, case, "repro-" + lib.case_hash(case))
        return any(failing(prop, b)[0] for b in vv["bad"])
    rc = verdict.finish(reproduce)
    samples = [{k: x[k] for k in ("fin", "soft", "unscoped", "pk", "chain", "ids", "n", "err", "changed", "marked", "removed")} for x in acc["sample"]]
    cov = {"states": states, "transitions": trans, "traces_validated_against_impl": nq, "samples": samples,
           "evaluations": nq, "distinct_nontrivial": len(nontrivial),
           "rule": "each evaluation = one finisher executed on one chain on SQLite and judged by Trace_Cond; chains: %d enumerated by TLC (CondGen %s, every unit shape over atoms A,B,C on the 27-row grid with soft-deleted twins) + %d seeded random chains (trees to depth 3, every form, random tables with NULLs); distinct = hash of (chain rendering, finisher, model); non-trivial = at least two units, or a grouped / composite unit" % (nchains, spaces, nrand),
           "exhaustive": True, "chains_enumerated": nchains, "random_chains": nrand,
           "known_finding_cases": verdict.known_hits, "events_total": acc["total"], "soft_delete_eager_loads": nloads}
    lib.write_evidence(prop, tier, "model_checking", cov, time.time() - t0, len(verdict.violations),
                       ["renderer from abstract units to gorm call arguments (harness/cond/ast.go) is trusted",
                        "SQLite executes the SQL text gorm produced", "LIKE restricted to the vocabulary of spec/Values.tla",
                        "known findings F8/F13 are accepted only when the named alternative semantics explains the observation exactly; F15 by shape"])
    return rc


def replay(prop, w, path):
    vh = lib.build_harness()
    case = json.load(open(path))
    if "assoc" in case:
        from . import assocfam
        vv, rows = assocfam.rerun(w, vh, case["assoc"], "replay")
        if vv["bad"]:
            print("VIOLATION property=%s replay=%s" % (prop, path))
            print("  " + assocfam.describe(rows[vv["bad"][0]["i"] - 1], vv["bad"][0]))
            return 1
        print("no violation")
        return 0
    v, rows = run_one(w, vh, case, "replay")
    known = lib.known_findings(prop)
    for b in v["bad"]:
        bad, sig = failing(prop, b)
        if bad and sig in known:
            print("KNOWN-FINDING: property=%s %s" % (prop, known[sig]["what"]))
            return 0
        if bad:
            print("VIOLATION property=%s replay=%s" % (prop, path))
            print("  " + describe(rows[b["i"] - 1]))
            return 1
    print("no violation:", describe(rows[-1]))
    return 0
