from . import assocfam


def check(w, tier, t0):
    return assocfam.check(w, tier, t0)


def replay(w, path):
    return assocfam.replay(w, path)
