"""C07 -- one shared handle used from many goroutines at once, including first use.
spec/SchemaCache.tla models the schema cache protocol of schema.ParseWithSpecialTableName /
getOrParse (in-progress marker, nested parses of related types, callers); TLC checks Termination
(no deadlock whatever the relation cycles), SingleSchema, CachedIsResult, ResultInitialized over
every interleaving, and shows the two race mechanisms k1 / k2 (NoRaceK1, NoRaceK2 are violated:
known finding F4).
Direction A: TLC behaviours are replayed on the real cache through gates at the verif
instrumentation points of schema/schema.go (harness/sc); spec/Trace_SchemaCache.tla compares the
set of cached types after every step and the schemas every goroutine ends up with.
Direction B: harness/cc storms -- G goroutines run random programs through one cold or warm handle,
with and without PrepareStmt; results and rows against a serial run; the race-detector build's
reports and fatal concurrent-map errors are reduced to (access, inside a schema parse?) and judged
by the specification: k1 / k2 are the known finding, anything else is a violation."""
import glob
import json
import os
import re
import subprocess
import time
from concurrent.futures import ThreadPoolExecutor

from . import lib

PROP = "C07"
PARSE_FN = "schema.ParseWithSpecialTableName"


def simulate(w, name, G, num, depth, seed):
    d = w.sub(name)
    os.makedirs(os.path.join(d, "sim"), exist_ok=True)
    lib.tlc(d, "SchemaCacheMC", lib.cfg_of("SchemaCacheSim", G=G, WARM="WarmMC"), workers=1, timeout=3000,
            extra=["-simulate", "file=%s/sim/tr,num=%d" % (d, num), "-depth", str(depth), "-seed", str(seed)])
    scheds = []
    for f in sorted(glob.glob(os.path.join(d, "sim", "tr_*"))):
        first, last = lib.parse_sim_trace(f)
        hist = lib.state_var(last, "hist") if last else None
        if first is None or hist is None:
            continue
        scheds.append({"plan": re.findall(r'"(\w)"', lib.state_var(first, "plan")),
                       "warm": [t for t, v in re.findall(r"(\w) \|-> (\d+)", lib.state_var(first, "cache")) if v != "0"],
                       "hist": lib.flat_records(hist)})
    if len(scheds) < num // 2:
        raise lib.Inconclusive("TLC simulation produced %d behaviours, wanted %d" % (len(scheds), num))
    return scheds


def replay_scheds(vh, d, name, scheds):
    src, out = os.path.join(d, name + "-s.ndjson"), os.path.join(d, name + "-o.ndjson")
    lib.write_ndjson(src, scheds)
    lib.run([vh, "sc-replay", "-cases", src, "-out", out], timeout=6000)
    return lib.read_ndjson(out)


def sides_of_report(rep):
    """One race report -> [(op, inparse, top gorm function), ...] for its two accesses; None if a stack is missing."""
    sides = []
    for blk in re.split(r"\n\s*\n", rep):
        m = re.match(r"\s*(Write|Read|Previous write|Previous read|Atomic write|Atomic read|Previous atomic write|Previous atomic read) at ", blk)
        if not m:
            continue
        fns = re.findall(r"^\s+(\S+)\(.*\)\s*$", blk, flags=re.M)
        if not fns or "failed to restore the stack" in blk:
            return None
        gf = [f for f in fns if "gorm.io/gorm" in f]
        sides.append({"op": "write" if "rite" in m.group(1) else "read", "inparse": any(PARSE_FN in f for f in fns),
                      "fn": (gf[0] if gf else fns[0]).replace("gorm.io/gorm/", "").replace("gorm.io/gorm.", "")})
    return sides if len(sides) == 2 else None


# callers that read a schema's relationship maps without the cache lock (the readers of F4b)
SCHEMA_MAP_READERS = ("callbacks.parsePreloadMap", "(*DB).Association")


def crash_event(stderr):
    """A fatal runtime error (concurrent map access) -> the two 'sides' as far as the dump shows them."""
    m = re.search(r"fatal error: (concurrent map [^\n]*)", stderr)
    if not m:
        return None
    gos = re.split(r"\n\s*\n", stderr[m.end():])
    running = next((g for g in gos if re.match(r"\s*goroutine \d+ \[running\]", g)), gos[0] if gos else "")
    others = [g for g in gos if g is not running and "goroutine " in g]
    fns = re.findall(r"^(\S+)\(", running, flags=re.M)
    gf = [f for f in fns if "gorm.io/gorm" in f]
    return {"what": m.group(1),
            "a": {"op": "?", "inparse": PARSE_FN in running, "fn": (gf[0] if gf else "?").replace("gorm.io/gorm/", "").replace("gorm.io/gorm.", "")},
            "b": {"op": "?", "inparse": any(PARSE_FN in g for g in others), "fn": "?"}}


def storm(vh, d, name, n, seed, maxg, race, config=None):
    """One storm process; returns (events, race events, crash events)."""
    out = os.path.join(d, name + ".ndjson")
    cmd = [vh, "cc-storm", "-out", out, "-n", str(n), "-seed", str(seed), "-maxg", str(maxg)]
    if config is not None:
        cf = os.path.join(d, name + "-config.json")
        json.dump(config, open(cf, "w"))
        cmd += ["-config", cf]
    env = dict(lib.GOENV)
    racelog = os.path.join(d, name + "-race")
    if race:
        env["GORACE"] = "exitcode=0 halt_on_error=0 history_size=7 log_path=%s" % racelog
    try:
        p = subprocess.run(cmd, env=env, capture_output=True, text=True, timeout=6000)
    except subprocess.TimeoutExpired:
        raise lib.Inconclusive("storm timed out")
    rows = []
    if os.path.exists(out):
        for line in open(out):
            try:
                rows.append(json.loads(line))
            except ValueError:
                pass   # the line a crash cut off
    races, crashes, unresolved = [], [], 0
    for f in glob.glob(racelog + ".*"):
        for rep in open(f).read().split("WARNING: DATA RACE")[1:]:
            s = sides_of_report(rep)
            if s is None:
                unresolved += 1
                continue
            races.append({"ev": "Race", "case": 0, "a": s[0], "b": s[1], "seed": seed, "n": n, "maxg": maxg, "lonereader": False})
    if p.returncode != 0:
        c = crash_event(p.stderr)
        if c is None:
            raise lib.Inconclusive("storm failed (%d):\n%s" % (p.returncode, p.stderr[-3000:]))
        # a fatal "... and map write" raised in a caller that walks a schema's relationship maps, the writer no
        # longer visible in the dump (it has left the parse): the same mechanism as k2, seen from the reader
        lone = ("map write" in c["what"]) and c["a"]["fn"] in SCHEMA_MAP_READERS
        crashes.append({"ev": "Crash", "case": 0, "a": c["a"], "b": c["b"], "what": c["what"], "seed": seed, "n": n, "maxg": maxg, "lonereader": lone})
    return rows, races, crashes, unresolved


def validate(w, name, rows):
    v, st, tr = lib.tlc_trace(w, name, "Trace_SchemaCache", lib.cfg_of("Trace_SchemaCache"), rows, chunk=300)
    v.setdefault("bad", [])
    return v, st, tr


def describe(e, b):
    if e["ev"] == "SC":
        o = e["obs"]
        return "schedule replay fails (%s%s): plan=%s warm=%s results=%s errs=%s\n    schedule=%s\n    %s" % (
            b["why"], (" at step %d" % b["sd"]) if b["sd"] else "", e["plan"], e["warm"], o["results"], o["errs"][:2],
            " ".join("%s(%d,%s)" % (s["a"], s["g"], s["t"]) for s in e["hist"]), o["drift"])
    if e["ev"] == "Conc":
        return "%s: warm=%s prepare=%s goroutines=%d; first differences %s" % (b["why"], e["warm"], e["prepare"], e["g"], json.dumps(e["diffs"][:2])[:900])
    return "%s %s: %s %s (in schema parse: %s)  /  %s %s (in schema parse: %s)" % (
        "fatal " + e.get("what", "") if e["ev"] == "Crash" else "data race", "", e["a"]["op"], e["a"]["fn"], e["a"]["inparse"], e["b"]["op"], e["b"]["fn"], e["b"]["inparse"])


def check(w, tier, t0):
    vh = lib.build_harness()
    vhr = lib.build_harness(race=True)
    sd = lib.seed()
    verdict = lib.Verdict(PROP)
    quick = tier == "quick"
    # 1. the protocol model
    G = "{1, 2}" if quick else "{1, 2, 3}"
    r = lib.tlc(w.sub("mc"), "SchemaCacheMC", lib.cfg_of("SchemaCache", G=G, WARM="WarmMC", RACES=""), timeout=6000)
    if not r.ok:
        raise lib.Inconclusive("SchemaCache model run failed:\n" + (r.error or ""))
    states, trans = r.distinct, r.generated
    # the model explains the two race mechanisms of F4
    for inv in ("NoRaceK1", "NoRaceK2"):
        rk = lib.tlc(w.sub("mc-" + inv), "SchemaCacheMC", lib.cfg_of("SchemaCache", G="{1, 2}", WARM="WarmMC", RACES="INVARIANT " + inv), timeout=3000)
        if inv not in rk.invariant_violated:
            raise lib.Inconclusive("model self-test: %s should be violated (race mechanism of F4)" % inv)
    # 2. direction A
    d = w.sub("run")
    scheds = simulate(w, "sim3", "{1, 2, 3}", 300 if quick else 3000, 90, sd)
    if not quick:
        scheds += simulate(w, "sim4", "{1, 2, 3, 4}", 1500, 120, sd + 1)
        scheds += simulate(w, "sim2", "{1, 2}", 500, 60, sd + 2)
    events = replay_scheds(vh, d, "A", scheds)
    # 3. direction B: storms in separate processes (a fatal concurrent-map error ends one)
    nproc = 8
    per = 400 if quick else 1500
    rper = 160 if quick else 400
    jobs = [(vh, "B%d" % j, per, sd * 100 + j, 8 if j % 2 else 32, False) for j in range(nproc)] + \
           [(vhr, "R%d" % j, rper, sd * 100 + 50 + j, 8 if j % 2 else 16, True) for j in range(nproc)]
    conc, races, crashes, unresolved = [], [], [], 0
    with ThreadPoolExecutor(max_workers=lib.NCPU) as ex:
        for rows, rc_, cr, un in ex.map(lambda a: storm(a[0], d, a[1], a[2], a[3], a[4], a[5]), jobs):
            conc += rows
            races += rc_
            crashes += cr
            unresolved += un
    # distinct race reports only (the same pair shows up in many processes)
    seenp, uniq = set(), []
    for e in races:
        key = (e["a"]["op"], e["a"]["fn"], e["b"]["op"], e["b"]["fn"])
        if key not in seenp:
            seenp.add(key)
            uniq.append(e)
    for c in conc:
        c.pop("stacks", None)
        c.pop("sample", None)
    allrows = events + conc + uniq + crashes
    v, st, tr = validate(w, "V", allrows)
    states += st
    trans += tr
    for b in v["bad"]:
        e = allrows[b["i"] - 1]
        if e["ev"] == "SC":
            case = {"kind": "schedule", "plan": e["plan"], "warm": e["warm"], "hist": [{"g": s["g"], "a": s["a"], "t": s["t"]} for s in scheds[e["case"] - 1]["hist"]]}
        elif e["ev"] == "Conc":
            case = {"kind": "conc", "config": json.loads(e["config"])}
        else:
            case = {"kind": "race", "a": e["a"], "b": e["b"], "seed": e["seed"], "n": e["n"], "maxg": e["maxg"], "crash": e["ev"] == "Crash"}
        verdict.bad(case, b["sig"] or None, describe(e, b))

    def reproduce(case):
        dd = w.sub("repro-" + lib.case_hash(case))
        if case["kind"] == "schedule":
            rows = replay_scheds(vh, dd, "r", [case])
        elif case["kind"] == "conc":
            rows, _, cr, _ = storm(vh, dd, "r", 60, 1, 8, False, config=case["config"])
            rows = [x for x in rows] + cr
            for c in rows:
                c.pop("stacks", None)
        else:
            _, rr, cr, _ = storm(vhr, dd, "r", case["n"], case["seed"], case["maxg"], True)
            rows = [e for e in rr + cr if (e["a"]["fn"], e["b"]["fn"]) == (case["a"]["fn"], case["b"]["fn"])] or rr + cr
        if not rows:
            return False
        vv, _, _ = validate(w, "R" + lib.case_hash(case), rows)
        return any(not b["sig"] or b["sig"] not in verdict.known for b in vv["bad"])
    rc = verdict.finish(reproduce)
    nops = sum(c["nops"] for c in conc)
    distinct = {lib.case_hash([e["plan"], e["warm"], [(x["g"], x["a"]) for x in e["hist"]]]) for e in events} | {lib.case_hash(c["config"]) for c in conc}
    samples = [{"plan": e["plan"], "warm": e["warm"], "schedule": " ".join("%s(%d,%s)" % (x["a"], x["g"], x["t"]) for x in e["hist"]), "results": e["obs"]["results"]}
               for e in (events[0], events[len(events) // 2])]
    cov = {"states": states, "transitions": trans, "traces_validated_against_impl": len(allrows), "samples": samples,
           "evaluations": len(events) + len(conc), "distinct_nontrivial": len(distinct),
           "schedules_replayed": len(events), "schedules_followed_by_code": sum(1 for e in events if e["obs"]["drift"] == "" and len(e["hist"]) == e["nsteps"]),
           "storm_runs": len(conc), "storm_runs_race_detector": nproc * rper, "storm_operations": nops,
           "cold_runs": sum(1 for c in conc if not c["warm"]), "prepared_stmt_runs": sum(1 for c in conc if c["prepare"]),
           "read_only_multi_connection_runs": sum(1 for c in conc if c.get("ro")),
           "max_goroutines": max([c["g"] for c in conc] or [0]),
           "distinct_race_reports": len(uniq), "fatal_errors": len(crashes), "race_reports_without_stack": unresolved,
           "race_pairs": sorted({"%s %s / %s %s" % (e["a"]["op"], e["a"]["fn"], e["b"]["op"], e["b"]["fn"]) for e in uniq})[:60],
           "rule": "one evaluation = one TLC-generated behaviour of SchemaCache.tla (2-4 goroutines first-using related / unrelated model types on a cold or partly warm cache) forced onto the real schema cache through gates, or one storm run (2-32 goroutines, 3-8 operations each: Create with associations, Find, First, Preload (nested, clause.Associations), Joins, Update, Save, Delete, Transaction, Association Append/Count, Count, Rows+ScanRows, Pluck, Find into maps, a statement the database rejects, on related and unrelated models, cold or warm cache, with and without PrepareStmt) compared with a serial run of the same programs",
           "exhaustive": False}
    lib.write_evidence(PROP, tier, "model_checking", cov, time.time() - t0, len(verdict.violations),
                       ["read/write storms use one pooled connection (SetMaxOpenConns(1)): SQLite's own locking is not the subject, all gorm-level state is shared; read-only storms (a third of the runs) use 16 connections on pre-populated rows",
                        "data races are what the Go race detector reports on the storm runs (a dynamic detector: only executed interleavings)",
                        "race reports whose stack the detector could not restore are counted, not judged"])
    return rc


def replay(w, path):
    vh = lib.build_harness()
    case = json.load(open(path))
    d = w.sub("replay")
    known = lib.known_findings(PROP)
    if case["kind"] == "schedule":
        rows = replay_scheds(vh, d, "r", [case])
    elif case["kind"] == "conc":
        rows, _, cr, _ = storm(vh, d, "r", 60, 1, 8, False, config=case["config"])
        rows = rows + cr
        for c in rows:
            c.pop("stacks", None)
    else:
        _, rr, cr, _ = storm(lib.build_harness(race=True), d, "r", case["n"], case["seed"], case["maxg"], True)
        rows = rr + cr
    v, _, _ = validate(w, "R", rows) if rows else ({"bad": []}, 0, 0)
    bad = [b for b in v["bad"] if not b["sig"] or b["sig"] not in known]
    if bad:
        print("VIOLATION property=%s replay=%s" % (PROP, path))
        print("  " + describe(rows[bad[0]["i"] - 1], bad[0]))
        return 1
    print("no violation")
    return 0
