from . import condfam


def check(w, tier, t0):
    return condfam.check("C09", w, tier, t0)


def replay(w, path):
    return condfam.replay("C09", w, path)
