"""Shared runner machinery: build the harness from /repo's working tree, run TLC, write
evidence, apply the verdict policy of DESIGN.md section 3."""
import hashlib
import json
import os
import re
import shutil
import subprocess
import sys
import time

VERIF = os.path.dirname(os.path.dirname(os.path.abspath(__file__)))
REPO = os.environ.get("VERIF_REPO", "/repo")
SPEC = os.path.join(VERIF, "spec")
WORKROOT = os.environ.get("VERIF_WORK") or os.path.join(VERIF, ".work")
TLA_CP = "/opt/veriftools/tla/tla2tools.jar:/opt/veriftools/tla/CommunityModules-deps.jar"
NCPU = os.cpu_count() or 4

GOENV = dict(os.environ, GOFLAGS="-mod=mod", GOPROXY="off", GOSUMDB="off", GOTOOLCHAIN="local",
             CGO_ENABLED="1")


class Inconclusive(Exception):
    """Infrastructure failure: build, TLC/JVM, timeout, dead driver. Exit 2, never a violation."""


def log(*a):
    print("[check]", *a, file=sys.stderr, flush=True)


def seed():
    try:
        return int(os.environ.get("VERIF_SEED", "1"))
    except ValueError:
        return 1


class Work:
    """Scratch directory under /verif/.work, removed on exit."""

    def __init__(self, pid):
        self.dir = os.path.join(WORKROOT, "%s-%d" % (pid, os.getpid()))

    def __enter__(self):
        shutil.rmtree(self.dir, ignore_errors=True)
        os.makedirs(self.dir)
        return self

    def __exit__(self, *a):
        if not os.environ.get("VERIF_KEEP"):
            shutil.rmtree(self.dir, ignore_errors=True)

    def sub(self, name):
        d = os.path.join(self.dir, name)
        os.makedirs(d, exist_ok=True)
        return d

    def path(self, *p):
        return os.path.join(self.dir, *p)


def build_harness(race=False):
    """(Re)build vh from /repo's current working tree with the verif tag."""
    out = os.path.join(WORKROOT, "bin", "vh-race" if race else "vh")
    os.makedirs(os.path.dirname(out), exist_ok=True)
    hdir = os.path.join(VERIF, "harness")
    gosum = os.path.join(hdir, "go.sum")
    if not os.path.exists(gosum):
        shutil.copy(os.path.join(REPO, "tests", "go.sum"), gosum)
    cmd = ["go", "build", "-tags", "verif"]
    if race:
        cmd.append("-race")
    cmd += ["-o", out, "./cmd/vh"]
    t = time.time()
    env = dict(GOENV)
    if REPO != "/repo":
        # go.mod replace points at /repo; an alternative tree is mounted through a go.work-free
        # override: GOFLAGS cannot carry -replace, so use a temporary modfile
        mod = open(os.path.join(hdir, "go.mod")).read().replace("=> /repo", "=> " + REPO)
        alt = os.path.join(WORKROOT, "alt-go.mod")
        open(alt, "w").write(mod)
        shutil.copy(gosum, os.path.join(WORKROOT, "alt-go.sum"))
        cmd.insert(2, "-modfile=" + alt)
    p = subprocess.run(cmd, cwd=hdir, env=env, capture_output=True, text=True)
    if p.returncode != 0:
        raise Inconclusive("harness build failed:\n" + p.stdout + p.stderr)
    log("built %s in %.1fs" % (os.path.basename(out), time.time() - t))
    return out


def run(cmd, cwd=None, timeout=3600, env=None, ok_codes=(0,)):
    p = subprocess.run(cmd, cwd=cwd, env=env or GOENV, capture_output=True, text=True, timeout=timeout)
    if p.returncode not in ok_codes:
        raise Inconclusive("command failed (%d): %s\n%s\n%s" % (p.returncode, " ".join(cmd), p.stdout[-4000:], p.stderr[-4000:]))
    return p


class TLCResult:
    def __init__(self, out, rc):
        self.out, self.rc = out, rc
        m = re.findall(r"(\d+) states generated, (\d+) distinct states found", out)
        self.generated, self.distinct = (int(m[-1][0]), int(m[-1][1])) if m else (0, 0)
        self.ok = "Model checking completed. No error has been found." in out
        self.invariant_violated = re.findall(r"Invariant (\S+) is violated", out)
        self.error = None if self.ok else out[-3000:]


def tlc(workdir, module, cfg_text, workers=None, timeout=1800, extra=(), files=(), simulate=None, heap="8g"):
    """Run TLC on spec/<module>.tla inside workdir (all spec modules are copied there)."""
    for f in os.listdir(SPEC):
        if f.endswith(".tla"):
            shutil.copy(os.path.join(SPEC, f), workdir)
    for f in files:
        shutil.copy(f, workdir)
    cfg = os.path.join(workdir, module + ".cfg")
    open(cfg, "w").write(cfg_text)
    meta = os.path.join(workdir, "meta-" + module)
    shutil.rmtree(meta, ignore_errors=True)
    cmd = ["java", "-Xss512m", "-Xmx" + heap, "-XX:+UseParallelGC", "-Djava.io.tmpdir=" + workdir,
           "-cp", TLA_CP, "tlc2.TLC", "-workers", str(workers or "auto"), "-metadir", meta,
           "-config", cfg] + list(extra) + [module + ".tla"]
    t = time.time()
    try:
        p = subprocess.run(cmd, cwd=workdir, capture_output=True, text=True, timeout=timeout)
    except subprocess.TimeoutExpired:
        raise Inconclusive("TLC timeout on %s after %ds" % (module, timeout))
    shutil.rmtree(meta, ignore_errors=True)
    r = TLCResult(p.stdout + p.stderr, p.returncode)
    r.wall = time.time() - t
    log("TLC %s: %d generated / %d distinct, ok=%s, %.1fs" % (module, r.generated, r.distinct, r.ok, r.wall))
    return r


def apalache(workdir, module, args, timeout=900):
    """Run apalache-mc check on spec/<module>.tla inside workdir; returns (ok, seconds, tail of the output)."""
    shutil.copy(os.path.join(SPEC, module + ".tla"), workdir)
    cmd = ["apalache-mc", "check", "--out-dir=" + os.path.join(workdir, "_apalache-out")] + list(args) + [module + ".tla"]
    t = time.time()
    try:
        p = subprocess.run(cmd, cwd=workdir, capture_output=True, text=True, timeout=timeout,
                           env=dict(os.environ, JVM_ARGS="-Xmx4g -Djava.io.tmpdir=" + workdir))
    except subprocess.TimeoutExpired:
        raise Inconclusive("Apalache timeout on %s after %ds" % (module, timeout))
    out = p.stdout + p.stderr
    ok = p.returncode == 0 and "The outcome is: NoError" in out
    log("Apalache %s %s: ok=%s, %.1fs" % (module, " ".join(args), ok, time.time() - t))
    return ok, time.time() - t, out[-1500:]


def cfg_of(name, **subst):
    """Read spec/cfg/<name>.cfg and substitute @KEY@ markers."""
    s = open(os.path.join(SPEC, "cfg", name + ".cfg")).read()
    for k, v in subst.items():
        s = s.replace("@%s@" % k, str(v))
    return s


def read_ndjson(path):
    out = []
    with open(path) as f:
        for l in f:
            l = l.strip()
            if l:
                out.append(json.loads(l))
    return out


def write_ndjson(path, rows):
    with open(path, "w") as f:
        for r in rows:
            f.write(json.dumps(r, separators=(",", ":")) + "\n")


def case_hash(obj):
    return hashlib.sha1(json.dumps(obj, sort_keys=True).encode()).hexdigest()[:16]


def known_findings(prop):
    p = os.path.join(VERIF, "known_findings.json")
    if not os.path.exists(p):
        return {}
    d = json.load(open(p))
    return {e["signature"]: e for e in d.get("findings", []) if e["property"] == prop and e["kind"] == "known"}


def save_replay(prop, case):
    d = os.path.join(VERIF, "replays", prop)
    os.makedirs(d, exist_ok=True)
    p = os.path.join(d, case_hash(case) + ".json")
    json.dump(case, open(p, "w"), indent=1, sort_keys=True)
    return p


def write_evidence(prop, tier, level, coverage, wall, violations, assumptions=()):
    os.makedirs(os.path.join(VERIF, "evidence"), exist_ok=True)
    ev = {"property_id": prop, "tier": tier, "seed": seed(), "level": level, "coverage": coverage,
          "assumptions": list(assumptions), "wall_s": round(wall, 2), "violations": violations}
    json.dump(ev, open(os.path.join(VERIF, "evidence", prop + ".json"), "w"), indent=1)


class Verdict:
    """Collects violations / known findings and turns them into the exit protocol."""

    def __init__(self, prop):
        self.prop = prop
        self.known = known_findings(prop)
        self.violations = []      # (case, why)
        self.known_hits = {}      # signature -> count
        self.notes = []

    def bad(self, case, signature=None, why=""):
        """signature: a tag computed by the specification naming a listed deviation, or None."""
        if signature and signature in self.known:
            self.known_hits[signature] = self.known_hits.get(signature, 0) + 1
        else:
            self.violations.append((case, why))

    def finish(self, reproduce=None):
        """reproduce(case) -> bool re-executes one case from its replay file."""
        for sig, n in sorted(self.known_hits.items()):
            print("KNOWN-FINDING: property=%s %s [%s, %d case(s) this run]" % (self.prop, self.known[sig]["what"], sig, n))
        if not self.violations:
            return 0
        # distinct replay files, first few re-executed
        confirmed, flaky = [], 0
        for case, why in self.violations[:5]:
            path = save_replay(self.prop, case)
            if reproduce is None or reproduce(json.load(open(path))):
                confirmed.append((path, why))
            else:
                flaky += 1
                os.remove(path)
                log("not reproduced: " + (why or "")[:600])
        if not confirmed:
            log("violation(s) did not reproduce from replay file: inconclusive")
            return 2
        for path, why in confirmed:
            print("VIOLATION property=%s replay=%s" % (self.prop, path))
            if why:
                print("  why: " + why)
        if len(self.violations) > 5:
            print("  (+%d further violating cases not written out)" % (len(self.violations) - 5))
        return 1


def tier_arg(argv):
    tier = os.environ.get("VERIF_TIER", "quick")
    replay = None
    i = 0
    while i < len(argv):
        if argv[i] == "--tier":
            tier = argv[i + 1]
            i += 1
        elif argv[i] in ("--replay", "replay"):
            replay = argv[i + 1]
            i += 1
        elif argv[i] in ("quick", "thorough"):
            tier = argv[i]
        i += 1
    return tier, replay


def tlc_trace(w, name, module, cfg_text, rows, chunk=1500, timeout=3000, obsfile="obs.ndjson", extra_files=(), carry=None, boundary=None):
    """Trace validation (direction B / verdict): split the recorded events into chunks, validate
    each chunk with its own TLC process (-workers 1, linear behaviour), merge verdict.ndjson.
    Verdict fields: n (events consumed), lists of records carrying an event index 'i', lists of
    event indices. Returns (merged verdict, states, transitions)."""
    from concurrent.futures import ThreadPoolExecutor
    if not rows:
        return {"n": 0}, 0, 0
    nchunks = max(1, min(4 * NCPU, (len(rows) + chunk - 1) // chunk))
    size = (len(rows) + nchunks - 1) // nchunks
    # carry(row) -> key for state-setting events: each chunk is prefixed with the latest such event
    # per key seen before it, so that every chunk is a self-contained trace
    parts = []
    latest = {}
    # boundary(row) -> True where a chunk may start (multi-event cases must not be cut)
    cuts = [0]
    while cuts[-1] < len(rows):
        nxt = min(len(rows), cuts[-1] + size)
        if boundary:
            while nxt < len(rows) and not boundary(rows[nxt]):
                nxt += 1
        cuts.append(nxt)
    for k in range(len(cuts) - 1):
        part = rows[cuts[k]:cuts[k + 1]]
        if not part:
            continue
        prefix = list(latest.values())
        parts.append((cuts[k] - len(prefix), len(prefix), prefix + part))
        if carry:
            for r_ in part:
                key = carry(r_)
                if key is not None:
                    latest[key] = r_

    def one(arg):
        k, (off, plen, part) = arg
        d = w.sub("%s-t%d" % (name, k))
        write_ndjson(os.path.join(d, obsfile), part)
        r = tlc(d, module, cfg_text, workers=1, timeout=timeout, files=extra_files, heap="1500m")
        vp = os.path.join(d, "verdict.ndjson")
        if not r.ok or not os.path.exists(vp):
            raise Inconclusive("%s did not accept/finish chunk %d:\n%s" % (module, k, r.error or r.out[-2000:]))
        v = read_ndjson(vp)[0]
        if v.get("n") != len(part):
            raise Inconclusive("%s consumed %s of %d events" % (module, v.get("n"), len(part)))
        shutil.rmtree(d, ignore_errors=True)
        return off, plen, v, r

    merged, states, trans = {"n": 0}, 0, 0
    # (each validator gets a 1.5 GB heap; at most 8 at a time: the whole check stays below ~14 GB)
    with ThreadPoolExecutor(max_workers=min(NCPU, 8)) as ex:
        for off, plen, v, r in ex.map(one, enumerate(parts)):
            states += r.distinct
            trans += r.generated
            for key, val in v.items():
                if key == "n":
                    merged["n"] += val - plen
                elif isinstance(val, list):
                    out = merged.setdefault(key, [])
                    for x in val:
                        if isinstance(x, dict) and "i" in x:
                            x = dict(x, i=x["i"] + off)
                        elif isinstance(x, int):
                            x = x + off
                        out.append(x)
                elif isinstance(val, (int, float)):
                    merged[key] = merged.get(key, 0) + val
    return merged, states, trans


def parse_tla_value(txt):
    """Parse a TLA+ value as TLC prints it (records, sequences, sets, strings, integers, booleans)
    into Python (dict, list, sorted list, str, int, bool)."""
    pos = 0
    n = len(txt)

    def ws():
        nonlocal pos
        while pos < n and txt[pos] in " \t\r\n":
            pos += 1

    def value():
        nonlocal pos
        ws()
        if txt.startswith("<<", pos):
            pos += 2
            return items(">>")
        if txt[pos] == "{":
            pos += 1
            return sorted(items("}"), key=lambda x: json.dumps(x, sort_keys=True))
        if txt[pos] == "[":
            pos += 1
            d = {}
            while True:
                ws()
                if txt[pos] == "]":
                    pos += 1
                    return d
                m = re.compile(r"(\w+)\s*\|->").match(txt, pos)
                pos = m.end()
                d[m.group(1)] = value()
                ws()
                if txt[pos] == ",":
                    pos += 1
        if txt[pos] == '"':
            e = txt.index('"', pos + 1)
            v = txt[pos + 1:e]
            pos = e + 1
            return v
        m = re.compile(r"-?\d+|TRUE|FALSE").match(txt, pos)
        pos = m.end()
        return {"TRUE": True, "FALSE": False}.get(m.group(0), None) if m.group(0) in ("TRUE", "FALSE") else int(m.group(0))

    def items(close):
        nonlocal pos
        out = []
        while True:
            ws()
            if txt.startswith(close, pos):
                pos += len(close)
                return out
            out.append(value())
            ws()
            if txt[pos] == ",":
                pos += 1
    return value()


def parse_dump_states(path, variables):
    """Yield, per state of a TLC -dump file, a dict variable -> parsed value."""
    txt = open(path).read()
    for st in re.split(r"^State \d+:\s*$", txt, flags=re.M)[1:]:
        out = {}
        for v in variables:
            m = re.search(r"^(?:/\\ )?%s = (.*?)(?=^(?:/\\ )?\w+ = |\Z)" % re.escape(v), st, flags=re.M | re.S)
            out[v] = parse_tla_value(m.group(1)) if m else None
        yield out


def parse_dump_records(path, var):
    """Parse a TLC -dump file whose states have one variable `var` holding a sequence of flat
    records with string/int/boolean fields. Yields one list of dicts per state."""
    txt = open(path).read()
    states = re.split(r"^State \d+:\s*$", txt, flags=re.M)[1:]
    rec = re.compile(r"\[([^\[\]]*)\]")
    fld = re.compile(r"(\w+)\s*\|->\s*(\"[^\"]*\"|-?\d+|TRUE|FALSE|<<[-\d,\s]*>>)")
    for st in states:
        m = re.search(r"^(?:/\\ )?%s = (.*?)(?=^(?:/\\ )?\w+ = |\Z)" % re.escape(var), st, flags=re.M | re.S)
        body = m.group(1) if m else ""
        seq = []
        for r in rec.findall(body):
            d = {}
            for k, v in fld.findall(r):
                if v.startswith('"'):
                    d[k] = v[1:-1]
                elif v.startswith("<<"):
                    d[k] = [int(x) for x in v[2:-2].split(",") if x.strip()]
                elif v in ("TRUE", "FALSE"):
                    d[k] = v == "TRUE"
                else:
                    d[k] = int(v)
            seq.append(d)
        yield seq


def parse_sim_trace(path):
    """Parse a TLC -simulate behaviour file: returns (first_state_text, last_state_text)."""
    txt = open(path).read()
    states = re.split(r"^STATE_\d+ ==\s*$", txt, flags=re.M)[1:]
    if not states:
        return None, None
    return states[0], states[-1]


def state_var(state_text, var):
    m = re.search(r"^(?:/\\ )?%s = (.*?)(?=^(?:/\\ )?\w+ = |^=+$|^\s*$|\Z)" % re.escape(var), state_text, flags=re.M | re.S)
    return m.group(1).strip() if m else None


def flat_records(body):
    rec = re.compile(r"\[([^\[\]]*)\]")
    fld = re.compile(r"(\w+)\s*\|->\s*(\"[^\"]*\"|-?\d+|TRUE|FALSE|<<[-\d,\s]*>>)")
    out = []
    for r in rec.findall(body or ""):
        d = {}
        for k, v in fld.findall(r):
            if v.startswith('"'):
                d[k] = v[1:-1]
            elif v.startswith("<<"):
                d[k] = [int(x) for x in v[2:-2].split(",") if x.strip()]
            elif v in ("TRUE", "FALSE"):
                d[k] = v == "TRUE"
            else:
                d[k] = int(v)
        out.append(d)
    return out
