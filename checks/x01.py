"""X01 (beyond the listed properties) -- builder calls fold into the clause tree as specified.
spec/Clauses.tla (abstract statement, merge rules per call, rendering; invariants model-checked over
every chain of <= MaxLen calls), spec/Trace_Clauses.tla (each executed chain's SQL text and bound
values against Expected), harness/clz. Not listed in MANIFEST.json (no property id); evidence goes
to evidence_extra/X01.json."""
import json
import os
import re
import time
from concurrent.futures import ThreadPoolExecutor

from . import lib

PROP = "X01"


def validate(w, name, rows):
    v, st, tr = lib.tlc_trace(w, name, "Trace_Clauses", lib.cfg_of("Trace_Clauses"), rows, chunk=2000)
    v.setdefault("bad", [])
    return v, st, tr


def describe(e, b):
    return "calls=%s fin=%s: statement %r vars=%s err=%s; specified %r vars=%s" % (
        e["calls"], e["fin"], e["sql"], e["vars"], e["err"], b["want"], b["wantvars"])


def run_one(w, vh, case, name):
    d = w.sub(name)
    lib.write_ndjson(os.path.join(d, "h.ndjson"), [case])
    lib.run([vh, "clauses-replay", "-cases", os.path.join(d, "h.ndjson"), "-out", os.path.join(d, "o.ndjson")])
    rows = lib.read_ndjson(os.path.join(d, "o.ndjson"))
    v, _, _ = validate(w, name, rows)
    return v, rows


def check(w, tier, t0):
    vh = lib.build_harness()
    sd = lib.seed()
    verdict = lib.Verdict(PROP)
    maxlen = 2 if tier == "quick" else 3
    d = w.sub("mc")
    r = lib.tlc(d, "Clauses", lib.cfg_of("Clauses", MAXLEN=maxlen), timeout=3000, extra=["-dump", "states.dump"])
    if not r.ok:
        raise lib.Inconclusive("Clauses model run failed:\n" + (r.error or ""))
    states, trans = r.distinct, r.generated
    txt = open(os.path.join(d, "states.dump")).read()
    chains = [{"calls": re.findall(r'"(\w+)"', m)} for m in re.findall(r"hist = (<<.*?>>)", txt, flags=re.S)]
    nchains = len(chains)
    parts = [chains[i::8] for i in range(8)]

    def rep(a):
        i, part = a
        f, o = os.path.join(d, "h%d.ndjson" % i), os.path.join(d, "o%d.ndjson" % i)
        lib.write_ndjson(f, part)
        lib.run([vh, "clauses-replay", "-cases", f, "-out", o], timeout=3000)
        return lib.read_ndjson(o)
    events = []
    with ThreadPoolExecutor(max_workers=8) as ex:
        for p in ex.map(rep, enumerate(parts)):
            events += p
    nrand = 4000 if tier == "quick" else 100000

    def rnd(j):
        o = os.path.join(d, "r%d.ndjson" % j)
        lib.run([vh, "clauses-random", "-out", o, "-n", str(nrand // 8), "-seed", str(sd * 1000 + j)], timeout=3000)
        return lib.read_ndjson(o)
    with ThreadPoolExecutor(max_workers=8) as ex:
        for p in ex.map(rnd, range(8)):
            events += p
    v, st, tr = validate(w, "V", events)
    states += st
    trans += tr
    for b in v["bad"]:
        e = events[b["i"] - 1]
        verdict.bad({"calls": e["calls"], "fin": e["fin"]}, None, describe(e, b))

    def reproduce(case):
        vv, _ = run_one(w, vh, case, "repro-" + lib.case_hash(case))
        return len(vv["bad"]) > 0
    rc = verdict.finish(reproduce)
    cov = {"states": states, "transitions": trans, "traces_validated_against_impl": len(events), "evaluations": len(events),
           "chains_enumerated": nchains, "exhaustive": True,
           "rule": "one evaluation = one chain of builder calls (Select / Distinct / Omit / Where / Order / Limit / Offset / Group / Having / locking, 30 call forms) finished by Find / Take / First / Last / Count / Delete in DryRun on the generic dialector; SQL text and bound values must equal the specification's rendering: every chain of length <= %d of the TLC state graph x 6 finishers + %d random chains of length 3..10" % (maxlen, nrand)}
    os.makedirs(os.path.join(lib.VERIF, "evidence_extra"), exist_ok=True)
    json.dump({"property_id": PROP, "tier": tier, "seed": sd, "level": "model_checking", "coverage": cov,
               "wall_s": round(time.time() - t0, 2), "violations": len(verdict.violations)},
              open(os.path.join(lib.VERIF, "evidence_extra", PROP + ".json"), "w"), indent=1)
    return rc


def replay(w, path):
    vh = lib.build_harness()
    case = json.load(open(path))
    v, rows = run_one(w, vh, case, "replay")
    if v["bad"]:
        print("VIOLATION property=%s replay=%s" % (PROP, path))
        print("  " + describe(rows[v["bad"][0]["i"] - 1], v["bad"][0]))
        return 1
    print("no violation")
    return 0
