"""C14 -- the prepared-statement cache is transparent, leak-free and safe in any interleaving.
spec/PrepStmt.tla models prepare_stmt.go with one action per critical section (the verif
instrumentation points are exactly the boundaries between the actions).  TLC checks
AtMostOncePerGeneration, FailureNotCached, FailureToAllWaiters, NoLeak, TransparentButF7a and
Termination over every interleaving of G goroutines with every plan (text, direct/transaction,
prepare ok/fail, use ok/ErrBadConn) and Reset/Close at every point.
Direction A: TLC -simulate writes behaviours; harness/ps replays each on the real PreparedStmtDB,
the instrumentation points acting as scheduler gates, and records the cache map after every step;
spec/Trace_PrepStmt.tla feeds the steps through the model's actions and compares.
Direction B: free-running goroutine storms (race detector in the thorough tier)."""
import glob
import json
import os
import re
import time

from . import lib

PROP = "C14"


def simulate(w, name, G, plans, num, depth, seed, conns="{1, 2, 99}"):
    d = w.sub(name)
    os.makedirs(os.path.join(d, "sim"), exist_ok=True)
    lib.tlc(d, "PrepStmtMC", lib.cfg_of("PrepStmtSim", G=G, PLANS=plans, CONNS=conns), workers=1, timeout=3000,
            extra=["-simulate", "file=%s/sim/tr,num=%d" % (d, num), "-depth", str(depth), "-seed", str(seed)])
    scheds = []
    for f in sorted(glob.glob(os.path.join(d, "sim", "tr_*"))):
        first, last = lib.parse_sim_trace(f)
        hist = lib.state_var(last, "hist")
        if first is None or hist is None:
            continue
        scheds.append({"plan": lib.flat_records(lib.state_var(first, "plan")), "admin": lib.state_var(first, "admin").strip('"'), "conns": int(lib.state_var(first, "nconn")) % 99,
                       "hist": lib.flat_records(hist)})
    if len(scheds) < num // 2:
        raise lib.Inconclusive("TLC simulation produced %d behaviours, wanted %d" % (len(scheds), num))
    return scheds


def replay_scheds(vh, d, name, scheds):
    src = os.path.join(d, name + "-s.ndjson")
    out = os.path.join(d, name + "-o.ndjson")
    lib.write_ndjson(src, scheds)
    lib.run([vh, "ps-replay", "-cases", src, "-out", out], timeout=6000)
    return lib.read_ndjson(out)


def storm(vh, d, name, n, seed, plan=None, race=False):
    out = os.path.join(d, name + ".ndjson")
    cmd = [vh, "ps-storm", "-out", out, "-n", str(n), "-seed", str(seed)]
    if plan is not None:
        pf = os.path.join(d, name + "-plan.json")
        json.dump(plan, open(pf, "w"))
        cmd += ["-plan", pf]
    env = dict(lib.GOENV)
    racelog = os.path.join(d, name + "-race")
    if race:
        env["GORACE"] = "exitcode=0 log_path=%s" % racelog
    lib.run(cmd, timeout=6000, env=env)
    races = []
    for f in glob.glob(racelog + ".*"):
        races += race_pairs(open(f).read())
    return lib.read_ndjson(out), races


def race_pairs(text):
    """Normalise race detector reports to pairs of racing functions."""
    out = []
    for rep in text.split("WARNING: DATA RACE")[1:]:
        fns = re.findall(r"^(?:Write|Read|Previous write|Previous read) at .*?\n\s+(\S+)\(", rep, flags=re.M)
        out.append(tuple(sorted(set(fns))))
    return out


def validate(w, name, rows):
    v, st, tr = lib.tlc_trace(w, name, "Trace_PrepStmt", lib.cfg_of("Trace_PrepStmt"), rows, chunk=400)
    v.setdefault("bad", [])
    return v, st, tr


def signature(b):
    if b["complete"] and b["noleak"] and b["once"] and b["asmodel"] and not b["transparent"] and b["f7a"]:
        return "stmt_closed_under_holder"
    return None


def describe(e, b):
    o = e.get("obs", e)
    s = "ok(complete,noleak,transparent,once,follows-model)=%s%s plan=%s admin=%s pool=%s results=%s prepares=%s leaked=%s" % (
        (b["complete"], b["noleak"], b["transparent"], b["once"], b["asmodel"]), (" [" + b["why"] + " diverged at step %d]" % b["sd"]) if b["why"] else "",
        [(p["q"], "tx" if p["tx"] else "db", p["prep"], p["use"]) for p in e["plan"]], e["admin"], e["conns"] or "unlimited", o["res"], o["prepares"], o["leaked"])
    if e["ev"] == "PS":
        s += "\n    schedule=%s" % " ".join("%s(%d)" % (st["a"], st["g"]) for st in e["hist"])
        if o["drift"]:
            s += "\n    " + o["drift"]
    return s


def check(w, tier, t0):
    vh = lib.build_harness()
    sd = lib.seed()
    verdict = lib.Verdict(PROP)
    quick = tier == "quick"
    # 1. the protocol model: every interleaving
    d = w.sub("mc")
    G, plans = ("{1, 2}", "PlansAll") if quick else ("{1, 2, 3}", "PlansSmall")
    r = lib.tlc(d, "PrepStmtMC", lib.cfg_of("PrepStmt", G=G, PLANS=plans, FIXB="TRUE", FIXC="TRUE", CONNS="{1, 2}", NOLEAK="INVARIANT NoLeak"), timeout=6000)
    if not r.ok:
        raise lib.Inconclusive("PrepStmt model run failed:\n" + (r.error or ""))
    states, trans = r.distinct, r.generated
    # sensitivity of the model: deleting whatever entry is cached (the code before fix 48f9c6a) leaks
    r0 = lib.tlc(w.sub("mc0"), "PrepStmtMC", lib.cfg_of("PrepStmt", G="{1, 2}", PLANS="PlansAll", FIXB="FALSE", FIXC="TRUE", CONNS="{2}", NOLEAK="INVARIANT NoLeak"), timeout=3000)
    if "NoLeak" not in r0.invariant_violated:
        raise lib.Inconclusive("model self-test: deletion by text (FixB = FALSE) should violate NoLeak")
    # ... and a transaction waiting for a pool-level preparation (the code before fix 3375c27) deadlocks on an exhausted pool
    r1 = lib.tlc(w.sub("mc1"), "PrepStmtMC", lib.cfg_of("PrepStmt", G="{1, 2}", PLANS="PlansAll", FIXB="TRUE", FIXC="FALSE", CONNS="{1}", NOLEAK="INVARIANT NoLeak"), timeout=3000)
    if "Deadlock reached" not in r1.out:
        raise lib.Inconclusive("model self-test: waiting transactions (FixC = FALSE) should deadlock with one connection")
    # 2. direction A: TLC behaviours replayed on the real cache
    d = w.sub("run")
    scheds = simulate(w, "sim3", "{1, 2, 3}", "PlansAll", 300 if quick else 3000, 45, sd)
    if not quick:
        scheds += simulate(w, "sim4", "{1, 2, 3, 4}", "PlansAll", 2000, 60, sd + 1)
        scheds += simulate(w, "sim2", "{1, 2}", "PlansAll", 1000, 30, sd + 2)
    events = replay_scheds(vh, d, "A", scheds)
    # 3. direction B: storms
    vhs = vh if quick else lib.build_harness(race=True)
    srows, races = storm(vhs, d, "B", 150 if quick else 1500, sd, race=not quick)
    allrows = events + srows
    v, st, tr = validate(w, "V", allrows)
    states += st
    trans += tr
    for b in v["bad"]:
        e = allrows[b["i"] - 1]
        case = {"kind": "storm", "plan": e["plan"], "admin": e["admin"], "conns": e["conns"]} if e["ev"] == "Storm" else \
               {"kind": "schedule", "plan": e["plan"], "admin": e["admin"], "conns": e["conns"], "hist": [{"g": s["g"], "a": s["a"]} for s in scheds[e["case"] - 1]["hist"]]}
        verdict.bad(case, signature(b), describe(e, b))
    for pair in sorted(set(races)):
        verdict.bad({"kind": "race", "functions": list(pair)}, None, "data race between " + " / ".join(pair))

    def reproduce(case):
        dd = w.sub("repro-" + lib.case_hash(case))
        if case["kind"] == "schedule":
            rows = replay_scheds(vh, dd, "r", [case])
        elif case["kind"] == "storm":
            rows, _ = storm(vh, dd, "r", 60, 1, plan=case)
        else:
            _, rc_ = storm(lib.build_harness(race=True), dd, "r", 600, 1, race=True)
            return tuple(case["functions"]) in set(rc_)
        vv, _, _ = validate(w, "R" + lib.case_hash(case), rows)
        return any(signature(b) is None for b in vv["bad"])
    rc = verdict.finish(reproduce)
    follow = sum(1 for e in events if e["obs"]["drift"] == "")
    distinct = {lib.case_hash([e["plan"], e["admin"], e["conns"], [(x["g"], x["a"]) for x in e["hist"]]]) for e in events}
    samples = [{"plan": e["plan"], "admin": e["admin"], "pool": e["conns"], "schedule": " ".join("%s(%d)" % (x["a"], x["g"]) for x in e["hist"]), "results": e["obs"]["res"]}
               for e in (events[0], events[len(events) // 2])]
    cov = {"states": states, "transitions": trans, "traces_validated_against_impl": len(allrows), "samples": samples,
           "evaluations": len(allrows), "distinct_nontrivial": len(distinct),
           "rule": "one evaluation = one TLC-generated behaviour of PrepStmt.tla (goroutine plans text x direct/transaction x prepare ok/fail x use ok/ErrBadConn, Reset/Close at any point, pool of 1, 2 or unlimited connections) forced onto the real PreparedStmtDB step by step through gates at the instrumentation points, or one free-running storm of 2-8 goroutines; distinct = different (plans, admin, pool, schedule)",
           "schedules_replayed": len(events), "schedules_followed_by_code": follow, "storm_runs": len(srows), "race_detector": not quick,
           "steps_replayed": sum(len(e["hist"]) for e in events),
           "results_seen": sorted({x for e in events for x in e["obs"]["res"]} | {x for e in srows for x in e["res"]}),
           "model": "G=%s, %s, Reset/Close at every point; sensitivity run FixB=FALSE violates NoLeak as expected" % (G, plans),
           "exhaustive": False}
    lib.write_evidence(PROP, tier, "model_checking", cov, time.time() - t0, len(verdict.violations),
                       ["the driver is the recording SQLite wrapper: Prepare failures and ErrBadConn are injected per goroutine plan",
                        "'same rows as in non-prepared mode' is decided through the result class of each operation (ok / injected fault / clean error); row contents of prepared statements are compared in C01/C05",
                        "the eviction's 'go stmt.Close()' has no instrumentation point; replayed schedules run it right after the eviction, the exhaustive model keeps it asynchronous"])
    return rc


def replay(w, path):
    vh = lib.build_harness()
    case = json.load(open(path))
    d = w.sub("replay")
    if case["kind"] == "race":
        _, races = storm(lib.build_harness(race=True), d, "r", 600, 1, race=True)
        if tuple(case["functions"]) in set(races):
            print("VIOLATION property=%s replay=%s" % (PROP, path))
            return 1
        print("no violation")
        return 0
    rows = replay_scheds(vh, d, "r", [case]) if case["kind"] == "schedule" else storm(vh, d, "r", 60, 1, plan=case)[0]
    v, _, _ = validate(w, "R", rows)
    bad = [b for b in v["bad"] if signature(b) is None]
    if bad:
        print("VIOLATION property=%s replay=%s" % (PROP, path))
        print("  " + describe(rows[bad[0]["i"] - 1], bad[0]))
        return 1
    print("no violation")
    return 0
