from . import pipefam


def check(w, tier, t0):
    return pipefam.check("C18", w, tier, t0)


def replay(w, path):
    return pipefam.replay("C18", w, path)
