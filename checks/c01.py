from . import bindfam


def check(w, tier, t0):
    return bindfam.check("C01", w, tier, t0)


def replay(w, path):
    return bindfam.replay("C01", w, path)
