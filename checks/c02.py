from . import condfam


def check(w, tier, t0):
    return condfam.check("C02", w, tier, t0)


def replay(w, path):
    return condfam.replay("C02", w, path)
