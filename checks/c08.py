from . import condfam


def check(w, tier, t0):
    return condfam.check("C08", w, tier, t0)


def replay(w, path):
    return condfam.replay("C08", w, path)
