"""C04 -- transaction blocks commit everything on success and nothing on error or panic.
spec/Tx.tla: snapshot-stack machine (Step) + declarative statement (Survives/Expected);
TLC explores every program up to the bounds (invariant: machine = statement), every finished
program of the state graph is replayed on real gorm transactions (direction A), random deeper
programs incl. manual Begin/SavePoint/RollbackTo over all 8 configurations (direction B);
spec/Trace_Tx.tla re-runs each recorded program on the machine and judges the observation."""
import json
import os
import time
from concurrent.futures import ThreadPoolExecutor

from . import lib

PROP = "C04"


def complete(h):
    d = 0
    for a in h:
        if a["op"] == "enter" and not a["f"]:
            d += 1
        elif a["op"] == "exit":
            d -= 1
        elif a["op"] == "mbegin":
            d = 1
        elif a["op"] in ("mcommit", "mrollback"):
            d = 0
    return bool(h) and d == 0


def cfg_str(e):
    return ",".join(k for k in ("prep", "nonest", "skipdef") if e[k])


def validate(w, name, rows):
    v, st, tr = lib.tlc_trace(w, name, "Trace_Tx", lib.cfg_of("Trace_Tx"), rows, chunk=1500)
    v.setdefault("bad", [])
    return v, st, tr


def run_one(w, vh, case, name):
    d = w.sub(name)
    lib.write_ndjson(os.path.join(d, "p.ndjson"), [{"prog": case["prog"]}])
    lib.run([vh, "tx-replay", "-cases", os.path.join(d, "p.ndjson"), "-out", os.path.join(d, "o.ndjson"), "-cfgs", case["cfg"]])
    rows = lib.read_ndjson(os.path.join(d, "o.ndjson"))
    v, _, _ = validate(w, name, rows)
    return v, rows


def describe(e, b):
    return "cfg=[%s] result=%s (expected %s) rows=%s reads=%s inuse=%s opentx=%s ok(rows,result,conn,reads)=%s %s" % (
        cfg_str(e), e["result"], b["exp_result"], e["rows"], e["reads"], e["inuse"], e["opentx"],
        (b["rows"], b["result"], b["conn"], b["reads"]), e["text"][:120])


def check(w, tier, t0):
    vh = lib.build_harness()
    sd = lib.seed()
    verdict = lib.Verdict(PROP)
    if tier == "quick":
        spaces = [(dict(MAXACTS=7, MAXWRITES=3, MAXDEPTH=3, MAXBLOCKS=3, NESTED="TRUE", FAULTS="TRUE", VIAS='{"", "prep"}'), ";prep"),
                  (dict(MAXACTS=7, MAXWRITES=3, MAXDEPTH=3, MAXBLOCKS=3, NESTED="FALSE", FAULTS="TRUE", VIAS='{""}'), "nonest;nonest,prep,skipdef")]
        nrand = 3000
    else:
        spaces = [(dict(MAXACTS=10, MAXWRITES=3, MAXDEPTH=3, MAXBLOCKS=4, NESTED="TRUE", FAULTS="TRUE", VIAS='{"", "prep"}'), ";prep;skipdef;prep,skipdef"),
                  (dict(MAXACTS=9, MAXWRITES=3, MAXDEPTH=3, MAXBLOCKS=4, NESTED="FALSE", FAULTS="TRUE", VIAS='{"", "prep"}'), "nonest;nonest,prep;nonest,skipdef;nonest,prep,skipdef")]
        nrand = 60000
    states = trans = 0
    events = []
    nprogs = 0
    for k, (sp, cfgs) in enumerate(spaces):
        d = w.sub("gen%d" % k)
        r = lib.tlc(d, "Tx", lib.cfg_of("Tx", **sp), timeout=7000, extra=["-dump", "states.dump"])
        if not r.ok:
            raise lib.Inconclusive("Tx model run failed:\n" + (r.error or ""))
        states += r.distinct
        trans += r.generated
        progs = [{"prog": h} for h in lib.parse_dump_records(os.path.join(d, "states.dump"), "hist") if complete(h)]
        nprogs += len(progs)
        pf = os.path.join(d, "progs.ndjson")
        lib.write_ndjson(pf, progs)
        nproc = min(lib.NCPU, max(1, len(progs) // 500))
        step = (len(progs) + nproc - 1) // nproc

        def rep(j):
            out = os.path.join(d, "obs%d.ndjson" % j)
            lib.run([vh, "tx-replay", "-cases", pf, "-out", out, "-cfgs", cfgs, "-from", str(j * step), "-to", str(min(len(progs), (j + 1) * step))], timeout=7000)
            return lib.read_ndjson(out)
        with ThreadPoolExecutor(max_workers=nproc) as ex:
            for part in ex.map(rep, range(nproc)):
                events += part
    d = w.sub("rand")
    nproc = min(lib.NCPU, max(1, nrand // 1000))

    def rnd(j):
        out = os.path.join(d, "r%d.ndjson" % j)
        lib.run([vh, "tx-random", "-out", out, "-n", str(nrand // nproc), "-seed", str(sd * 1000 + j)], timeout=7000)
        return lib.read_ndjson(out)
    with ThreadPoolExecutor(max_workers=nproc) as ex:
        for part in ex.map(rnd, range(nproc)):
            events += part
    v, st, tr = validate(w, "V", events)
    states += st
    trans += tr
    distinct, nontrivial = set(), set()
    for e in events:
        h = lib.case_hash([e["rprog"], cfg_str(e)])
        distinct.add(h)
        ops = [a["op"] for a in e["prog"]]
        if ops.count("enter") >= 2 or any(a.get("f") for a in e["prog"]) or "msave" in ops:
            nontrivial.add(h)
    for b in v["bad"]:
        e = events[b["i"] - 1]
        verdict.bad({"prog": json.loads(e["rprog"]), "cfg": cfg_str(e)}, None, describe(e, b))

    def reproduce(case):
        vv, _ = run_one(w, vh, case, "repro-" + lib.case_hash(case))
        return len(vv["bad"]) > 0
    rc = verdict.finish(reproduce)
    samples = [{k: x[k] for k in ("prep", "nonest", "skipdef", "prog", "result", "rows", "reads", "inuse", "opentx")} for x in (events[len(events) // 2], events[-1])]
    cov = {"states": states, "transitions": trans, "traces_validated_against_impl": len(events), "samples": samples,
           "evaluations": len(events), "distinct_nontrivial": len(nontrivial),
           "rule": "one evaluation = one transaction program (tree of Transaction blocks with writes/reads between children, outcome nil/error/panic per block, parents swallowing or propagating, at most one driver fault at BEGIN/SAVEPOINT/INSERT/COMMIT; or a manual Begin/SavePoint/RollbackTo/Commit/Rollback sequence) executed under one configuration; %d finished programs from the TLC state graphs %s + %d random programs over all 8 configurations; non-trivial = nested block, fault or save point" % (nprogs, [s for s, _ in spaces], nrand),
           "exhaustive": True, "programs_enumerated": nprogs, "random_programs": nrand}
    lib.write_evidence(PROP, tier, "model_checking", cov, time.time() - t0, len(verdict.violations),
                       ["SAVEPOINT / ROLLBACK TO errors are reported by a thin dialector wrapper (hx.StrictSP): the official dialectors swallow them, which hides gorm's own error path",
                        "a refused COMMIT rolls the inner SQLite transaction back (what a database does)", "faults at ROLLBACK / ROLLBACK TO are not injected"])
    return rc


def replay(w, path):
    vh = lib.build_harness()
    case = json.load(open(path))
    v, rows = run_one(w, vh, case, "replay")
    if v["bad"]:
        print("VIOLATION property=%s replay=%s" % (PROP, path))
        print("  " + describe(rows[0], v["bad"][0]))
        return 1
    print("no violation:", rows[0]["result"], rows[0]["rows"])
    return 0
