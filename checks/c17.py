"""C17 -- callback registration honours Before/After and never disturbs the built-in order.

1. TLC model-checks spec/Callbacks.tla over the bounded space of registration histories
   (invariant: the transcription of sortCallbacks is Valid or a named deviation) and, in the same
   run, writes every history as a case (CallbacksGen).
2. Direction A: the harness replays every history on the real registry (recording stubs).
3. Direction B: seeded random longer histories over all six pipelines, same replay.
4. TLC (Trace_Callbacks) consumes every observation; the property-level predicate Valid decides,
   the transcription Impl is compared for drift, named deviations are tagged."""
import json
import os
import time

from . import lib

PROP = "C17"


def evaluate(w, vh, cases, name):
    """cases: list of {nb, pipeline, user}. Returns (verdict dict, observations, states, trans)."""
    d = w.sub(name)
    lib.write_ndjson(os.path.join(d, "cases.ndjson"), cases)
    lib.run([vh, "c17-replay", "-cases", os.path.join(d, "cases.ndjson"), "-out", os.path.join(d, "obs.ndjson")], timeout=3000)
    obs = lib.read_ndjson(os.path.join(d, "obs.ndjson"))
    if len(obs) != len(cases):
        raise lib.Inconclusive("c17: %d observations for %d cases" % (len(obs), len(cases)))
    v, st, tr = lib.tlc_trace(w, name, "Trace_Callbacks", lib.cfg_of("Trace_Callbacks"), obs)
    v.setdefault("bad", [])
    v.setdefault("drift", [])
    return v, obs, (st, tr)


def judge(verdict, v, obs):
    for b in v["bad"]:
        o = obs[b["i"] - 1]
        case = {"nb": o["nb"], "pipeline": o["pipeline"], "user": o["user"]}
        why = "observed err=%s crash=%s order=%s" % (o["err"], o["crash"], o["order"])
        # a named deviation is accepted only if the real code behaves exactly like the transcription
        sig = b["tag"] if (b["tag"] != "none" and b["as_model"]) else None
        verdict.bad(case, sig, why)


def reproduce_fn(w, vh):
    def f(case):
        v, obs, _ = evaluate(w, vh, [case], "repro-" + lib.case_hash(case))
        return len(v["bad"]) > 0
    return f


def check(w, tier, t0):
    vh = lib.build_harness()
    sd = lib.seed()
    verdict = lib.Verdict(PROP)
    if tier == "quick":
        spaces = [dict(NB=3, MAXLEN=3, BOTH="FALSE", pipeline="query"),
                  dict(NB=1, MAXLEN=2, BOTH="TRUE", pipeline="row")]
        nrandom, maxlen = 400, 8
    else:
        spaces = [dict(NB=3, MAXLEN=3, BOTH="TRUE", pipeline="query"),     # 301 k histories
                  dict(NB=1, MAXLEN=3, BOTH="TRUE", pipeline="raw"),        # 51 k
                  dict(NB=7, MAXLEN=3, BOTH="FALSE", pipeline="create"),    # 15 k
                  dict(NB=6, MAXLEN=3, BOTH="FALSE", pipeline="delete"),
                  dict(NB=8, MAXLEN=2, BOTH="TRUE", pipeline="update")]
        nrandom, maxlen = 30000, 8
    states = trans = 0
    validated = 0
    drift_total = 0
    samples = []
    allcases = set()
    nontrivial = set()
    for k, sp in enumerate(spaces):
        d = w.sub("gen%d" % k)
        # one TLC run: exhaustive check of the design-level invariant on the transcription AND
        # enumeration of the history space (every reachable state is one history, -dump)
        r = lib.tlc(d, "Callbacks", lib.cfg_of("Callbacks", NB=sp["NB"], MAXLEN=sp["MAXLEN"], BOTH=sp["BOTH"]),
                    timeout=6000, extra=["-dump", "states.dump", "-continue"])
        if r.invariant_violated:
            # a counterexample on the implementation-shaped model is a lead, not a verdict (rule 2);
            # the replay of the whole space below decides.
            verdict.notes.append("model invariant %s failed for space %s (lead; replay decides)" % (sorted(set(r.invariant_violated)), sp))
        elif not r.ok:
            raise lib.Inconclusive("Callbacks model run failed:\n" + (r.error or ""))
        states += r.distinct
        trans += r.generated
        cases = [{"nb": sp["NB"], "pipeline": sp["pipeline"], "user": u} for u in lib.parse_dump_records(os.path.join(d, "states.dump"), "user")]
        if len(cases) != r.distinct:
            raise lib.Inconclusive("dump has %d states, TLC reported %d" % (len(cases), r.distinct))
        v, obs, (st2, tr2) = evaluate(w, vh, cases, "A%d" % k)
        states += st2
        trans += tr2
        judge(verdict, v, obs)
        validated += len(obs)
        drift_total += len(v["drift"])
        for c in cases:
            h = lib.case_hash(c)
            allcases.add(h)
            if len(c["user"]) >= 2 and any(r_["before"] or r_["after"] for r_ in c["user"]):
                nontrivial.add(h)
        samples.append(obs[len(obs) // 2])
    # direction B
    d = w.sub("rand")
    lib.run([vh, "c17-random", "-out", os.path.join(d, "rcases.ndjson"), "-n", str(nrandom), "-maxlen", str(maxlen), "-seed", str(sd)])
    rcases = lib.read_ndjson(os.path.join(d, "rcases.ndjson"))
    v, obs, (st2, tr2) = evaluate(w, vh, rcases, "B")
    states += st2
    trans += tr2
    judge(verdict, v, obs)
    validated += len(obs)
    drift_total += len(v["drift"])
    for c in rcases:
        h = lib.case_hash(c)
        allcases.add(h)
        if len(c["user"]) >= 2 and any(r_["before"] or r_["after"] for r_ in c["user"]):
            nontrivial.add(h)
    samples.append(obs[0])
    rc = verdict.finish(reproduce_fn(w, vh))
    cov = {"states": states, "transitions": trans, "traces_validated_against_impl": validated,
           "samples": samples, "evaluations": validated, "distinct_nontrivial": len(nontrivial),
           "rule": "histories of Register/Before/After/Replace/Remove calls: exhaustive spaces %s enumerated by TLC plus %d seeded random histories of length <= %d over all six pipelines; distinct = hash of (pipeline, history); non-trivial = at least two user calls and at least one Before/After constraint" % (spaces, nrandom, maxlen),
           "exhaustive": True,
           "impl_model_conformant": drift_total == 0, "impl_model_drift_cases": drift_total,
           "known_finding_cases": verdict.known_hits, "notes": verdict.notes}
    lib.write_evidence(PROP, tier, "model_checking", cov, time.time() - t0, len(verdict.violations),
                       ["recording stubs registered under names b1..bn stand for the built-in callbacks",
                        "TLC and the Json community module", "a violation tagged as a named deviation is accepted only when the real code behaves exactly as the transcription predicts"])
    return rc


def replay(w, path):
    vh = lib.build_harness()
    case = json.load(open(path))
    v, obs, _ = evaluate(w, vh, [case], "replay")
    known = lib.known_findings(PROP)
    if v["bad"]:
        b = v["bad"][0]
        if b["tag"] in known and b["as_model"]:
            print("KNOWN-FINDING: property=%s %s" % (PROP, known[b["tag"]]["what"]))
            return 0
        print("VIOLATION property=%s replay=%s" % (PROP, path))
        print("  observed:", json.dumps(obs[0]))
        return 1
    print("no violation: ", json.dumps(obs[0]))
    return 0
