"""C10 -- a write touches only permitted, selected columns of exactly the targeted rows.
spec/WriteSet.tla: the documented write-set rules (Written) with design-level invariants
model-checked over all 2-field models x operations x Select/Omit sets x payloads;
harness/wset executes writes on generated model types (reflect.StructOf with permission tags);
spec/Trace_WriteSet.tla compares the cell diff of the table with the predicted write set."""
import json
import os
import time
from concurrent.futures import ThreadPoolExecutor

from . import lib

PROP = "C10"


def validate(w, name, rows):
    v, st, tr = lib.tlc_trace(w, name, "Trace_WriteSet", lib.cfg_of("Trace_WriteSet"), rows, chunk=300)
    v.setdefault("bad", [])
    return v, st, tr


def describe(e, b):
    return "op=%s model=%s pay=%s sel=%s star=%s omit=%s colspelling=%s expected=%s observed=%s ok(cols,rows,now,err)=%s" % (
        e["op"], [(f["name"], f["perm"], "auto" if f["auto"] else "") for f in e["model"]],
        [(p["f"], "zero" if p["zero"] else "val") for p in e["pay"]], e["sel"], e["star"], e["omit"], e["colspelling"],
        sorted(b["exp"]), e["obs"], (b["cols"], b["rows"], b["now"], b["ok"]))


def gen(vh, d, name, n, seed, only=0):
    out = os.path.join(d, name + ".ndjson")
    cmd = [vh, "wset-random", "-out", out, "-n", str(n), "-seed", str(seed)]
    if only:
        cmd += ["-only", str(only)]
    lib.run(cmd, timeout=6000)
    rows = lib.read_ndjson(out)
    for r in rows:
        r["_src"] = [n, seed]
    return rows


def check(w, tier, t0):
    vh = lib.build_harness()
    sd = lib.seed()
    verdict = lib.Verdict(PROP)
    d = w.sub("mc")
    r = lib.tlc(d, "WriteSet", lib.cfg_of("WriteSet"), timeout=3000, extra=["-dump", "states.dump"])
    if not r.ok:
        raise lib.Inconclusive("WriteSet model run failed:\n" + (r.error or ""))
    states, trans = r.distinct, r.generated
    # direction A: the (model, write) states TLC explored are executed on generated two-field model types
    # (thorough: every state; quick: every 40th)
    cases = [{"model": st["m"], "write": st["w"]} for st in lib.parse_dump_states(os.path.join(d, "states.dump"), ["m", "w"])]
    cases.sort(key=lambda c: json.dumps(c["model"], sort_keys=True))
    if tier == "quick":
        cases = cases[sd % 40::40]
    nstates = len(cases)
    n = 400 if tier == "quick" else 60000
    d = w.sub("run")
    events = []

    def rep(a):
        j, part = a
        f, o = os.path.join(d, "s%d.ndjson" % j), os.path.join(d, "so%d.ndjson" % j)
        lib.write_ndjson(f, part)
        lib.run([vh, "wset-replay", "-cases", f, "-out", o], timeout=6000)
        rows = lib.read_ndjson(o)
        for x in rows:
            x["_src"] = ["state", part[x["case"] - 1]]
        return rows
    step = max(1, (len(cases) + 15) // 16)
    with ThreadPoolExecutor(max_workers=lib.NCPU) as ex:
        for part in ex.map(rep, enumerate([cases[i:i + step] for i in range(0, len(cases), step)])):
            events += part
    nreplayed = len(events)
    with ThreadPoolExecutor(max_workers=8) as ex:
        for part in ex.map(lambda j: gen(vh, d, "w%d" % j, n, sd * 1000 + j), range(8)):
            events += part
    v, st, tr = validate(w, "V", events)
    states += st
    trans += tr
    for b in v["bad"]:
        e = events[b["i"] - 1]
        verdict.bad({"src": e["_src"], "case": e["case"]}, None, describe(e, b))

    def reproduce(case):
        if case["src"][0] == "state":
            dd = w.sub("repro-" + lib.case_hash(case))
            lib.write_ndjson(os.path.join(dd, "s.ndjson"), [case["src"][1]])
            lib.run([vh, "wset-replay", "-cases", os.path.join(dd, "s.ndjson"), "-out", os.path.join(dd, "o.ndjson")])
            vv, _, _ = validate(w, "R" + lib.case_hash(case), lib.read_ndjson(os.path.join(dd, "o.ndjson")))
            return len(vv["bad"]) > 0
        rows = gen(vh, w.sub("repro-" + lib.case_hash(case)), "r", case["src"][0], case["src"][1], only=case["case"])
        vv, _, _ = validate(w, "R" + lib.case_hash(case), rows)
        return len(vv["bad"]) > 0
    rc = verdict.finish(reproduce)
    key = lambda e: lib.case_hash([e["model"], e["op"], e["pay"], e["sel"], e["star"], e["omit"], e["colspelling"]])
    nontrivial = {key(e) for e in events if e["sel"] or e["omit"] or e["star"] or any(f["perm"] != "rw" for f in e["model"])}
    samples = [{k: e[k] for k in ("model", "op", "pay", "sel", "star", "omit", "colspelling", "obs")} for e in (events[1], events[len(events) // 2])]
    cov = {"states": states, "transitions": trans, "traces_validated_against_impl": len(events), "samples": samples,
           "evaluations": len(events), "distinct_nontrivial": len(nontrivial),
           "rule": "one evaluation = one write (Updates struct/map, Update, UpdateColumns struct/map, UpdateColumn, Save, Create struct/map, upsert UpdateAll) on a generated model type (4 integer fields with random permission tags <-:create, <-:update, <-:false, ->, -, -:migration and an optional autoUpdateTime:nano field) with random zero/non-zero payload entries, Select (names, '*') / Omit sets in field or column spelling, on a 3-row table with one target row; plus direction A: the (two-field model, write) states of the TLC state graph executed on generated types (thorough: all, quick: every 40th; states outside the driver's domain skipped); the cell-by-cell diff is compared with WriteSet.Written; non-trivial = a restricted permission or a Select/Omit",
           "exhaustive": tier != "quick", "states_replayed": nreplayed, "states_selected": nstates}
    lib.write_evidence(PROP, tier, "model_checking", cov, time.time() - t0, len(verdict.violations),
                       ["models are built with reflect.StructOf; tables are created by raw DDL", "an explicit DoUpdates naming a non-updatable column is outside the property",
                        "upsert is exercised through UpdateAll without Select; Create from a map never names an ignored field (gorm emits invalid SQL for it: observation F17)"])
    return rc


def replay(w, path):
    vh = lib.build_harness()
    case = json.load(open(path))
    if case["src"][0] == "state":
        dd = w.sub("replay")
        lib.write_ndjson(os.path.join(dd, "s.ndjson"), [case["src"][1]])
        lib.run([vh, "wset-replay", "-cases", os.path.join(dd, "s.ndjson"), "-out", os.path.join(dd, "o.ndjson")])
        rows = lib.read_ndjson(os.path.join(dd, "o.ndjson"))
    else:
        rows = gen(vh, w.sub("replay"), "r", case["src"][0], case["src"][1], only=case["case"])
    v, _, _ = validate(w, "R", rows)
    if v["bad"]:
        print("VIOLATION property=%s replay=%s" % (PROP, path))
        print("  " + describe(rows[0], v["bad"][0]))
        return 1
    print("no violation")
    return 0
