"""C03 -- what Create stores is what queries load back, for every field kind and schema.
spec/RoundTrip.tla (token equality per record x column, declared defaults / auto-times, key of the
storing row on the in-memory record, key back-fill arithmetic of the three create paths model-checked
by TLC); harness/rtrip generates model types from the grammar with reflect.StructOf, writes records
with Create / slice / pointer slice / CreateInBatches / maps and reads them back; Trace_RoundTrip.tla."""
import json
import os
import time
from concurrent.futures import ThreadPoolExecutor

from . import lib

PROP = "C03"


def validate(w, name, rows):
    v, st, tr = lib.tlc_trace(w, name, "Trace_RoundTrip", lib.cfg_of("Trace_RoundTrip"), rows, chunk=60)
    v.setdefault("bad", [])
    return v, st, tr


def gen(vh, d, name, n, seed, only=0):
    out = os.path.join(d, name + ".ndjson")
    cmd = [vh, "rtrip-random", "-out", out, "-n", str(n), "-seed", str(seed)]
    if only:
        cmd += ["-only", str(only)]
    lib.run(cmd, timeout=6000)
    rows = lib.read_ndjson(out)
    for r in rows:
        r["_src"] = [n, seed]
    return rows


def describe(e, b):
    out = "mode=%s dialect=%s keymode=%s preset=%s err=%s nfound=%s/%s" % (e["mode"], e["dialect"], e["keymode"], e["preset"], e["err"][:150], e["nfound"], len(e["recs"]))
    for mk, fn in b["fields"][:3]:
        r = [x for x in e["recs"] if x["mk"] == mk][0]
        f = [x for x in e["model"] if x["name"] == fn][0]
        out += "\n    record %s field %s: given=%r zero=%s found=%r first=%r map=%r raw=%r mem=%r" % (
            mk, f, r["given"].get(fn), r["zero"].get(fn), r["found"].get(fn), r["first"].get(fn), r["map"].get(fn), r["raw"].get(fn), r["mem"].get(fn))
    return out


def pattern_rows(w, vh, case, name):
    dd = w.sub(name)
    # the case keeps its position (the driver seeds its generator with it)
    lib.write_ndjson(os.path.join(dd, "p.ndjson"), [{"preset": [], "path": "returning"}] * (case["case"] - 1) + [case["src"][1]])
    lib.run([vh, "rtrip-pattern", "-cases", os.path.join(dd, "p.ndjson"), "-out", os.path.join(dd, "o.ndjson")], timeout=600)
    return [x for x in lib.read_ndjson(os.path.join(dd, "o.ndjson")) if x["case"] == case["case"]]


def check(w, tier, t0):
    vh = lib.build_harness()
    sd = lib.seed()
    verdict = lib.Verdict(PROP)
    d = w.sub("mc")
    r = lib.tlc(d, "RoundTrip", lib.cfg_of("RoundTrip", MAXRECS=5 if tier == "quick" else 8), timeout=3000, extra=["-dump", "states.dump"])
    if not r.ok:
        raise lib.Inconclusive("RoundTrip model run failed:\n" + (r.error or ""))
    states, trans = r.distinct, r.generated
    # direction A: every (preset pattern, create path) state TLC explored, inside the documented domain
    pats = [{"preset": st["preset"], "path": st["path"]} for st in lib.parse_dump_states(os.path.join(d, "states.dump"), ["preset", "path"])]
    n = 60 if tier == "quick" else 10000
    d = w.sub("run")
    events = []
    lib.write_ndjson(os.path.join(d, "pats.ndjson"), pats)
    lib.run([vh, "rtrip-pattern", "-cases", os.path.join(d, "pats.ndjson"), "-out", os.path.join(d, "pats.out.ndjson")], timeout=6000)
    for e in lib.read_ndjson(os.path.join(d, "pats.out.ndjson")):
        e["_src"] = ["pattern", pats[e["case"] - 1]]
        events.append(e)
    npat = len(events)
    with ThreadPoolExecutor(max_workers=8) as ex:
        for part in ex.map(lambda j: gen(vh, d, "r%d" % j, n, sd * 1000 + j), range(8)):
            events += part
    v, st, tr = validate(w, "V", events)
    states += st
    trans += tr
    for b in v["bad"]:
        e = events[b["i"] - 1]
        verdict.bad({"src": e["_src"], "case": e["case"]}, None, describe(e, b))

    def reproduce(case):
        if case["src"][0] == "pattern":
            vv, _, _ = validate(w, "R" + lib.case_hash(case), pattern_rows(w, vh, case, "repro-" + lib.case_hash(case)))
            return len(vv["bad"]) > 0
        rows = gen(vh, w.sub("repro-" + lib.case_hash(case)), "r", case["src"][0], case["src"][1], only=case["case"])
        vv, _, _ = validate(w, "R" + lib.case_hash(case), rows)
        return len(vv["bad"]) > 0
    rc = verdict.finish(reproduce)
    kinds = set()
    nrec = 0
    for e in events:
        nrec += len(e["recs"])
        for f in e["model"]:
            kinds.add((f["kind"], bool(f["dflt"]), f["auto"], e["mode"], e["dialect"]))
    key = lambda e: lib.case_hash([e["model"], e["mode"], e["dialect"], e["keymode"], [r["given"] for r in e["recs"]]])
    nontrivial = {key(e) for e in events if len(e["recs"]) >= 2}
    samples = [{k: e[k] for k in ("model", "keymode", "mode", "dialect", "preset", "recs")} for e in (events[0],)]
    cov = {"states": states, "transitions": trans, "traces_validated_against_impl": len(events), "samples": samples,
           "evaluations": len(events), "distinct_nontrivial": len(nontrivial),
           "rule": "one evaluation = one generated model type (auto-increment / string / composite key, 3-7 fields drawn from %d kinds: signed/unsigned ints, floats, bool, string, bytes, time, pointers, sql.Null*, custom Scanner/Valuer types, json/gob/unixtime serializers, embedded struct with prefix; renamed columns, literal defaults, autoCreateTime/autoUpdateTime variants) with 1-5 records of boundary values written by Create single / slice / pointer slice / CreateInBatches / maps under RETURNING, LastInsertId-last and LastInsertId-first dialect variants and read back by Find into structs and maps and First; non-trivial = at least two records" % len({k[0] for k in kinds}),
           "records": nrec, "distinct_kind_tag_mode_dialect_combinations": len(kinds), "preset_patterns_replayed": npat}
    lib.write_evidence(PROP, tier, "model_checking", cov, time.time() - t0, len(verdict.violations),
                       ["the canonicalisation of Go values to tokens (harness/rtrip/types.go) is trusted: TLA+ decides token equality, defaults, key identity/order and back-fill arithmetic, not encode/decode fidelity itself",
                        "within one slice either all or none of the records carry a preset key on the LastInsertId paths",
                        "LastInsertId-first is simulated by the recording driver (SQLite reports the last row id)"])
    return rc


def replay(w, path):
    vh = lib.build_harness()
    case = json.load(open(path))
    if case["src"][0] == "pattern":
        rows = pattern_rows(w, vh, case, "replay")
    else:
        rows = gen(vh, w.sub("replay"), "r", case["src"][0], case["src"][1], only=case["case"])
    v, _, _ = validate(w, "R", rows)
    if v["bad"]:
        print("VIOLATION property=%s replay=%s" % (PROP, path))
        print("  " + describe(rows[0], v["bad"][0]))
        return 1
    print("no violation")
    return 0
