"""C06 -- reusable handles are never changed by the chains and queries derived from them.
spec/Handles.tla (a handle is its path; histories of derive / extend / session / finish over a
tree of reusable handles enumerated by TLC: direction A), harness/handles executes each history on
real handles and replays every finisher's path alone on a fresh gorm.Open; spec/Trace_Handles.tla
re-runs the history on the reference and requires obs = isolated for every finisher."""
import json
import os
import time
from concurrent.futures import ThreadPoolExecutor

from . import lib

PROP = "C06"


def validate(w, name, rows):
    v, st, tr = lib.tlc_trace(w, name, "Trace_Handles", lib.cfg_of("Trace_Handles"), rows, chunk=150)
    v.setdefault("bad", [])
    return v, st, tr


def describe(e, b):
    o = e["ops"][b["at"] - 1]
    return "%s finisher %s on path %s\n    shared handles: %s\n    isolated      : %s" % (
        "real" if e["real"] else "dryrun", o["m"], [(c["m"], c["n"]) for c in o["path"]], o["obs"][:400], o["iso"][:400])


def run_one(w, vh, case, name):
    d = w.sub(name)
    lib.write_ndjson(os.path.join(d, "h.ndjson"), [{"ops": case["ops"]}])
    cmd = [vh, "handles-replay", "-cases", os.path.join(d, "h.ndjson"), "-out", os.path.join(d, "o.ndjson")]
    if case["real"]:
        cmd.append("-real")
    lib.run(cmd)
    rows = lib.read_ndjson(os.path.join(d, "o.ndjson"))
    v, _, _ = validate(w, name, rows)
    return v, rows


def check(w, tier, t0):
    vh = lib.build_harness()
    sd = lib.seed()
    verdict = lib.Verdict(PROP)
    if tier == "quick":
        spaces = [dict(METHODS='{"Where", "Or", "Returning"}', HOWS='{"Session"}', FINISHERS='{"Find", "Count"}', MAXOPS=4, MAXHANDLES=2),
                  dict(METHODS='{"Model", "Order"}', HOWS='{"Session", "SessionNewDBCtx", "SessionNewDBSkipHooks"}', FINISHERS='{"Count", "Find", "Create"}', MAXOPS=4, MAXHANDLES=2),
                  dict(METHODS='{"Model", "Order"}', HOWS='{"Session"}', FINISHERS='{"Count", "Find"}', MAXOPS=5, MAXHANDLES=2),
                  dict(METHODS='{"SelectRel", "Where"}', HOWS='{"Session"}', FINISHERS='{"DeleteRec", "Find"}', MAXOPS=4, MAXHANDLES=2),
                  dict(METHODS='{"SelectField"}', HOWS='{"Session"}', FINISHERS='{"CountOther", "Find", "Count"}', MAXOPS=4, MAXHANDLES=2)]
        nrand = 800
    else:
        spaces = [dict(METHODS='{"Where", "Or", "Returning", "Joins"}', HOWS='{"Session", "WithContext"}', FINISHERS='{"Find", "Count", "Update"}', MAXOPS=5, MAXHANDLES=2),
                  dict(METHODS='{"Returning"}', HOWS='{"Session"}', FINISHERS='{"Update"}', MAXOPS=8, MAXHANDLES=2),
                  dict(METHODS='{"Model", "Order", "Where"}', HOWS='{"Session", "SessionCtx", "SessionNewDBCtx", "SessionNewDBSkipHooks", "SessionNewDBPrepare", "SessionFull"}',
                       FINISHERS='{"Count", "Find", "Create", "Pluck"}', MAXOPS=5, MAXHANDLES=2),
                  dict(METHODS='{"SelectRel", "SelectAssoc", "Where"}', HOWS='{"Session", "WithContext"}', FINISHERS='{"DeleteRec", "Find", "Delete"}', MAXOPS=5, MAXHANDLES=2),
                  dict(METHODS='{"Scopes"}', HOWS='{"Session"}', FINISHERS='{"Find"}', MAXOPS=7, MAXHANDLES=2)]
        nrand = 12000
    states = trans = 0
    events = []
    nhist = 0
    for k, sp in enumerate(spaces):
        d = w.sub("gen%d" % k)
        r = lib.tlc(d, "Handles", lib.cfg_of("Handles", **sp), timeout=6000, extra=["-dump", "states.dump"])
        if not r.ok:
            raise lib.Inconclusive("Handles model run failed:\n" + (r.error or ""))
        states += r.distinct
        trans += r.generated
        hs = [{"ops": h} for h in lib.parse_dump_records(os.path.join(d, "states.dump"), "hist") if h and h[-1]["op"] == "finish"]
        nhist += len(hs)
        hf = os.path.join(d, "h.ndjson")
        lib.write_ndjson(hf, hs)
        nproc = min(lib.NCPU, max(1, len(hs) // 300))
        step = (len(hs) + nproc - 1) // nproc

        def rep(j):
            out = os.path.join(d, "o%d.ndjson" % j)
            lib.run([vh, "handles-replay", "-cases", hf, "-out", out, "-from", str(j * step), "-to", str(min(len(hs), (j + 1) * step))], timeout=6000)
            return lib.read_ndjson(out)
        with ThreadPoolExecutor(max_workers=nproc) as ex:
            for part in ex.map(rep, range(nproc)):
                events += part
    d = w.sub("rand")

    def rnd(j):
        out = os.path.join(d, "r%d.ndjson" % j)
        lib.run([vh, "handles-random", "-out", out, "-n", str(nrand // 8), "-seed", str(sd * 1000 + j)], timeout=6000)
        return lib.read_ndjson(out)
    with ThreadPoolExecutor(max_workers=8) as ex:
        for part in ex.map(rnd, range(8)):
            events += part
    v, st, tr = validate(w, "V", events)
    states += st
    trans += tr
    for b in v["bad"]:
        e = events[b["i"] - 1]
        verdict.bad({"real": e["real"], "ops": json.loads(e["rops"])}, None, describe(e, b))

    def reproduce(case):
        vv, _ = run_one(w, vh, case, "repro-" + lib.case_hash(case))
        return len(vv["bad"]) > 0
    rc = verdict.finish(reproduce)
    nfin = sum(1 for e in events for o in e["ops"] if o["op"] == "finish")
    nontrivial = {lib.case_hash(e["rops"]) for e in events if sum(1 for o in e["ops"] if o["op"] in ("derive", "session")) >= 2}
    samples = [{"real": e["real"], "ops": e["ops"][:8]} for e in (events[len(events) // 2], events[-1])]
    cov = {"states": states, "transitions": trans, "traces_validated_against_impl": len(events), "samples": samples,
           "evaluations": nfin, "distinct_nontrivial": len(nontrivial),
           "rule": "one evaluation = one finisher executed from a handle of a history and compared with the same path replayed alone on a fresh gorm.Open; histories: %d from the TLC state graphs %s (every interleaving of derive/extend/session/finish) + %d random histories of 8-48 operations over Where/Or/Not/Select/Omit/Order/Limit/Offset/Group+Having/Having/Joins/Distinct/Unscoped/Scopes/Clauses(Returning, OrderBy, Locking, OnConflict)/Table (plain, aliased, reset)/Model/Attrs/Assign/Select of associations/Preload, every second a 'capacity pattern' (one appending method k times, a new handle, sibling chains appending once more before any is finished), handles re-created by Session (plain, NewDB, Context, SkipHooks, PrepareStmt and combinations)/WithContext/Debug, finishers in DryRun and for real on SQLite; non-trivial = at least two derivations/sessions" % (nhist, spaces, nrand),
           "exhaustive": True, "histories_enumerated": nhist}
    lib.write_evidence(PROP, tier, "model_checking", cov, time.time() - t0, len(verdict.violations),
                       ["a chain value is continued or finished once (re-using a non-reusable chain value is the documented misuse)", "fixed NowFunc",
                        "the observation is SQL text + bound values (+ result sizes), the context value, SkipHooks switch and connection-pool kind the finisher ran with and what the model hooks saw; for real runs the statements seen by the recording driver"])
    return rc


def replay(w, path):
    vh = lib.build_harness()
    case = json.load(open(path))
    v, rows = run_one(w, vh, case, "replay")
    if v["bad"]:
        print("VIOLATION property=%s replay=%s" % (PROP, path))
        print("  " + describe(rows[0], v["bad"][0]))
        return 1
    print("no violation")
    return 0
