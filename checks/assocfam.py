"""Eager loading (C11; join/preload/association part of C08): spec/Assoc.tla reference join,
spec/Trace_Assoc.tla validation of loads recorded by harness/assoc."""
import json
import os
import time
from concurrent.futures import ThreadPoolExecutor

from . import lib


def validate(w, name, rows):
    v, st, tr = lib.tlc_trace(w, name, "Trace_Assoc", lib.cfg_of("Trace_Assoc"), rows, chunk=400)
    v.setdefault("bad", [])
    return v, st, tr


def gen(vh, d, name, n, seed, fams):
    out = os.path.join(d, name + ".ndjson")
    lib.run([vh, "assoc-load", "-out", out, "-n", str(n), "-seed", str(seed), "-fams", fams], timeout=3000)
    rows = lib.read_ndjson(out)
    for r in rows:
        r["_seed"], r["_fams"] = seed, fams
    return rows


def describe(e, b):
    return "fam=%s op=%s path=%s unscoped=%s dup=%s cond=%s shape=%s err=%s ok(load,count,scope)=%s result=%s" % (
        e["fam"], e["op"], e["path"], e["unscoped"], e["dup"], e["cond"], e["shape"], e["err"][:80],
        (b["load"], b["count"], b["scope"]), json.dumps(e["result"])[:300])


def model_check(w, tier):
    d = w.sub("mc")
    r = lib.tlc(d, "AssocMC", lib.cfg_of("Assoc"), timeout=3000)
    if not r.ok:
        raise lib.Inconclusive("Assoc model run failed:\n" + (r.error or ""))
    return r.distinct, r.generated


def run_loads(w, vh, tier, fams, sd):
    n = 250 if tier == "quick" else 15000
    nproc = 8 if tier == "quick" else 16
    d = w.sub("loads")
    events = []
    with ThreadPoolExecutor(max_workers=nproc) as ex:
        for part in ex.map(lambda j: gen(vh, d, "a%d" % j, n, sd * 1000 + j, fams), range(nproc)):
            events += part
    return events


def case_of(e):
    return {"seed": e["_seed"], "fams": e["_fams"], "case": e["case"], "op": e["op"], "path": e["path"]}


def rerun(w, vh, case, name):
    rows = gen(vh, w.sub(name), "r", case["case"], case["seed"], case["fams"])
    rows = [r for r in rows if r["case"] == case["case"]]
    v, _, _ = validate(w, name, rows)
    return v, rows


def check(w, tier, t0):
    prop = "C11"
    vh = lib.build_harness()
    verdict = lib.Verdict(prop)
    states, trans = model_check(w, tier)
    events = run_loads(w, vh, tier, "soft,comp,self", lib.seed())
    v, st, tr = validate(w, "V", events)
    states += st
    trans += tr
    for b in v["bad"]:
        if not (b["load"] and b["count"]):
            e = events[b["i"] - 1]
            verdict.bad(case_of(e), None, describe(e, b))

    def reproduce(case):
        vv, _ = rerun(w, vh, case, "repro-" + lib.case_hash(case))
        return any(not (b["load"] and b["count"]) for b in vv["bad"])
    rc = verdict.finish(reproduce)
    distinct = {lib.case_hash([e["fam"], e["op"], e["path"], e["levels"], e["hops"], e["unscoped"], e["cond"], e["dup"]]) for e in events}
    nontrivial = {lib.case_hash([e["fam"], e["op"], e["path"], e["levels"], e["hops"], e["unscoped"], e["cond"], e["dup"]]) for e in events
                  if any(r["kids"] for r in e["result"])}
    samples = [{k: e[k] for k in ("fam", "op", "path", "unscoped", "dup", "cond", "shape", "levels", "hops", "result")} for e in (events[0], events[len(events) // 2])]
    cov = {"states": states, "transitions": trans, "traces_validated_against_impl": len(events), "samples": samples,
           "evaluations": len(events), "distinct_nontrivial": len(nontrivial),
           "rule": "one evaluation = one eager load (Preload single/nested/clause.Associations/with conditions or scope functions, association Joins / InnerJoins, Association().Find/Count) on a random data graph of one family: soft-delete chain with integer keys (belongs-to chain, has-many, has-one), composite string keys from an adversarial vocabulary (separators, 'nil', empty parts, NULL foreign keys; has-many, has-one, belongs-to, many-to-many with composite keys on both sides), self-referential tree + polymorphic owners; parents as slice / pointer slice / single struct, duplicate parents through a duplicating join; TLC recomputes the reference join from the raw tables; non-trivial = at least one child attached",
           "exhaustive": False}
    lib.write_evidence(prop, tier, "model_checking", cov, time.time() - t0, len(verdict.violations),
                       ["an all-zero primary key is 'unsaved' to gorm and is not generated", "the projection reads the association fields of the loaded structs",
                        "raw tables are written by the harness with database/sql, not through gorm"])
    return rc


def replay(w, path):
    vh = lib.build_harness()
    case = json.load(open(path))
    v, rows = rerun(w, vh, case, "replay")
    for b in v["bad"]:
        if not (b["load"] and b["count"]):
            print("VIOLATION property=C11 replay=%s" % path)
            print("  " + describe(rows[b["i"] - 1], b))
            return 1
    print("no violation")
    return 0
