"""C20 -- AutoMigrate is idempotent and never loses data.
spec/Migrate.tla (reference reconciler: Idempotent, Additive, Monotone, RowsKeepColumns model-checked;
HistoryOK judges a recorded history), harness/mig runs migrate(v1) -> insert -> migrate(v1) ->
migrate(v2) -> migrate(v2) -> write/read v2 over generated models; the recording driver classifies
every statement into DDL events; spec/Trace_Migrate.tla."""
import json
import os
import time
from concurrent.futures import ThreadPoolExecutor

from . import lib

PROP = "C20"


def validate(w, name, rows):
    v, st, tr = lib.tlc_trace(w, name, "Trace_Migrate", lib.cfg_of("Trace_Migrate"), rows, chunk=50)
    v.setdefault("bad", [])
    return v, st, tr


def gen(vh, d, name, n, seed, only=0):
    out = os.path.join(d, name + ".ndjson")
    cmd = [vh, "mig-random", "-out", out, "-n", str(n), "-seed", str(seed)]
    if only:
        cmd += ["-only", str(only)]
    lib.run(cmd, timeout=6000)
    rows = lib.read_ndjson(out)
    for r in rows:
        r["_src"] = [n, seed]
    return rows


def describe(e, b):
    if e["ev"] == "MigH":
        return "history of the state graph: " + "; ".join("want=%s have=%s ddl=%d err=%s rows=%s" % (st["want"], st["have"], st["nddl"], st["err"][:80], st["rows"]) for st in e["steps"])
    out = "ok(setup,idempotent,additive,data,accept,index-shape)=%s v1=%s added=%s index_added_on=%r accept=%s" % (
        (b["setup"], b["idem"], b["add"], b["data"], b["accept"], b.get("shape", True)), [(f["col"], f["type"], f["tags"], f["idx"]) for f in e["v1"]],
        [(f["col"], f["type"], f["tags"], f["idx"]) for f in e["added"]], e["added_index_on"], e["accept"][:120])
    for st in e["steps"]:
        out += "\n    %s err=%s ddl=%s" % (st["step"], st["err"][:100], [(d_["kind"], d_["object"]) for d_ in st["ddl"]][:10])
    return out


def hist_rows(w, vh, case, name):
    dd = w.sub(name)
    lib.write_ndjson(os.path.join(dd, "h.ndjson"), [case["src"][1]])
    lib.run([vh, "mig-hist", "-cases", os.path.join(dd, "h.ndjson"), "-out", os.path.join(dd, "o.ndjson")], timeout=600)
    return lib.read_ndjson(os.path.join(dd, "o.ndjson"))


def check(w, tier, t0):
    vh = lib.build_harness()
    sd = lib.seed()
    verdict = lib.Verdict(PROP)
    d = w.sub("mc")
    r = lib.tlc(d, "MigrateMC", lib.cfg_of("Migrate"), timeout=3000, extra=["-dump", "states.dump"])
    if not r.ok:
        raise lib.Inconclusive("Migrate model run failed:\n" + (r.error or ""))
    states, trans = r.distinct, r.generated
    # direction A: every migration history of the state graph (sequences of wanted element sets) on a real table
    seen, hists = set(), []
    for st in lib.parse_dump_states(os.path.join(d, "states.dump"), ["hist"]):
        wants = [h["want"] for h in (st["hist"] or [])]
        k = json.dumps(wants)
        if wants and k not in seen:
            seen.add(k)
            hists.append({"wants": wants})
    n = 40 if tier == "quick" else 8000
    d = w.sub("run")
    lib.write_ndjson(os.path.join(d, "hists.ndjson"), hists)
    lib.run([vh, "mig-hist", "-cases", os.path.join(d, "hists.ndjson"), "-out", os.path.join(d, "hists.out.ndjson")], timeout=6000)
    hevents = lib.read_ndjson(os.path.join(d, "hists.out.ndjson"))
    for e in hevents:
        e["_src"] = ["hist", hists[e["case"] - 1]]
    events = []
    with ThreadPoolExecutor(max_workers=8) as ex:
        for part in ex.map(lambda j: gen(vh, d, "m%d" % j, n, sd * 1000 + j), range(8)):
            events += part
    allev = hevents + events
    v, st, tr = validate(w, "V", allev)
    states += st
    trans += tr
    for b in v["bad"]:
        e = allev[b["i"] - 1]
        verdict.bad({"src": e["_src"], "case": e["case"]}, None, describe(e, b))

    def reproduce(case):
        if case["src"][0] == "hist":
            vv, _, _ = validate(w, "R" + lib.case_hash(case), hist_rows(w, vh, case, "repro-" + lib.case_hash(case)))
            return len(vv["bad"]) > 0
        rows = gen(vh, w.sub("repro-" + lib.case_hash(case)), "r", case["src"][0], case["src"][1], only=case["case"])
        vv, _, _ = validate(w, "R" + lib.case_hash(case), rows)
        return len(vv["bad"]) > 0
    rc = verdict.finish(reproduce)
    key = lambda e: lib.case_hash([e["v1"], e["added"], e["added_index_on"]])
    nontrivial = {key(e) for e in events if any(f["tags"] or f["idx"] for f in e["v1"] + e["added"])}
    samples = [{"v1": e["v1"], "added": e["added"], "added_index_on": e["added_index_on"],
                "steps": [{"step": s["step"], "ddl": [(x["kind"], x["object"]) for x in s["ddl"]]} for s in e["steps"]]} for e in (events[0], events[len(events) // 2])]
    cov = {"states": states, "transitions": trans, "traces_validated_against_impl": len(allev), "samples": samples,
           "evaluations": len(allev), "histories_of_the_state_graph_replayed": len(hevents), "distinct_nontrivial": len(nontrivial),
           "rule": "one evaluation = one history migrate(v1) -> insert 3 rows -> migrate(v1) -> migrate(v2) -> migrate(v2) -> create+read a v2 record on a generated model (1-4 fields of int/uint/string/bool/float/bytes/time/pointer/NullString kinds with size, default (string/int/bool/float/quoted/empty/null), not null, unique, index, uniqueIndex, composite index, check, type:, precision/scale, comment, renamed column, DeletedAt; v2 adds 1-2 fields and sometimes an index on an existing field); plus direction A: every history of <= 3 AutoMigrate calls of the TLC state graph over models wanting subsets of {column a, column b, index on a, check on a}, the schema elements read back after every call; every statement seen by the recording driver is classified into DDL events; table dumps after every step; non-trivial = some tag or index",
           "exhaustive": False}
    lib.write_evidence(PROP, tier, "model_checking", cov, time.time() - t0, len(verdict.violations),
                       ["column introspection and AlterColumn / constraint creation come from the external SQLite dialector",
                        "column names without spaces (the external migrator's DDL parser breaks on them: observation)",
                        "added fields carry no unique constraint (SQLite cannot ALTER TABLE ADD a UNIQUE column); a check constraint on an added field may be added by the dialect's table rebuild"])
    return rc


def replay(w, path):
    vh = lib.build_harness()
    case = json.load(open(path))
    if case["src"][0] == "hist":
        rows = hist_rows(w, vh, case, "replay")
    else:
        rows = gen(vh, w.sub("replay"), "r", case["src"][0], case["src"][1], only=case["case"])
    v, _, _ = validate(w, "R", rows)
    if v["bad"]:
        print("VIOLATION property=%s replay=%s" % (PROP, path))
        print("  " + describe(rows[0], v["bad"][0]))
        return 1
    print("no violation")
    return 0
