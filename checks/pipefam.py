"""Pipeline family (C05, C13, C18): spec/Pipeline.tla is an acceptor of the driver/hook events of
one operation; harness/ops runs every catalogue operation fault-free, with a fault at every
driver call index, with an error from every hook invocation, and under a cancelled context;
spec/Trace_Pipeline.tla validates every run."""
import json
import os
import time
from concurrent.futures import ThreadPoolExecutor

from . import lib

FLAG = {"C05": "c05", "C13": "c13", "C18": "c18"}


def validate(w, name, rows):
    v, st, tr = lib.tlc_trace(w, name, "Trace_Pipeline", lib.cfg_of("Trace_Pipeline"), rows, chunk=2500,
                              boundary=lambda r: r["ev"] == "OpStart")
    v.setdefault("bad", [])
    return v, st, tr


def run_ops(vh, d, name, prep, ops=None, only=None, rand=None):
    out = os.path.join(d, name + ".ndjson")
    cmd = [vh, "ops-run", "-out", out]
    if rand:
        cmd += ["-nocat", "-rand", str(rand[0]), "-seed", str(rand[1])]
    if prep:
        cmd.append("-prep")
    if ops:
        cmd += ["-ops", ops]
    if only:
        cmd += ["-only", only]
    lib.run(cmd, timeout=3000)
    return lib.read_ndjson(out)


def runs_of(rows):
    cur = None
    for r in rows:
        if r["ev"] == "OpStart":
            cur = [r]
            yield cur
        elif cur is not None:
            cur.append(r)


def rand_of(opname):
    """rand_<seed>_<i>_v<k> -> (i + 1, seed): regenerating i+1 random ops with that seed reproduces op i"""
    if not opname.startswith("rand_"):
        return None
    _, seed, i, _ = opname.split("_")
    return [int(i) + 1, int(seed)]


def check(prop, w, tier, t0):
    vh = lib.build_harness()
    verdict = lib.Verdict(prop)
    flag = FLAG[prop]
    d = w.sub("mc")
    r = lib.tlc(d, "Pipeline", lib.cfg_of("Pipeline", MAXEV=6 if tier == "quick" else 8), timeout=3000)
    if not r.ok:
        raise lib.Inconclusive("Pipeline model run failed:\n" + (r.error or ""))
    states, trans = r.distinct, r.generated
    d = w.sub("ops")
    names = [l.split()[0] for l in lib.run([vh, "ops-list"]).stdout.splitlines() if l.strip()]
    groups = [names[i::8] for i in range(8)]
    jobs = [(g, prep, None) for g in groups for prep in (False, True)]
    sd = lib.seed()
    nrand = 6 if tier == "quick" else 200
    jobs += [(None, j % 2 == 1, (nrand, sd * 100 + j)) for j in range(8 if tier == "quick" else 16)]

    def job(a):
        i, (g, prep, rnd) = a
        return run_ops(vh, d, "o%d" % i, prep, ops=",".join(g) if g else None, rand=rnd)
    events = []
    with ThreadPoolExecutor(max_workers=lib.NCPU) as ex:
        for part in ex.map(job, enumerate(jobs)):
            events += part
    v, st, tr = validate(w, "V", events)
    states += st
    trans += tr
    starts = [r_[0] for r_ in runs_of(events)]
    nruns = len(starts)
    distinct = {(s["op"], s["prep"], s["fault"], s.get("late", False), s["k"]) for s in starts}
    nontrivial = {x for x in distinct if x[2] != "none"}
    for b in v["bad"]:
        if b[flag]:
            continue
        # find the OpStart of this run
        i = b["i"] - 1
        while events[i]["ev"] != "OpStart":
            i -= 1
        s = events[i]
        mode = "drvlate" if s.get("late") else s["fault"]   # drvlate: the query's error shows when its rows are read
        verdict.bad({"op": s["op"], "prep": s["prep"], "fault": mode, "k": s["k"], "rand": rand_of(s["op"])}, None,
                    "%s prep=%s fault=%s:%s -- %s" % (s["op"], s["prep"], mode, s["k"], b["why"]))

    def reproduce(case):
        rows = run_ops(vh, w.sub("repro"), "r" + lib.case_hash(case), case["prep"], ops=case["op"], only="%s:%d" % (case["fault"], case["k"]), rand=case.get("rand"))
        vv, _, _ = validate(w, "R" + lib.case_hash(case), rows)
        return any(not b[flag] for b in vv["bad"])
    rc = verdict.finish(reproduce)
    sample_runs = list(runs_of(events))
    pick = [x for x in sample_runs if x[0]["fault"] == "drv"][:1] + [x for x in sample_runs if x[0]["fault"] == "hook"][:1]
    samples = [[{k: e[k] for k in e if k not in ("case",)} for e in run[:14]] for run in pick]
    cov = {"evaluations": nruns, "distinct_nontrivial": len(nontrivial),
           "rule": "one evaluation = one run of one catalogue operation (%d catalogue operations: create/batch/save/update/delete with association graphs, association mode, reads, nested explicit transaction; plus seeded random record graphs) x PrepareStmt off/on x {fault-free, fault at driver call k for every k, error from hook invocation h for every h, cancelled context}; every run's driver+hook event sequence is fed through the Pipeline.tla acceptor by TLC; non-trivial = a run with an injected fault, hook error or cancelled context" % len(names),
           "samples": samples, "states": states, "transitions": trans, "traces_validated_against_impl": nruns,
           "exhaustive": True, "operations": names, "events_total": len(events)}
    level = "fault_enumeration" if prop == "C05" else "model_checking"
    lib.write_evidence(prop, tier, level, cov, time.time() - t0, len(verdict.violations),
                       ["faults are injected at Conn-level calls (BEGIN, Prepare, Exec, Query, COMMIT), not inside Rows.Next",
                        "a refused COMMIT rolls the inner SQLite transaction back", "hooks learn their transaction by executing a marked probe statement through the handle they receive",
                        "association-mode operations are judged for context and hook rules only (they are not single write operations in the sense of C05)"])
    return rc


def replay(prop, w, path):
    vh = lib.build_harness()
    case = json.load(open(path))
    rows = run_ops(vh, w.sub("replay"), "r", case["prep"], ops=case["op"], only="%s:%d" % (case["fault"], case["k"]), rand=case.get("rand"))
    v, _, _ = validate(w, "R", rows)
    for b in v["bad"]:
        if not b[FLAG[prop]]:
            print("VIOLATION property=%s replay=%s" % (prop, path))
            print("  " + b["why"])
            return 1
    print("no violation")
    return 0
